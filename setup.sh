#!/bin/sh
# offline setup: parse every specification module with SANY (8 at a time); nothing is downloaded or compiled
cd "$(dirname "$0")" || exit 2
mkdir -p work evidence replays
CP=/opt/veriftools/tla/tla2tools.jar:/opt/veriftools/tla/CommunityModules-deps.jar
# the Ind_* modules (inductive proofs) use the TLAPS standard library, which is not on SANY's default path
PCP=$CP:/opt/veriftools/tlapm/lib/tlapm/stdlib
export CP PCP
fails=$(cd spec && ls *.tla | xargs -P 8 -I{} sh -c '
  case "{}" in Ind_*) cp=$PCP ;; *) cp=$CP ;; esac
  out=$(timeout 300 java -cp $cp tla2sany.SANY "{}" 2>&1)
  if echo "$out" | grep -q -E "Semantic errors|Parse Error|Fatal|Could not|\*\*\* Errors"; then
    echo "SANY failed on {}"; echo "$out" | tail -15
  fi')
if [ -n "$fails" ]; then echo "$fails"; exit 2; fi
echo "setup ok: all spec modules parse"
exit 0
