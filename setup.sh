#!/bin/sh
# offline setup: parse every specification module with SANY; nothing is downloaded or compiled
cd "$(dirname "$0")" || exit 2
mkdir -p work evidence replays
rc=0
for f in spec/*.tla; do
  m=$(basename "$f" .tla)
  out=$(cd spec && timeout 120 java -cp /opt/veriftools/tla/tla2tools.jar:/opt/veriftools/tla/CommunityModules-deps.jar tla2sany.SANY "$m.tla" 2>&1)
  if echo "$out" | grep -q -E "Semantic errors|Parse Error|Fatal|Could not|\*\*\* Errors"; then
    echo "SANY failed on $m"; echo "$out" | tail -20; rc=2
  fi
done
[ $rc -eq 0 ] && echo "setup ok: all spec modules parse"
exit $rc
