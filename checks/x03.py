"""X03 - CoE object-dictionary services (SDO information) and mailbox framing.

Spec: spec/OdInfo.tla (the abstract object dictionary, the server's legal fragmentations of
every response for a given mailbox size, the client obligations: well-formed requests, result =
dictionary), MC_OdInfo (exhaustive: an abstract client against every legal fragmentation),
OdInfoScripts (TLC enumerates dictionaries, fragment splits and reply scripts), OdInfoTrace
(validates recorded sessions; instantiates Mailbox.tla of C15 for the counter chain).

Binding: the real Terminal.read_ODlist / read_object_entry / coe_request / mbx_send / mbx_recv,
ObjectEntry.read / write and Terminal.sdo_read_format run on a real EtherCat object wired to
harness/simbus with a mailbox terminal whose server is harness/odserver.OdServer (the
conformant SDO server of C16 extended with the SDO-information service).  The mails seen by the
terminal in both directions, the calls of sdo_read / sdo_write made by ObjectEntry, and the
outcome of every call are the trace.  The server is judged by the same spec (OdInfo.SFrag)."""
import logging
import struct

from harness import odserver, simbus, simloop
from harness import tlc as T

PROPERTY = "X03"
LEVEL = "model_checking"

CHUNK = 300


# ---- running one session on the real code ----------------------------------------------------
def make_terminal(mbo, mbi, station=1001):
    term = simbus.SimTerminal(station=station)
    struct.pack_into("<HHBxxx", term.mem, 0x800, 0x1000, mbo, 0x26)   # SM0: mailbox, master writes
    struct.pack_into("<HHBxxx", term.mem, 0x808, 0x1400, mbi, 0x22)   # SM1: mailbox, master reads
    return term


def name_bytes(s):
    if isinstance(s, str):
        return list(s.encode("utf8", "surrogateescape"))
    return [-1]


def num(x):
    """a number as the code keeps it (enum members by their value); anything else is -1"""
    if isinstance(x, bool):
        return int(x)
    if isinstance(x, int):
        return x
    v = getattr(x, "value", None)
    return v if isinstance(v, int) else -1


def entry_value(oe, key=None):
    return dict(key=num(key) if key is not None else num(getattr(oe, "valueInfo", -1)),
                index=num(getattr(oe, "index", -1)),
                sub=num(getattr(oe, "valueInfo", -1)),
                dtype=num(getattr(oe, "dataTypeOriginal", -1)),
                bits=num(getattr(oe, "bitLength", -1)),
                access=num(getattr(oe, "objectAccess", -1)),
                name=name_bytes(getattr(oe, "name", None)))


def odlist_value(ret):
    out = []
    for k, o in ret.items():
        ents = []
        for kk, e in getattr(o, "entries", {}).items():
            v = entry_value(e, kk)
            del v["index"]
            ents.append(v)
        out.append(dict(key=num(k), index=num(getattr(o, "index", -1)), dtype=num(getattr(o, "dataType", -1)),
                        maxsub=num(getattr(o, "maxSub", -1)), name=name_bytes(getattr(o, "name", None)),
                        ents=ents))
    return out


def pyval(v):
    """a Python value returned by ObjectEntry.read as the record Decodes() looks at"""
    if isinstance(v, (bool, int)):
        return dict(k="int", v=int(v), b=[])
    if isinstance(v, str):
        return dict(k="str", v=0, b=list(v.encode("utf8", "surrogateescape")))
    if isinstance(v, (bytes, bytearray)):
        return dict(k="bytes", v=0, b=list(v))
    return dict(k=type(v).__name__, v=0, b=[])


def topy(val):
    if val["k"] == "int":
        return val["v"]
    if val["k"] == "str":
        return bytes(val["b"]).decode("utf8")
    return bytes(val["b"])


def make_choose(plan):
    """plan: {(fixed, total, cap): [sizes...]} chosen per response shape; default fill"""
    def choose(op, total, fixed, cap):
        s = plan.get((fixed, total, cap))
        return s if s else odserver.max_fill(op, total, fixed, cap)
    return choose


def run_session(sess):
    """sess: dict(od, mbx=dict(out, in), script=[slot...], plan={...}, calls=[...], values=[[index, sub, [bytes]]]).
    Runs the calls one after the other on one real Terminal; returns the trace for OdInfoTrace."""
    from ebpfcat.ethercat import EtherCat, Terminal
    term = make_terminal(sess["mbx"]["out"], sess["mbx"]["in"])
    values = {(i, False, s): bytes(b) for i, s, b in sess.get("values", [])}
    srv = odserver.OdServer(term, sess["od"], sess.get("script", ()), make_choose(sess.get("plan", {})), values)
    term.mbx_server = srv
    ev = srv.events
    state = dict(current=None)
    nreq = sum(2 + o["maxsub"] for o in sess["od"]) + 2

    def out_rec(**kw):
        d = dict(res="ok", value=[], exctype="", exc="", srvval=[])
        d.update(kw)
        return d

    async def main():
        ec = EtherCat("x")
        simbus.attach(ec, simbus.SimBus([term]))
        t = Terminal(ec)
        t.position = term.station
        t.mbx_lock = ec.get_mbx_lock(term.station)
        t.parse_sync_managers(bytes(term.mem[0x800:0x810]))
        real_read, real_write = t.sdo_read, t.sdo_write

        async def sdo_read(index, subindex=None):
            rec = dict(ev="sdo", op="up", index=index, sub=-1 if subindex is None else subindex, data=[], res="ok")
            try:
                r = await real_read(index, subindex)
                rec["data"] = list(r) if isinstance(r, (bytes, bytearray)) else [-1]
                return r
            except Exception:
                rec["res"] = "raise"
                raise
            finally:
                ev.append(rec)

        async def sdo_write(data, index, subindex=None):
            rec = dict(ev="sdo", op="down", index=index, sub=-1 if subindex is None else subindex,
                       data=list(data) if isinstance(data, (bytes, bytearray)) else [-1], res="ok")
            try:
                return await real_write(data, index, subindex)
            except Exception:
                rec["res"] = "raise"
                raise
            finally:
                ev.append(rec)
        t.sdo_read, t.sdo_write = sdo_read, sdo_write
        known = {}
        for c in sess["calls"]:
            fn, a = c["fn"], c["a"]
            ev.append(dict(ev="call", fn=fn, a=a))
            state["current"] = fn
            try:
                if fn == "odlist":
                    r = await t.read_ODlist()
                    for o in r.values():
                        for e in getattr(o, "entries", {}).values():
                            known[(e.index, e.valueInfo)] = e
                    out = out_rec(value=odlist_value(r))
                elif fn == "entry":
                    oe = await t.read_object_entry(a["index"], a["sub"])
                    known[(a["index"], a["sub"])] = oe
                    out = out_rec(value=entry_value(oe))
                elif fn == "read":
                    out = out_rec(value=pyval(await known[(a["index"], a["sub"])].read()))
                elif fn == "write":
                    await known[(a["index"], a["sub"])].write(topy(a["val"]))
                    out = out_rec(srvval=list(srv.od.get((a["index"], False, a["sub"]), b"")))
                elif fn == "fmt":
                    fmt = "<" + "".join({1: "B", 2: "H", 4: "I"}[w] for w in a["widths"])
                    out = out_rec(value=[num(x) for x in await t.sdo_read_format(fmt, a["index"], a["sub"])])
                else:
                    raise T.MachineryError(f"unknown call {fn}")
            except T.MachineryError:
                raise
            except Exception as e:
                out = out_rec(res="raise", exctype=type(e).__name__, exc=f"{e}"[:160])
            state["current"] = None
            ev.append(dict(ev="ret", out=out))

    logging.disable(logging.CRITICAL)
    try:
        simloop.run(main, budget=4000 + 150 * nreq * (1 + len(sess["calls"])))
    except simloop.StallError as e:
        ev.append(dict(ev="ret", out=out_rec(res="stall", exc=str(e))))
    finally:
        logging.disable(logging.NOTSET)
    return dict(od=sess["od"], mbx=sess["mbx"], ev=ev)


def validate(ctx, traces):
    from concurrent.futures import ThreadPoolExecutor
    n = max(1, min(4, -(-len(traces) // 120))) if len(traces) <= 4 * CHUNK else -(-len(traces) // CHUNK)
    size = -(-len(traces) // n)
    parts = [traces[k:k + size] for k in range(0, len(traces), size)]
    wds = [ctx.workdir() for _ in parts]
    obs = {}
    results = []

    def one(wd, part):
        import json
        import os
        path = os.path.join(wd, "traces.json")
        with open(path, "w") as f:
            json.dump(part, f)
        res = T.run(wd, "OdInfoTrace", "OdInfoTrace.cfg", workers=1, timeout=900, deadlock=False,
                    env={"TRACE_FILE": path})
        if res.error:
            raise T.MachineryError(f"trace validation OdInfoTrace failed:\n{res.error}\n{res.out[-2000:]}")
        recs = {r[0]: (r[1], r[2]) for r in T.printed_records(res, "RESULT")}
        if len(recs) != len(part):
            raise T.MachineryError(f"OdInfoTrace: {len(recs)} results for {len(part)} traces\n{res.out[-3000:]}")
        o = {}
        for i, l, cls in T.printed_records(res, "OBS"):
            o.setdefault(i, set()).add((l, cls))
        return res, [recs[i] for i in range(1, len(part) + 1)], o

    with ThreadPoolExecutor(max_workers=4) as ex:
        futs = [ex.submit(one, w, p) for w, p in zip(wds, parts)]
        base = 0
        for f, p in zip(futs, parts):
            res, rs, o = f.result()
            ctx.tlc_stats(res)
            results.extend(rs)
            for i, s in o.items():
                obs[base + i - 1] = s
            base += len(p)
    return results, obs


# ---- what TLC enumerates -------------------------------------------------------------------
SLOTS = {"plain": {}, "d1": {"delay": 1}, "d2": {"delay": 2}, "eoe": {"mail": ["eoe"]},
         "mideoe": {"mid": ["eoe"], "frag2": True}, "emcy": {"mail": ["emcy"]},
         "err": {"err": 0x06020000}, "abort": {"abort": True}, "mbxerr": {"mbxerr": True}}
REFUSALS = ("err", "abort", "mbxerr")
SHAPES_Q = ("v0", "none", "rec1", "gap3")
SHAPES_T = ("v0", "none", "rec1", "gap3", "arr2", "str", "wide")
FIXED = {"list": 2, "od": 6, "oe": 10}


def tset(xs):
    return "{" + ", ".join(T.tla(x) for x in xs) + "}"


def scripts_cfg(wd, name, spec, inv, **kw):
    c = dict(MaxObjs=0, Shapes=("v0",), BigNs=(), Triples=(), MaxLen=0, Kinds=("plain",), Refusals=REFUSALS,
             Wanted="= {}")
    c.update(kw)
    return T.write_cfg(wd, name, f"""SPECIFICATION {spec}
CONSTANTS MaxObjs = {c['MaxObjs']}
          Shapes = {tset(c['Shapes'])}
          BigNs = {tset(c['BigNs'])}
          Wanted {c['Wanted']}
          Triples = {tset(c['Triples'])}
          MaxLen = {c['MaxLen']}
          Kinds = {tset(c['Kinds'])}
          Refusals = {tset(c['Refusals'])}
INVARIANT {inv}
CHECK_DEADLOCK FALSE
""")


def split_triples(quick):
    caps = (10,) if quick else (10, 12, 17)
    out = []
    for cap in caps:
        for n in range(0, 4 if quick else 5):
            out.append((2, 2 + 2 * n, cap))
        for k in range(0, 6):
            out.append((6, 6 + k, cap))
            out.append((10, 10 + k, cap))
    return out


WANTED = [("n%d" % k,) for k in range(6)] + [("none",) * k for k in range(5)] + \
    [("typed",), ("big",), ("v0", "big"), ("word",), ("v0", "word"), ("v0", "typed"), ("v0",), ("rec1", "v0"),
     ("gap3",), ("arr2",), ("big", "v0"), ("arr2", "v0"), ("str", "wide"), ("wide", "arr2", "str")]


def enumerate_all(ctx):
    """one TLC run of OdInfoScripts.AllSpec ->
    product dictionaries [[shapes, od]...]; the dictionaries of the dedicated sessions {shapes: od}
    (one object of every name length, objects without entries = lists of every length, typed
    entries, 255 subindices, a data type ECDataType does not list); the split table
    {(fixed, total, cap): [sizes...]}; the reply scripts"""
    wd = ctx.workdir()
    with open(f"{wd}/OdInfoWanted.tla", "w") as f:
        f.write("---- MODULE OdInfoWanted ----\nEXTENDS OdInfoScripts\nWantedDef == " + tset(WANTED) + "\n====\n")
    cfg = scripts_cfg(wd, "a.cfg", "AllSpec", "EmitAll", MaxObjs=3 if ctx.quick else 4,
                      Shapes=SHAPES_Q if ctx.quick else SHAPES_T, BigNs=(7, 25, 60), Wanted="<- WantedDef",
                      Triples=[f * 10000 + t * 100 + c for f, t, c in split_triples(ctx.quick)],
                      MaxLen=2 if ctx.quick else 3, Kinds=tuple(SLOTS))
    res = T.require_clean(T.run(wd, "OdInfoWanted", cfg, workers=1, timeout=1200), "OdInfoScripts")
    recs = T.printed_records(res, "DICT")
    special = {tuple(a): d for par, a, d in recs if par == -1}
    if len(special) != len(set(WANTED)):
        raise T.MachineryError("dictionaries of the dedicated sessions are missing")
    dicts = sorted(([list(a) + ([par] if par > 0 else []), d] for par, a, d in recs if par >= 0),
                   key=lambda r: (len(r[0]), repr(r[0])))
    table = {}
    for f, t, c, sp in T.printed_records(res, "SPLIT"):
        table.setdefault((f, t, c), []).append(list(sp))
    for v in table.values():
        v.sort()
    slots = sorted(list(r[0]) for r in T.printed_records(res, "SLOTS"))
    if not dicts or not table or not slots:
        raise T.MachineryError("enumeration incomplete")
    return res, dicts, special, table, slots


def model_check(ctx):
    wd = ctx.workdir()
    c = dict(shapes=("v0", "rec1", "gap3"), maxobjs=2, mbx=(22, 25)) if ctx.quick else \
        dict(shapes=("v0", "none", "rec1", "gap3", "arr2"), maxobjs=2, mbx=(22, 23, 25, 30))
    T.write_cfg(wd, "mc.cfg", f"""SPECIFICATION MCSpec
CONSTANTS Shapes = {tset(c['shapes'])}
          MaxObjs = {c['maxobjs']}
          MbxIns = {tset(c['mbx'])}
          AllowRefuse = TRUE
INVARIANTS ResultExact FailureKnown CountConsistent Reassembly
""")
    res = T.require_clean(T.run(wd, "MC_OdInfo", "mc.cfg", workers=4, timeout=1500), "MC_OdInfo")
    if not res.ok:
        raise T.MachineryError("OdInfo violates its own invariants:\n" + res.counterexample())
    return res, dict(c, distinct=res.distinct, generated=res.generated)


# ---- sessions --------------------------------------------------------------------------------
A0 = dict(index=0, sub=0)
ODLIST = dict(fn="odlist", a=A0)
MBX_OUT = (16, 20, 32)
MBX_IN_Q = (22, 24, 29)


def responses(od):
    """(kind, total) of every response the dictionary can give (what a plan has to split)"""
    out = [("list", 2 + 2 * len(od))]
    for o in od:
        out.append(("od", 6 + len(o["name"])))
        for e in o["ents"]:
            out.append(("oe", 10 + len(e["name"])))
    return out


def make_plan(od, cap, table, rot):
    """one TLC-enumerated split per response shape, taken in rotation from the table"""
    plan = {}
    for k, (kind, total) in enumerate(sorted(set(responses(od)))):
        splits = table.get((FIXED[kind], total, cap))
        if splits:
            plan[(FIXED[kind], total, cap)] = splits[(rot * 7 + k * 3) % len(splits)]
    return plan


def odd_plan(od, cap):
    """long lists: fragments one byte short of full, so that indices straddle fragments"""
    total = 2 + 2 * len(od)
    if total <= cap or cap < 4:
        return {}
    sizes, left = [], total
    while left > 0:
        n = min(left, cap - 1 if (len(sizes) % 2 == 0) else cap)
        sizes.append(n)
        left -= n
    return {(2, total, cap): sizes}


TYPED_VALUES = {    # sub -> values (as stored by the terminal / as written by the user)
    1: [([1], 1), ([0], 0)],
    2: [([0x7f], -128), ([0x80], 127), ([0xff], -1)],
    3: [([0x34, 0x12], -2), ([0x00, 0x80], 0x7fff), ([0xff, 0xff], -32768)],
    4: [([1, 2, 3, 4], -2147483648), ([0xff, 0xff, 0xff, 0xff], 0x7fffffff), ([0, 0, 0, 0x80], -1)],
    5: [([0xff], 0), ([0], 255)],
    6: [([0xfe, 0xff], 0x1234), ([1, 0], 0xffff)],
    7: [([4, 3, 2, 1], 0x7ffffffe), ([0xff, 0xff, 0xff, 0x7f], 1)],
}


def typed_session(od, mbx, k, rng=None):
    """entry / read / write / read on every typed entry, then sdo_read_format"""
    o = od[0]
    values, calls = [], []
    for e in o["ents"]:
        sub, dt = e["sub"], e["dtype"]
        if sub == 0:
            continue
        a = dict(index=o["index"], sub=sub)
        if dt == 9:
            stored, new = list(b"abcdef"[:3 + k % 4]), dict(k="str", v=0, b=list(b"Hello, world"[:1 + (5 * k) % 12]))
        elif dt == 10:
            stored, new = [0, 255, k % 256], dict(k="bytes", v=0, b=[k % 256, 0, 128, 7][:1 + k % 4])
        else:
            tv = TYPED_VALUES[dt]
            stored, v = tv[k % len(tv)]
            if rng is not None:
                w = len(stored)
                stored = [rng.randrange(256) for _ in range(w)]
                if dt == 7:
                    stored[3] &= 0x7f
                lo, hi = {1: (0, 1), 2: (-128, 127), 3: (-32768, 32767), 4: (-2 ** 31, 2 ** 31 - 1),
                          5: (0, 255), 6: (0, 65535), 7: (0, 2 ** 31 - 1)}[dt]
                v = rng.randint(lo, hi)
            new = dict(k="int", v=v, b=[])
        values.append([o["index"], sub, stored])
        calls += [dict(fn="entry", a=a), dict(fn="read", a=a), dict(fn="write", a=dict(a, val=new)),
                  dict(fn="read", a=a)]
    widths = [[1], [2], [1, 1, 2], [4], [2, 1, 1], [1, 2, 1]][k % 6]
    values.append([o["index"], 20, [(17 * k + 3 * i + 1) % 256 if i < 3 else (k + i) % 128 for i in range(sum(widths))]])
    calls.append(dict(fn="fmt", a=dict(index=o["index"], sub=20, widths=widths)))
    return dict(kind="typed", od=od, mbx=mbx, values=values, calls=calls)


def build_sessions(ctx, dicts, special, table, slots):
    quick = ctx.quick
    out = []
    caps = sorted({c for _, _, c in table})
    # A: every enumerated dictionary, mailbox sizes and splits in rotation
    for n, (shapes, od) in enumerate(dicts):
        if shapes[:1] == ["biglist"]:
            for mi in ((22, 32) if quick else (22, 29, 32, 64, 128)):
                for plan in ({}, odd_plan(od, mi - 12)):
                    out.append(dict(kind="biglist", shapes=shapes, od=od, mbx=dict(out=MBX_OUT[n % 3], **{"in": mi}),
                                    plan=plan, calls=[ODLIST]))
            continue
        for r in range(1 if quick or len(shapes) > 3 else 2):
            cap = caps[(n + r) % len(caps)]
            out.append(dict(kind="dict", shapes=shapes, od=od, mbx=dict(out=MBX_OUT[(n + r) % 3], **{"in": cap + 12}),
                            plan=make_plan(od, cap, table, n + 5 * r), calls=[ODLIST]))
        if n % (4 if quick else 2) == 0:           # and with room to spare: nothing fragmented
            out.append(dict(kind="dict", shapes=shapes, od=od, mbx=dict(out=32, **{"in": 64}), plan={}, calls=[ODLIST]))
    for n, shapes in enumerate((("arr2",), ("arr2", "v0"), ("str", "wide"), ("wide", "arr2", "str"), ("typed",))):
        for r, cap in enumerate(caps):
            out.append(dict(kind="dict", shapes=list(shapes), od=special[shapes],
                            mbx=dict(out=MBX_OUT[(n + r) % 3], **{"in": cap + 12}),
                            plan=make_plan(special[shapes], cap, table, n + 3 * r), calls=[ODLIST]))
    # B: every enumerated split once
    for (fixed, total, cap), splits in sorted(table.items()):
        for sp in splits:
            if fixed == 2:
                od = special[("none",) * ((total - 2) // 2)]
                calls = [ODLIST]
            else:
                od = special[("n%d" % (total - fixed),)]
                calls = [ODLIST] if fixed == 6 else [dict(fn="entry", a=dict(index=od[0]["index"], sub=0))]
            out.append(dict(kind="split", od=od, mbx=dict(out=MBX_OUT[len(sp) % 3], **{"in": cap + 12}),
                            plan={(fixed, total, cap): sp}, calls=calls, split=[fixed, total, cap, sp]))
    # C: reply scripts on the first requests; afterwards the terminal must still be usable
    for n, sl in enumerate(slots):
        for shapes in ((("v0",), ("rec1", "v0")) if quick else (("v0",), ("rec1", "v0"), ("gap3",))):
            od = special[shapes] if shapes in special else [d for s, d in dicts if tuple(s) == shapes][0]
            first = od[0]
            # quick scripts are short: shifted by one they also reach the entry request
            for sl2 in ([sl, ["plain"] + sl] if quick and len(od) == 1 else [sl]):
                out.append(dict(kind="script", shapes=list(shapes), od=od, mbx=dict(out=MBX_OUT[n % 3], **{"in": 24}),
                                script=[SLOTS[k] for k in sl2], slots=sl2, plan={},
                                calls=[ODLIST, dict(fn="entry", a=dict(index=first["index"], sub=first["maxsub"])),
                                       ODLIST]))
    # D: read_object_entry for every subindex, present or not, and for an object that does not exist
    for shapes in (("v0", "typed"), ("gap3",), ("arr2",)) if quick else (("v0", "typed"), ("gap3",), ("arr2",), ("big", "v0")):
        od = special[shapes] if shapes in special else [d for s, d in dicts if tuple(s) == shapes][0]
        calls = []
        for o in od:
            subs = range(0, o["maxsub"] + 2) if o["maxsub"] < 20 else (0, 1, 2, 127, 128, 254, 255)
            calls += [dict(fn="entry", a=dict(index=o["index"], sub=s)) for s in subs]
        calls.append(dict(fn="entry", a=dict(index=0x5555, sub=0)))
        for mi in (22, 40):
            out.append(dict(kind="entries", shapes=list(shapes), od=od, mbx=dict(out=16, **{"in": mi}), plan={}, calls=calls))
    # E: ObjectEntry.read / write and sdo_read_format
    typed = special[("typed",)]
    for k in range(6 if quick else 24):
        out.append(typed_session(typed, dict(out=(24, 32, 64)[k % 3], **{"in": (24, 32, 48)[k % 3]}), k))
    for k in range(4 if quick else 40):            # extra random values (not gating)
        out.append(dict(typed_session(typed, dict(out=32, **{"in": 32}), k, ctx.rng), random=True))
    # F: 255 subindices; a data type ECDataType does not know
    for shapes in (("big",), ("v0", "big")):
        out.append(dict(kind="big255", shapes=list(shapes), od=special[shapes], mbx=dict(out=16, **{"in": 22}), plan={},
                        calls=[ODLIST]))
    for shapes in (("word",), ("v0", "word")):
        od = special[shapes]
        out.append(dict(kind="dtype", shapes=list(shapes), od=od, mbx=dict(out=16, **{"in": 24}), plan={},
                        calls=[ODLIST, dict(fn="entry", a=dict(index=od[-1]["index"], sub=0))]))
    return out


# ---- judging ---------------------------------------------------------------------------------
def brief_event(e):
    if e is None:
        return None
    if e["ev"] in ("req", "rsp"):
        m = e["m"]
        return dict(ev=e["ev"], mt=m["mt"], cnt=m["cnt"], wlen=m["wlen"], len=m["len"], svc=m["svc"],
                    cmd=m["cmd"], body=m["body"][:16], bodylen=len(m["body"]))
    if e["ev"] == "ret":
        o = dict(e["out"])
        o["value"] = repr(o["value"])[:300]
        return dict(ev="ret", out=o)
    return e


def facts(tr):
    frag = sum(1 for e in tr["ev"] if e["ev"] == "rsp" and e["m"]["mt"] == 3 and e["m"]["svc"] == 8
               and e["m"]["cmd"] & 0x80)
    rets = [e["out"] for e in tr["ev"] if e["ev"] == "ret"]
    return dict(fragments_incomplete=frag, requests=sum(1 for e in tr["ev"] if e["ev"] == "req"),
                outcomes=[o["res"] + (":" + o["exctype"] if o["exctype"] else "") for o in rets])


def session_case(sess, tr):
    d = {k: v for k, v in sess.items() if k != "plan"}
    d["plan"] = [[list(k), v] for k, v in sess.get("plan", {}).items()]
    d.update(facts(tr))
    return d


def judge(ctx, sess, tr, result, obs, tally):
    matched, length = result
    f = facts(tr)
    ctx.traces += 1
    key = (sess["kind"], repr(sess.get("shapes")), sess["mbx"]["out"], sess["mbx"]["in"],
           repr(sorted(sess.get("plan", {}).items())), repr(sess.get("slots")), repr(sess["calls"])[:400],
           repr(sess.get("values")))
    ctx.evaluated(key, nontrivial=f["fragments_incomplete"] > 0 or sess["kind"] in ("script", "typed", "entries")
                  and sess.get("slots") != ["plain"] * len(sess.get("slots") or ()))
    classes = sorted({c for _, c in obs})
    for c in classes:
        tally["observations"][c] = tally["observations"].get(c, 0) + 1
    k = sess["kind"]
    if matched == length:
        tally["accepted"][k] = tally["accepted"].get(k, 0) + 1
        return True
    tally["rejected"][k] = tally["rejected"].get(k, 0) + 1
    bad = tr["ev"][matched]
    case = session_case(sess, tr)
    case.update(rejected_at=matched, rejected_kind=bad["ev"], rejected_event=brief_event(bad),
                observations=classes, events=[brief_event(e) for e in tr["ev"][max(0, matched - 5):matched + 1]])
    what = dict(req="a request that is not a well-formed SDO-information request a client may send here",
                rsp="the simulated server left OdInfo.tla (harness)", emptyread="the mailbox was read while empty",
                sdo="ObjectEntry / sdo_read_format called sdo_read / sdo_write with the wrong address or bytes",
                ret="the outcome of the call is not what the dictionary requires",
                call="a call started while the previous exchange was unfinished").get(bad["ev"], bad["ev"])
    ctx.case_failed(case, f"{k} session (shapes {sess.get('shapes')}, mailbox {sess['mbx']['out']}/{sess['mbx']['in']}, "
                          f"slots {sess.get('slots')}): event {matched} of {length} rejected: {what}: "
                          f"{brief_event(bad)}"[:900])
    return False


OBSERVATIONS = {
    "sub0": "read_ODlist leaves out subindex 0 of every object whose max subindex is > 0 (ethercat.py:1044)",
    "dtype": "an entry with a base data type ECDataType does not list (e.g. 0x1F WORD) makes read_object_entry / "
             "read_ODlist raise ValueError (ethercat.py:1016)",
    "emcy": "a CoE emergency arriving while an SDO-information response is awaited is taken for the response: "
            "EtherCatError, and the response stays in the mailbox (ethercat.py:872-875, service not looked at)",
    "mbxerr": "the mailbox error service (type 0) as answer is skipped as unrelated mail: coe_request polls forever "
              "(ethercat.py:867-871)",
}


def run(ctx):
    from concurrent.futures import ThreadPoolExecutor
    import time
    t0 = time.time()
    phases = {}
    with ThreadPoolExecutor(max_workers=2) as ex:
        f_mc = ex.submit(model_check, ctx)
        r_e, dicts, special, table, slots = enumerate_all(ctx)
        ctx.tlc_stats(r_e)
        phases["enumerate"] = round(time.time() - t0, 1)
        sessions = build_sessions(ctx, dicts, special, table, slots)
        traces = [run_session(s) for s in sessions]
        phases["real_code"] = round(time.time() - t0, 1)
        results, obs = validate(ctx, traces)
        phases["validate"] = round(time.time() - t0, 1)
        r_mc, info = f_mc.result()
        phases["model_check_done"] = round(time.time() - t0, 1)
    ctx.extra["phases_s"] = phases
    ctx.tlc_stats(r_mc)
    ctx.extra["mc_odinfo"] = info
    tally = dict(accepted={}, rejected={}, observations={})
    for i, (s, tr, r) in enumerate(zip(sessions, traces, results)):
        good = judge(ctx, s, tr, r, obs.get(i, ()), tally)
        if good and s["kind"] in ("dict", "split", "typed") and facts(tr)["fragments_incomplete"] > 1 \
                and len(ctx.samples) < 4:
            ctx.sample(dict(kind=s["kind"], shapes=s.get("shapes"), mbx=s["mbx"], split=s.get("split"),
                            events=[brief_event(e) for e in tr["ev"]][:9]))
    ctx.exhaustive = False
    ctx.extra["sessions"] = dict(accepted=tally["accepted"], rejected=tally["rejected"])
    ctx.extra["observations"] = {k: dict(sessions=v, what=OBSERVATIONS.get(k, "?")) for k, v in
                                 sorted(tally["observations"].items())}
    ctx.extra["enumerated"] = dict(dictionaries=len(dicts), special_dictionaries=len(special),
                                   splits=sum(len(v) for v in table.values()), split_shapes=len(table),
                                   reply_scripts=len(slots))
    for k, v in sorted(tally["observations"].items()):
        print(f"OBSERVATION property=X03 {k}: {OBSERVATIONS.get(k, '?')} ({v} sessions)")
    ctx.rule = ("sessions on one simulated terminal: every TLC-enumerated dictionary (sequences of object shapes, "
                "long lists) x mailbox sizes x TLC-enumerated splits in rotation; every TLC-enumerated split of "
                "every response shape once; TLC-enumerated reply scripts (delays, unrelated mail, three kinds of "
                "refusal) followed by further calls; read_object_entry for every subindex; ObjectEntry.read / "
                "write / sdo_read_format on typed entries; non-trivial = a response came in more than one "
                "fragment, or a scripted / typed / per-entry session")
    ctx.assumptions.append("the server never splits the fixed part of a response (list type; index .. object code; "
                           "index .. object access) over two fragments; value-info bits 3..6 (unit, default, minimum, "
                           "maximum) are not requested; names are ASCII; the ESC's refusal of a write to a full "
                           "mailbox (mbx_send's status check at 0x805) is not simulated")


def replay(ctx, case):
    sess = dict(case)
    sess["plan"] = {tuple(k): v for k, v in case.get("plan", [])}
    tr = run_session(sess)
    results, obs = validate(ctx, [tr])
    for e in tr["ev"]:
        print("  ", brief_event(e))
    print("TLC matched", results[0][0], "of", results[0][1], "observations", sorted(obs.get(0, ())))
    judge(ctx, sess, tr, results[0], obs.get(0, ()), dict(accepted={}, rejected={}, observations={}))
