"""C05 - every program the generator accepts loads into the kernel.

Three views of each program of a corpus of generator-accepted programs:
  kernel   BPF_PROG_LOAD with the real verifier (when bpf() is usable): the implementation-side fact
  model    spec/Verifier.tla: the acceptance rules the generator relies on, explored by TLC over ALL paths
  machine  spec/Ebpf.tla: one concrete run, whose dynamic faults are the run-time face of the same rules
Decision: the property speaks about the real verifier, so a kernel rejection is a VIOLATION; the model
decides alone only when the kernel is unavailable.  Model-rejects-kernel-accepts is recorded as model
imprecision (the model keeps two portable rules this kernel has relaxed: NULL check after every lookup,
initialised stack keys), never as a violation.  The model is calibrated in every run on deliberately broken
bytecode that both must reject.

Corpus: the statement generators of C01, C03, C06 and C07, programs using hash-map variables, Dict
update / lookup / Else, ktime, prandom, sub-programs and locals, and the library's own programs (the EtherXDP
dispatcher and fast sync groups with each bundled device)."""
import hashlib
import itertools
import json
import mmap
import os
import random

from harness import tlc as T, progs, kernel, bpfdecode

PROPERTY = "C05"
LEVEL = "model_checking"


def close_built(b):
    for v in list(vars(b.inst).values()):
        if isinstance(v, mmap.mmap):
            try:
                v.close()
            except Exception:
                pass
    for m in b.maps:
        if m["fd"] < 1000:
            try:
                os.close(m["fd"])
            except OSError:
                pass


# ---- corpus ------------------------------------------------------------------------------------------

def extra_classes():
    """hash variables, Dict, ktime, prandom, sub-programs, locals: (label, class factory)"""
    from ebpfcat.xdp import XDP, XDPExitCode
    from ebpfcat.arraymap import ArrayMap, PerCPUArrayMap
    from ebpfcat.hashmap import HashMap, Dict
    from ebpfcat.ebpf import LocalVar, Structure, Member, ktime, prandom, SubProgram
    out = []

    def mk(label, ns, body):
        def program(self):
            body(self)
            self.exit(XDPExitCode.PASS)
        out.append((label, lambda ns=ns, program=program: type("X", (XDP,), dict(ns, license="GPL", program=program))))

    for f1 in "IqB":
        for f2 in "IQh":
            def ns(f1=f1, f2=f2):
                hm, m = HashMap(), ArrayMap()
                return dict(hm=hm, a=hm.globalVar(f1, 5), b=hm.globalVar(f2, 7), m=m, g=m.globalVar("q"),
                            loc=LocalVar(f2))
            mk(f"hashvars {f1}{f2} copy", ns(), lambda s: (setattr(s, "a", s.b), setattr(s, "g", s.a)))
            mk(f"hashvars {f1}{f2} arith", ns(), lambda s: (setattr(s, "g", s.a + s.b), setattr(s, "b", s.g * 3),
                                                             setattr(s, "loc", s.b), setattr(s, "g", s.loc)))
    # in-place adds (atomic: the kernel insists on natural alignment) on variables that follow a variable of several
    # elements whose size is not a power of two (found by C08's thorough tier: F47)
    for multi in ("3H", "3B", "5B", "3I", "7H", "<HI", ">BH", "<IH", "<Bq", "HB"):
        for f in "IiQqx":
            def ns(multi=multi, f=f):
                m = ArrayMap()
                return dict(m=m, arr=m.globalVar(multi), v=m.globalVar(f), tail=m.globalVar("B"))

            def body(s):
                s.v += 3
                s.v -= 1
            mk(f"array {multi} then {f}: in-place add", ns(), body)
    # a branch that leaves the program: no dead jump may be left behind it (the kernel refuses unreachable instructions)
    def ens():
        m = ArrayMap()
        return dict(m=m, a=m.globalVar("I"), b=m.globalVar("I"), c=m.globalVar("q"))
    conds = {"eq": lambda s: s.a == 3, "and": lambda s: (s.a == 3) & (s.b > 4), "or": lambda s: (s.a == 3) | (s.b > 4),
             "not": lambda s: ~(s.a == 3), "bits": lambda s: s.a & 4, "signed": lambda s: s.c < -2,
             "notbits": lambda s: ~((s.a & 4) != 0), "bitsor": lambda s: ((s.a & 4) != 0) | (s.b == 1),
             "bitsand": lambda s: (s.b == 1) & ((s.a & 6) != 0)}
    for cn, cond in conds.items():
        def then_exits(s, cond=cond):
            with cond(s) as Else:
                s.b = 5
                s.exit(XDPExitCode.DROP)
            with Else:
                s.b = 7
            s.c = 1
        mk(f"early exit {cn}: body ends in exit, then Else", ens(), then_exits)

        def inner_block_last(s, cond=cond):
            with cond(s) as Else:
                s.b = 5
                with s.b > s.a:
                    s.exit(XDPExitCode.DROP)
            with Else:
                s.b = 7
            s.c = 1
        mk(f"early exit {cn}: inner block with exit ends the body, then Else", ens(), inner_block_last)

        def both_inner_exit(s, cond=cond):
            with cond(s) as Else:
                with s.b > s.a as E2:
                    s.exit(XDPExitCode.DROP)
                with E2:
                    s.exit(XDPExitCode.TX)
            with Else:
                s.b = 7
            s.c = 1
        mk(f"early exit {cn}: both inner branches exit, then Else", ens(), both_inner_exit)

        def else_exits(s, cond=cond):
            with cond(s) as Else:
                s.b = 5
            with Else:
                s.exit(XDPExitCode.DROP)
            s.c = 1
        mk(f"early exit {cn}: Else ends in exit", ens(), else_exits)

        def no_else(s, cond=cond):
            with cond(s):
                s.exit(XDPExitCode.DROP)
            s.c = 1
        mk(f"early exit {cn}: no Else", ens(), no_else)

        def jump_in(s, cond=cond):
            j = s.jumpIf(s.b == 9)
            with cond(s) as Else:
                s.b = 5
                s.exit(XDPExitCode.DROP)
            j.target()
            with Else:
                s.b = 7
            s.c = 1
        mk(f"early exit {cn}: a jump lands between the exit and Else", ens(), jump_in)
    for kf, vf in (("I", "q"), ("H", "I"), ("Q", "B")):
        K = type("K", (Structure,), dict(a=Member(kf)))
        V = type("V", (Structure,), dict(b=Member(vf), c=Member(vf)))
        for with_arr in (True, False):
            def ns(K=K, V=V, with_arr=with_arr):
                d = dict(table=Dict(K, V))
                if with_arr:
                    m = ArrayMap()
                    d.update(m=m, g=m.globalVar("q"))
                return d

            def upd(s, with_arr=with_arr):
                s.table.key.a = 3
                s.table.value.b = 7
                s.table.value.c = 1
                s.table.update()
                with s.table.lookup() as (v, Else):
                    v.b = v.c + 1
                    if with_arr:
                        s.g = v.b
                with Else:
                    if with_arr:
                        s.g = 0
            mk(f"dict {kf}/{vf} arr={with_arr}", ns(), upd)
    # helper calls while r0 holds the pointer to a looked-up Dict value that is used afterwards (every helper
    # clobbers r0..r5: the generator has to save what is still needed)
    for vf in ("I", "q", "H"):
        K = type("K", (Structure,), dict(a=Member("I")))
        V = type("V", (Structure,), dict(b=Member(vf), c=Member(vf)))

        def ns(K=K, V=V):
            m = ArrayMap()
            return dict(table=Dict(K, V), m=m, g=m.globalVar("Q"))
        for hname, helper in (("prandom", lambda s: prandom(s) & 0xffff), ("ktime", lambda s: ktime(s) >> 20)):
            def body(s, helper=helper):
                s.table.key.a = 3
                with s.table.lookup() as (v, Else):
                    v.b = helper(s)
                    v.c = v.b + 1
                with Else:
                    s.g = helper(s)

            def body2(s, helper=helper):
                s.table.key.a = 3
                with s.table.lookup() as (v, Else):
                    s.g = helper(s)
                    v.c = v.c + 1
            mk(f"dict {vf}: {hname} inside a lookup block, value member assigned", ns(), body)
            mk(f"dict {vf}: {hname} inside a lookup block, value used afterwards", ns(), body2)
    for f in "IQq":
        def ns(f=f):
            m = ArrayMap()
            return dict(m=m, g=m.globalVar(f), t=m.globalVar("Q"), loc=LocalVar("Q"))
        mk(f"ktime {f}", ns(), lambda s: (setattr(s, "t", ktime(s)), setattr(s, "loc", s.t), setattr(s, "g", s.loc)))
        mk(f"prandom {f}", ns(), lambda s: (setattr(s, "r3", prandom(s) & 0xffff), setattr(s, "g", s.r3)))

        def tmp(s):
            with s.tmp:
                s.tmp = ktime(s)
                s.tmp = s.tmp * 0xcf019d85 + 1
                with s.tmp & 0xffff < s.g as Else:
                    s.t = 1
                with Else:
                    s.t = 2
        mk(f"temporaries {f}", ns(), tmp)
    # sub-programs with their own locals and map variables
    for f in "IhQ":
        def factory(f=f):
            m = ArrayMap()

            class Sub(SubProgram):
                sv = m.globalVar(f)
                sl = LocalVar(f)

                def program(self):
                    self.sl = self.sv
                    self.sv = self.sl + 1
            subs = [Sub(), Sub()]

            def program(self):
                self.g = 1
                for sp in subs:
                    sp.program()
                self.exit(XDPExitCode.PASS)
            cls = type("WithSubs", (XDP,), dict(license="GPL", m=m, g=m.globalVar("q"), loc=LocalVar("q"),
                                                 program=program))
            return lambda: cls(subprograms=subs)
        out.append((f"subprograms {f}", factory()))
    for f in "Iq":
        def ns(f=f):
            pm = PerCPUArrayMap()
            return dict(pm=pm, c=pm.globalVar(f))
        mk(f"percpu {f}", ns(), lambda s: setattr(s, "c", s.c + 1))
    return out


def library_programs():
    """(label, builder() -> object with assemble()) for the library's own programs"""
    from ebpfcat import devices as D
    from ebpfcat.ebpfcat import (EtherXDP, FastSyncGroup, SimpleEtherCat, EBPFTerminal, PacketDesc, SyncManager)
    from ebpfcat.terminals import EL7041
    import ebpfcat.arraymap as am
    from ebpfcat.bpf import MapType
    out = []

    def dispatcher():
        e = EtherXDP()
        e.programs = am.create_map(MapType.PROG_ARRAY, 4, 4, 64)
        return e
    out.append(("EtherXDP dispatcher", dispatcher))

    def group(make_devices, fmmu):
        def build():
            ec = SimpleEtherCat("x")

            class Term(EBPFTerminal):
                o16 = PacketDesc(SyncManager.OUT, 0, "H")
                i16 = PacketDesc(SyncManager.IN, 0, "H")
                obit = PacketDesc(SyncManager.OUT, 2, 3)
                ibit = PacketDesc(SyncManager.IN, 2, 5)
            t = Term(ec)
            t.position, t.use_fmmu = 7, fmmu
            t.pdo_in_sz, t.pdo_in_off, t.pdo_out_sz, t.pdo_out_off = 4, 0x1100, 4, 0x1000
            mt = EL7041(ec)
            mt.position, mt.use_fmmu = 9, fmmu
            mt.pdo_in_sz, mt.pdo_in_off, mt.pdo_out_sz, mt.pdo_out_off = 8, 0x1100, 6, 0x1000
            O, I = SyncManager.OUT, SyncManager.IN
            mt.pdos = {(0x7010, 0x21): (O, 2, "H"), (0x7010, 1): (O, 0, 0), (0x7010, 2): (O, 0, 1),
                       (0x7010, 3): (O, 0, 2), (0x6010, 1): (I, 4, 0), (0x6010, 2): (I, 4, 1),
                       (0x6010, 4): (I, 4, 3), (0x6010, 0xc): (I, 5, 3), (0x6010, 0xd): (I, 5, 4),
                       (0x6000, 0x11): (I, 0, "I")}
            sg = FastSyncGroup(ec, make_devices(t, mt))
            sg.allocate()
            return sg
        return build

    def motor(t, mt):
        m = D.Motor()
        m.velocity, m.encoder, m.low_switch, m.high_switch, m.enable = \
            mt.velocity, mt.stepcounter, mt.low_switch, mt.high_switch, mt.enable
        return [m]
    sets = {
        "AnalogInput": lambda t, mt: [D.AnalogInput(t.i16)], "AnalogOutput": lambda t, mt: [D.AnalogOutput(t.o16)],
        "DigitalInput": lambda t, mt: [D.DigitalInput(t.ibit)], "DigitalOutput": lambda t, mt: [D.DigitalOutput(t.obit)],
        "RandomOutput": lambda t, mt: [D.RandomOutput(t.obit)], "Counter": lambda t, mt: [D.Counter()],
        "RandomDropper": lambda t, mt: [D.RandomDropper()], "Motor": motor,
        "Dummy": lambda t, mt: [D.Dummy([t])],
        "several": lambda t, mt: [D.AnalogOutput(t.o16), D.DigitalInput(t.ibit), D.Counter()] + motor(t, mt),
    }
    for name, mk in sets.items():
        for fmmu in (True, False):
            out.append((f"FastSyncGroup [{name}] fmmu={fmmu}", group(mk, fmmu)))
    return out


def corpus(ctx):
    """list of (source, label, builder(use_kernel) -> Built)"""
    from checks import c01, c03, c06, c07
    from harness import dslgen, condgen
    out = []
    fixed = random.Random(505)
    st = c01.depth1(True)
    st = st if not ctx.quick else st[::2]
    st += c01.byte_order_variables(True)[::3 if ctx.quick else 1]       # variables declared with a byte order
    for _ in range(150 if ctx.quick else 1500):
        st.append((c01.random_tree(fixed, 2), fixed.choice(c01.DSTS)))
    for tree, dst in st:
        out.append(("C01", f"{tree} -> {dst}", lambda k, tree=tree, dst=dst: dslgen.statement(tree, dst, k)["built"]))
    at = c03.atoms(random.Random(303), 0, all_ops=not ctx.quick)
    for j, a in enumerate(at if not ctx.quick else at[::2]):
        s = c03.blocks(a, a)[j % 2]
        out.append(("C03", repr(s)[:200], lambda k, s=s: condgen.program(s, k)["built"]))
    for _ in range(120 if ctx.quick else 1200):
        a, b, c = fixed.sample(at, 3)
        sh = c03.shapes(a, b, c)
        s = c03.blocks(fixed.choice(sh), fixed.choice(sh))[fixed.randrange(5)]
        out.append(("C03", repr(s)[:200], lambda k, s=s: condgen.program(s, k)["built"]))

    # constant shifts at the edge of the operation's width, wide left operand into narrow destinations and back
    # (the generator must refuse what the kernel refuses; added after a seeded change slipped through the quick tier)
    for left, op, c, dst in itertools.product([("reg", "r"), ("var", "Q"), ("var", "q"), ("const", 2 ** 40 + 5), ("var", "I"), ("reg", "w")],
                                              ("lsh", "rsh"), (31, 32, 33, 40, 63, 64), [("reg", "w"), ("var", "I"), ("var", "B"), ("var", "Q"), ("reg", "r")]):
        for tree in ((("bin", op, left, ("const", c))), ("bin", "add", ("bin", op, left, ("const", c)), ("var", "H"))):
            if tree[2][0] == "const" and tree[0] == "bin" and tree[1] == op:
                continue                                   # constant << constant is evaluated by Python
            out.append(("C01", f"{tree} -> {dst}", lambda k, tree=tree, dst=dst: dslgen.statement(tree, dst, k)["built"]))

    # a constant zero divisor: the generator must refuse what the kernel refuses (F40; a seeded change dropped the
    # guard for % only, and only the thorough tier had such statements)
    for left, op, dst in itertools.product([("var", "I"), ("var", "q"), ("reg", "r"), ("local", "H"), ("hash", "Q")],
                                           ("floordiv", "mod"), [("var", "q"), ("var", "I"), ("reg", "w")]):
        tree = ("bin", op, left, ("const", 0))
        out.append(("C01", f"{tree} -> {dst}", lambda k, tree=tree, dst=dst: dslgen.statement(tree, dst, k)["built"]))
        tree = ("bin", "add", ("bin", op, left, ("const", 0)), ("var", "B"))
        out.append(("C01", f"{tree} -> {dst}", lambda k, tree=tree, dst=dst: dslgen.statement(tree, dst, k)["built"]))

    class Q:
        quick = True
    for sh in c06.shapes(Q()):
        out.append(("C06", repr(sh), lambda k, sh=sh: progs.build(c06.make_class(*sh), use_kernel=k)))
    for s in c07.grid(ctx.quick):
        out.append(("C07", repr(s)[:200], lambda k, s=s: progs.build(c07.make_class(s), use_kernel=k)))
    from checks import c02, c04
    for sh in (c02.shapes_of(True)[::1 if not ctx.quick else 3]
               + (c02.byte_order_destinations(True) + c02.raw_memory_operands(True))[::1 if not ctx.quick else 2]):
        out.append(("C02", repr(sh), lambda k, sh=sh: c02.build(*sh, use_kernel=k)))
    r4 = random.Random(404)
    for _ in range(90 if ctx.quick else 900):
        d, stmts, outfmts = c04.rand_program(r4)
        out.append(("C04", json.dumps(dict(decl=d, stmts=[[o, c04.name_of(a) if a else None, c04.name_of(b) if b else None, c]
                                                           for o, a, b, c in stmts]))[:600],
                    lambda k, d=d, stmts=stmts, outfmts=outfmts: c04.build(d, stmts, outfmts, k)[0]))
    from checks import x08
    r8 = random.Random(808)
    for _ in range(300 if ctx.quick else 2500):
        d, stmts, outs, nregs = x08.rand_program(r8)
        out.append(("X08", "; ".join(f"{x08.name_of(c) if c[0] != 'R' else v + str(c[1])} := {x08.show(t)}" for c, v, t in stmts)[:600],
                    lambda k, d=d, stmts=stmts, outs=outs, nregs=nregs: x08.build(d, stmts, outs, nregs, k)))
    # a value kept in r1-r5 across a helper call inside the same expression (found by X08)
    V = lambda c, f: ("var", c, f)
    for label, d, body in [
            ("H0 = (H0 >> 5) + (A0 * ktime())", dict(arrays=["q", "B"], locals=[], hashes=["Q", "Q"], regs=[6], tmps=[], calls=True),
             [(("H", 0), None, ("bin", "add", ("bin", "rsh", V(("H", 0), "Q"), ("const", 5)), ("bin", "mul", V(("A", 0), "q"), ("ktime",))))]),
            ("with stmp: A0 = H0 + A1", dict(arrays=["b", "B"], locals=[], hashes=["I"], regs=[], tmps=["stmp"], calls=True),
             [(("T", "stmp"), None, ("const", 53)), (("A", 0), None, ("bin", "add", V(("H", 0), "I"), V(("A", 1), "B")))]),
            ("H0 = H1 + ktime()", dict(arrays=["H", "b"], locals=["Q"], hashes=["q", "q"], regs=[4], tmps=["stmp"], calls=True),
             [(("R", 4), "r", ("const", 133)), (("T", "stmp"), None, ("const", 186)), (("L", 0), None, ("const", 7)),
              (("H", 0), None, ("bin", "add", V(("H", 1), "q"), ("ktime",)))])]:
        nregs = sum(1 for c, v, t in body if c[0] == "R")
        outs = [(c, f, k) for c, f, k in x08.cells(d) if k in ("stack", "reg", "tmp")]
        out.append(("X08", label, lambda k, d=d, body=body, outs=outs, nregs=nregs: x08.build(d, body, outs, nregs, k)))
    for label, factory in extra_classes():
        out.append(("extra", label, lambda k, factory=factory: _build_obj(factory, k)))
    for label, builder in library_programs():
        out.append(("library", label, lambda k, builder=builder: _build_obj(builder, k, raw=True)))
    return out


def _build_obj(factory, use_kernel, raw=False):
    """build an object returned by factory() (a class to instantiate, a ready instance or an instance maker)"""
    with progs.recording(use_kernel) as maps:
        x = factory()
        inst = x() if isinstance(x, type) or (callable(x) and not hasattr(x, "assemble")) else x
        code = inst.assemble()
    return progs.Built(inst, code, maps)


# ---- calibration: broken bytecode both views must reject ------------------------------------------------

def calibration(fd=1):
    """fd: what LD_IMM64 names as the array map (map number 1 for the model, a real descriptor for the kernel)"""
    from harness.fidelity import ins, _lookup_arr, packet_program
    A = dict(type="array", ks=4, vs=64, max=1)
    return [
        ("exit without r0", ins(0x95), []),
        ("packet read without a guard", ins(0x61, 2, 1, 0) + ins(0x71, 3, 2, 0) + ins(0xb7, 0, 0, 0, 2) + ins(0x95), []),
        ("packet read beyond the proven range",
         packet_program(fd, 24).replace(ins(0x79, 5, 2, 16), ins(0x79, 5, 2, 20)), [A]),
        ("register read after a call scrubbed it",
         ins(0xb7, 3, 0, 0, 1) + ins(0x85, 0, 0, 0, 5) + ins(0xbf, 0, 3) + ins(0x95), []),
        ("byte swap of width 8", ins(0xb7, 1, 0, 0, 5) + ins(0xdc, 1, 0, 0, 8) + ins(0xb7, 0, 0, 0, 0) + ins(0x95), []),
        ("jump past the end", ins(0xb7, 0, 0, 0, 0) + ins(0x05, 0, 0, 5) + ins(0x95), []),
        ("store to the context", ins(0x62, 1, 0, 0, 1) + ins(0xb7, 0, 0, 0, 0) + ins(0x95), []),
        ("atomic add on packet memory",
         ins(0x61, 2, 1, 0) + ins(0x61, 3, 1, 4) + ins(0xbf, 4, 2) + ins(0x07, 4, 0, 0, 8) + ins(0x2d, 4, 3, 3, 0)
         + ins(0xb7, 5, 0, 0, 1) + ins(0xc3, 2, 5, 0) + ins(0xb7, 0, 0, 0, 2) + ins(0x95), []),
    ]


# the verifier model: Verifier2.tla is Verifier.tla plus the corrections X10 found by differential testing against the
# kernel on 57 000 single-edit mutants of generator output (no program the model accepts is rejected by the kernel)
MODEL = os.environ.get("C05_MODEL", "Verifier2")


def run_model(ctx, wd, cases, tag):
    """-> {case number: sorted list of (rule, pc)} for rejected programs; accepted ones map to []"""
    out = {}
    CH = 1500
    for start in range(0, len(cases), CH):
        path = os.path.join(wd, f"{tag}{start}.json")
        json.dump(cases[start:start + CH], open(path, "w"))
        res = T.run(wd, MODEL, MODEL + ".cfg", timeout=3000, deadlock=False, env={"TRACE_FILE": path})
        os.remove(path)
        if res.error:
            raise T.MachineryError("Verifier failed:\n" + res.error[:3000])
        ctx.tlc_stats(res)
        seen = {}
        for cid, verdict, why, pc in T.printed_records(res, "VPATH"):
            seen.setdefault(start + cid, set())
            if verdict == "reject":
                seen[start + cid].add((why, pc))
        for k in range(start + 1, start + 1 + len(cases[start:start + CH])):
            if k not in seen:
                raise T.MachineryError(f"the verifier model finished no path of program {k}")
            out[k] = sorted(seen[k])
    return out


def run(ctx):
    kern = kernel.available()
    wd = ctx.workdir()
    # 0. calibration of the model (and of the kernel, when there)
    cal = calibration()
    cal_cases = []
    for label, code, maps in cal:
        insns = bpfdecode.split(code)
        cal_cases.append(dict(programs=[insns], entry=1, maps=maps))
    cal_model = run_model(ctx, wd, cal_cases, "cal")
    not_rejected = [cal[k - 1][0] for k, v in cal_model.items() if not v]
    if not_rejected:
        raise T.MachineryError(f"the verifier model accepts deliberately broken bytecode: {not_rejected}")
    if kern:
        afd = kernel.map_create(2, 4, 64, 1)
        accepted = []
        for label, code, maps in calibration(afd):
            try:
                os.close(kernel.prog_load(code))
                accepted.append(label)
            except kernel.VerifierReject:
                pass
        os.close(afd)
        if accepted:
            raise T.MachineryError(f"the kernel accepts deliberately broken bytecode: {accepted}")
    # 1. corpus, deduplicated by bytecode (built with fake descriptors)
    items, refused, seen = [], [], set()
    by_source = {}
    for source, label, builder in corpus(ctx):
        try:
            b = builder(False)
        except Exception as e:                      # the generator refused: not an accepted program
            refused.append((source, label[:120], f"{type(e).__name__}: {e}"[:160]))
            continue
        h = hashlib.sha1(json.dumps(b.insns).encode()).hexdigest()
        if h in seen:
            continue
        seen.add(h)
        items.append(dict(source=source, label=label, builder=builder, insns=b.insns, maps=b.tla_maps(), h=h))
        by_source[source] = by_source.get(source, 0) + 1
    if not items:
        raise T.MachineryError("empty corpus")
    # 2. the model over all paths
    model = run_model(ctx, wd, [dict(programs=[it["insns"]], entry=1, maps=it["maps"]) for it in items], "m")
    # 3. one concrete run on the machine
    cases = []
    for it in items:
        cases.append(dict(programs=[it["insns"]], entry=1, maps=it["maps"],
                          progs=[[0] * m["max"] if m["type"] == "prog" else [] for m in it["maps"]],
                          orc=[[7, 0, 0, 0, 0, 0, 0, 0]] * 8, pkt=list(range(1, 101)),
                          arr=[dict(fd=j + 1, bytes=[0] * m["vs"]) for j, m in enumerate(it["maps"])
                               if m["type"] in ("array", "percpu")], hash=[], fuel=4000))
    machine = {}
    CH = 3000
    for start in range(0, len(cases), CH):
        path = os.path.join(wd, f"run{start}.json")
        json.dump(cases[start:start + CH], open(path, "w"))
        res = T.run(wd, "EbpfRun", "EbpfRun.cfg", timeout=3000, deadlock=False, env={"TRACE_FILE": path})
        os.remove(path)
        if res.error:
            raise T.MachineryError("EbpfRun failed:\n" + res.error[:3000])
        ctx.tlc_stats(res)
        for cid, r in T.printed_records(res, "RUN"):
            machine[start + cid] = r["st"]
    # 4. the kernel
    kverdict = {}
    if kern:
        for k, it in enumerate(items, 1):
            try:
                b = it["builder"](True)
            except Exception as e:
                raise T.MachineryError(f"program built with fake descriptors cannot be built with real ones: "
                                       f"{it['label'][:100]}: {e}")
            try:
                try:
                    os.close(kernel.prog_load(b.code))
                    kverdict[k] = None
                except kernel.VerifierReject as e:
                    lines = [l for l in e.log.strip().splitlines() if l.strip()]
                    kverdict[k] = (lines[-2] if len(lines) > 1 else lines[-1] if lines else f"errno {e.errno}")[:200]
            finally:
                close_built(b)
    # 5. judge
    agree = dict(both_accept=0, both_reject=0, model_only_reject=0, kernel_only_reject=0, machine_fault=0)
    model_only = {}
    for k, it in enumerate(items, 1):
        mrej = model[k]
        krej = kverdict.get(k) if kern else None
        mst = machine.get(k)
        if mst is None:
            raise T.MachineryError(f"no machine run for program {k}")
        ctx.traces += 1
        ctx.evaluated(it["h"], nontrivial=len(it["insns"]) > 6)
        if mst != ["exit"]:
            agree["machine_fault"] += 1
        rejected = (krej is not None) if kern else bool(mrej)
        if kern:
            key = ("both_accept" if not mrej and krej is None else "both_reject" if mrej and krej is not None
                   else "model_only_reject" if mrej else "kernel_only_reject")
            agree[key] += 1
            if key == "model_only_reject":
                for why, pc in mrej:
                    model_only[why] = model_only.get(why, 0) + 1
        if k % 401 == 1:
            ctx.sample(dict(source=it["source"], program=it["label"][:160], instructions=len(it["insns"]),
                            kernel="accepts" if krej is None else krej, model=mrej or "accepts", machine=mst))
        if rejected:
            ops = sorted({hex(i["op"]) for i in it["insns"]})
            ctx.case_failed(dict(source=it["source"], program=it["label"], instructions=len(it["insns"]),
                                 kernel=krej, model=[list(x) for x in mrej], machine=mst,
                                 opcodes=ops, decided_by="kernel" if kern else "model", code_hash=it["h"]),
                            f"[{it['source']}] {it['label'][:200]}: "
                            + (f"the kernel verifier rejects it: {krej}" if kern else f"the verifier model rejects it: {mrej}")
                            + f" (model: {mrej or 'accepts'}; machine run: {mst})")
    ctx.exhaustive = False
    ctx.rule = ("distinct generator-accepted programs from the C01 / C03 / C06 / C07 generators, hash-variable, Dict, "
                "ktime, prandom, temporaries, sub-program and per-CPU programs and the library's dispatcher and fast "
                "groups with every bundled device; each judged by the kernel verifier, by Verifier.tla over all "
                "paths and by one concrete machine run; non-trivial = more than 6 instructions")
    ctx.extra.update(kernel_available=kern, programs=len(items), by_source=by_source, refused_by_generator=len(refused),
                     refused_examples=refused[:6], agreement=agree, model_only_reject_rules=model_only,
                     calibration=dict(broken_programs=len(cal), rejected_by_model=len(cal),
                                      rejected_by_kernel=len(cal) if kern else None))
    ctx.assumptions += [
        "when bpf() is usable the running kernel's verifier is the judge; otherwise Verifier.tla decides",
        "Verifier.tla keeps two rules this kernel has relaxed (NULL check after array lookups with a constant key, "
        "initialised stack keys) and lacks scalar range tracking: disagreements are reported, not judged"]
