"""C08 - array-map variables read back the same on both sides.

Specs: spec/Layout.tla (what a layout must satisfy), spec/StoreDecls.tla (TLC enumerates declaration
sets), spec/LayoutCheck.tla (TLC judges the positions the real ArrayMap.collect assigned),
spec/Store.tla + StoreTrace.tla (sequential specification of the variables as seen from Python and
from the program; histories validated by TLC), spec/StoreRun.tla (the emitted program on the eBPF
machine, cross-checked against the kernel).

Binding: every declaration set is built with type() from the REAL XDP(EBPF) / SimulatedEBPF /
SubProgram / ArrayMap / PerCPUArrayMap classes: variables spread over a base class, the program class
(incl. one re-declaring a base class name) and 0-2 instances of a sub-program class.  Positions are
read from each instance's __dict__, sizes from the created map.  Histories: fixed-seed random
interleavings of Python writes, Python reads and runs of the REAL emitted program (constant stores,
copies, additions, element access through get_address) - on the real kernel when it is usable (and
always on the machine), else on the machine in lock-step with the fake kernel."""
import json
import os
import random
import struct

from harness import tlc as T
from harness import fakekernel, mapsrun as M, kernel

PROPERTY = "C08"
LEVEL = "model_checking"

FMTS = [dict(n=1, c="B"), dict(n=1, c="h"), dict(n=1, c="I"), dict(n=1, c="q"), dict(n=1, c="x"),
        dict(n=3, c="H"), dict(n=64, c="I")]
SIZES = {"b": 1, "B": 1, "h": 2, "H": 2, "i": 4, "I": 4, "q": 8, "Q": 8, "x": 8}


# formats with an explicit byte order ("<", ">", "!" x every integer letter): the abstract value of such a
# variable is the same integer, only its bytes in the map are ordered differently - the program has to swap
# on every load, store and in-place update.  Used in the histories (and a small TLC enumeration of their own).
ORDERED = [dict(n=1, c=c, o=o) for o in ("<", ">", "!") for c in "bBhHiIqQ"]
NATIVE_MORE = [dict(n=1, c=c) for c in "bHiQ"]


# composite formats: several elements of different letters and / or pad bytes.  With a byte-order prefix struct
# packs them without padding, so their size need not be a multiple of the size of any element ("<HI" 6 bytes,
# ">BH" 3, "!BBBH" 5, "<IQ" 12); natively struct pads between the elements but not at the end ("BH" 4 bytes,
# "Hx" = H + one pad byte = 3, "HB" 3).  n = number of value elements, els = letters ("pad" for x inside a format)
def composite(o, *els):
    return dict(n=sum(1 for e in els if e != "pad"), c="*", o=o, els=list(els))


COMPOSITE = [composite("<", "H", "I"), composite(">", "B", "H"), composite("!", "B", "B", "B", "H"),
             composite("<", "I", "Q"), composite("", "H", "pad"), composite("", "B", "H"), composite("", "H", "B"),
             composite(">", "H", "pad"), composite("", "B", "I"), composite("<", "B", "q"), composite("", "I", "H")]


def els(f):
    return f["els"] if "els" in f else [f["c"]] * f["n"]


def vletters(f):
    return [e for e in els(f) if e != "pad"]


def multi(f):
    """accessed element-wise by a program (through get_address), returned as a tuple by Python if n > 1"""
    return f["n"] > 1 or "els" in f


def struct_layout(f):
    """(offsets of the value elements, size) by the rules of the struct module: native formats align every
    element to its size, formats with a byte order are packed"""
    off, offs = 0, []
    for e in els(f):
        sz = 1 if e == "pad" else SIZES[e]
        if not f.get("o"):
            off = (off + sz - 1) // sz * sz
        if e != "pad":
            offs.append(off)
        off += sz
    return offs, off


def prog_ok(f):
    """can the generated program touch the elements with the native memory accessors?"""
    return "els" not in f or not f.get("o")


def fstr(f):
    if "els" in f:
        return f.get("o", "") + "".join("x" if e == "pad" else e for e in f["els"])
    return f.get("o", "") + (f["c"] if f["n"] == 1 else f"{f['n']}{f['c']}")


def frange(c):
    n = SIZES[c] * 8
    return (-(1 << (n - 1)), (1 << (n - 1)) - 1) if c.islower() else (0, (1 << n) - 1)


def rand_int(rng, c):
    lo, hi = frange(c)
    r = rng.random()
    if r < 0.35:
        return rng.choice([v for v in (0, 1, 2, 5, -1, -7, 100, 200) if lo <= v <= hi])
    if r < 0.6:
        return rng.choice([lo, hi, hi - 1, lo + 1, hi // 2, hi // 2 + 1])
    return rng.randint(lo, hi)


# ---- declaration sets ----------------------------------------------------------------------------
def enumerate_decls(ctx, wd, configs):
    """configs: [(formats, maxvars, places)] - all enumerated in one TLC run"""
    T.write_module(wd, "Decls_c08", {"ConfigsV": [dict(fmts=f, maxvars=m, places=set(p)) for f, m, p in configs]},
                   extends=("StoreDecls",))
    res = T.require_clean(T.run(wd, "Decls_c08", "StoreDecls.cfg", workers=1, timeout=900), "StoreDecls")
    ctx.tlc_stats(res)
    out = [r[0] for r in T.printed_records(res, "DECL")]
    if not out:
        raise T.MachineryError("no declaration sets enumerated")
    return out


def random_decl(rng):
    """a larger set than the enumeration reaches: up to 6 variables of any format"""
    n = rng.randint(4, 6)
    d = dict(base=[], derived=[], redecl=[], sub=[], nsub=0, mapin="derived")
    r = rng.random()
    pool = FMTS if r < 0.3 else (FMTS + NATIVE_MORE + ORDERED + ORDERED if r < 0.65
                                 else FMTS + COMPOSITE + COMPOSITE + ORDERED)
    for _ in range(n):
        d[rng.choice(["base", "derived", "derived", "sub"])].append(rng.choice(pool))
    if d["base"] and rng.random() < 0.3:
        d["redecl"] = [dict(of=rng.randint(1, len(d["base"])), f=rng.choice(pool))]
    d["nsub"] = rng.choice([1, 2]) if d["sub"] else 0
    d["mapin"] = rng.choice(["base", "derived"]) if d["base"] else "derived"
    return d


class Vars:
    """the variables a declaration set gives each instance: [(inst index, name, fmt)], inst 0 = program"""
    def __init__(self, decl):
        self.decl = decl
        re = {r["of"] - 1: r["f"] for r in decl["redecl"]}
        self.main = [(f"b{i}", re.get(i, f)) for i, f in enumerate(decl["base"])]
        self.main += [(f"d{i}", f) for i, f in enumerate(decl["derived"])]
        self.sub = [(f"s{i}", f) for i, f in enumerate(decl["sub"])]
        self.all = [(0, n, f) for n, f in self.main]
        for k in range(decl["nsub"]):
            self.all += [(k + 1, n, f) for n, f in self.sub]


def make_classes(decl, kind, percpu, order_rng, program=None):
    """kind 'xdp' (EBPF program) or 'sim' (SimulatedEBPF); returns (program class, sub class or None)"""
    from ebpfcat.xdp import XDP
    from ebpfcat.ebpf import SimulatedEBPF, SubProgram
    from ebpfcat.arraymap import ArrayMap, PerCPUArrayMap
    amap = PerCPUArrayMap() if percpu else ArrayMap()
    root = XDP if kind == "xdp" else SimulatedEBPF

    def shuffled(items):
        items = list(items)
        order_rng.shuffle(items)
        return items
    base = None
    if decl["base"]:
        ns = dict(license="GPL")
        body = [(f"b{i}", amap.globalVar(fstr(f))) for i, f in enumerate(decl["base"])]
        if decl["mapin"] == "base":
            body.append(("am", amap))
        ns.update(shuffled(body))
        base = type("Base", (root,), ns)
    ns = dict(license="GPL")
    body = [(f"d{i}", amap.globalVar(fstr(f))) for i, f in enumerate(decl["derived"])]
    body += [(f"b{r['of'] - 1}", amap.globalVar(fstr(r["f"]))) for r in decl["redecl"]]
    if base is None or decl["mapin"] == "derived":
        body.append(("am", amap))
    ns.update(shuffled(body))
    if kind == "sim":
        ns["get_array"] = lambda self, size: bytearray(size)
    if program is not None:
        ns["program"] = program
    cls = type("Prog", (base or root,), ns)
    sub = None
    if decl["sub"]:
        sub = type("Sub", (SubProgram,), dict(shuffled((f"s{i}", amap.globalVar(fstr(f)))
                                                       for i, f in enumerate(decl["sub"]))))
    return cls, sub, amap


def instantiate(cls, sub, nsub):
    subs = [sub() for _ in range(nsub)]
    return cls(subprograms=subs) if subs else cls()


def observe_layout(decl, kind, percpu, fk, order_rng):
    """build the real classes, let the real code lay the variables out, report what it did"""
    vs = Vars(decl)
    note = ""
    inst = None
    nmaps = len(fk.maps)
    try:
        cls, sub, amap = make_classes(decl, kind, percpu, order_rng)
        inst = instantiate(cls, sub, decl["nsub"])
    except Exception as e:                       # noqa: a result
        note = f"{type(e).__name__}: {e}"
    objs = [inst] + list(getattr(inst, "subprograms", ())) if inst is not None else []
    rows = []
    for (i, name, f) in vs.all:
        pos = objs[i].__dict__.get(name) if i < len(objs) else None
        rows.append(dict(inst=i, name=name, f=f, known=isinstance(pos, int), pos=pos if isinstance(pos, int) else 0))
    mapsize = maplen = 0
    if inst is not None:
        if kind == "sim":
            buf = inst.__dict__.get("am")
            mapsize = maplen = len(buf) if buf is not None else 0
        else:
            created = [m for fd, m in fk.maps.items() if fd > 0][nmaps:]
            if created:
                mapsize = created[-1].vs
                buf = inst.__dict__.get("am")
                maplen = mapsize if percpu else (len(buf) if buf is not None else 0)
    return dict(vars=rows, mapsize=mapsize, maplen=maplen), note


# ---- programs and histories -------------------------------------------------------------------------
def gen_program(rng, vs, percpu):
    """statements over the variables: dict(op, dst=(var, elem), src, k)  (var = index into vs.all)"""
    stmts = []
    ids = list(range(len(vs.all)))
    ids = [j for j in ids if prog_ok(vs.all[j][2])]
    if not ids:
        return stmts

    def letter(j, i):
        return vletters(vs.all[j][2])[i]
    for _ in range(rng.randint(2, 6)):
        d = rng.choice(ids)
        fd = vs.all[d][2]
        di = rng.randrange(fd["n"])
        dc = letter(d, di)
        kind = rng.choice(["const", "const", "copy", "copy", "add", "self", "iadd", "iadd", "isub"])
        if kind in ("iadd", "isub"):             # in-place update: `v += k` / `v -= k` (atomic add where it applies)
            k = rng.choice([1, 3, 100, 255, 256, 4660, 65536]) * (M.SCALE if dc == "x" else 1)
            if dc in "bB" and k > 100:
                k = rng.choice([1, 3, 100])
            stmts.append(dict(op=kind, dst=[d, di], src=[d, di], k=k))
            continue
        if kind == "const":
            if dc == "x":
                k = rng.choice([rng.randint(-50, 50) * M.SCALE, rng.randint(-10 ** 7, 10 ** 7)])
            else:
                k = rand_int(rng, dc)
            stmts.append(dict(op="const", dst=[d, di], src=[0, 0], k=k))
            continue
        if kind == "self":
            stmts.append(dict(op="copy", dst=[d, di], src=[d, di], k=0))
            continue
        cands = [(j, i) for j in ids for i in range(vs.all[j][2]["n"]) if (letter(j, i) == "x") == (dc == "x")]
        if kind == "add":
            cands = [(j, i) for j, i in cands if letter(j, i) == dc and dc != "x"
                     and vs.all[j][2].get("o", "") == fd.get("o", "")]
        if not cands:
            continue
        s, si = rng.choice(cands)
        if kind == "copy":
            stmts.append(dict(op="copy", dst=[d, di], src=[s, si], k=0))
        else:
            stmts.append(dict(op="add", dst=[d, di], src=[s, si], k=rng.choice([1, 1, 2, -1, 3, 100])))
    return stmts


UNALIGNED = [0]          # in-place updates of elements that do not sit on a multiple of their size (an observation)


def emitter(vs, stmts):
    """the program() method: the statements written with the library's own constructs"""
    from contextlib import ExitStack
    from ebpfcat.xdp import XDPExitCode

    def program(self):
        objs = [self] + list(self.subprograms)

        def elem(stack, var, i):
            """an expression / assignable target for element i of a multi-element variable"""
            inst, name, f = vs.all[var]
            reg, _ = stack.enter_context(getattr(objs[inst], name).get_address(None, False, False))
            return getattr(self, "m" + vletters(f)[i]), self.r[reg] + struct_layout(f)[0][i]

        for st in stmts:
            (d, di), (s, si) = st["dst"], st["src"]
            dinst, dname, df = vs.all[d]
            with ExitStack() as stack:
                if st["op"] in ("iadd", "isub"):     # exactly what Python does for `target += k`
                    k = st["k"] // M.SCALE if df["c"] == "x" else st["k"]
                    if multi(df):
                        mm, addr = elem(stack, d, di)
                        # the in-place update of 4 / 8 bytes is an atomic add, which the kernel only takes at a
                        # naturally aligned address.  The elements of a multi-element variable are reached through
                        # address arithmetic of the PROGRAM's own making (the package has no element access), and
                        # C08 promises own bytes and unchanged values, not alignment of elements: an element that
                        # does not sit on a multiple of its size is updated with a plain load / add / store.
                        # (The widened check first reported `IH` after `>Hx` / `<HI`: I at 21 - counted in the
                        # evidence as an observation, see DESIGN 10.6; single-element variables ARE aligned: F47.)
                        pos = objs[dinst].__dict__.get(dname)
                        esize = struct.calcsize(vletters(df)[di].replace("x", "q"))
                        if isinstance(pos, int) and (pos + struct_layout(df)[0][di]) % esize:
                            UNALIGNED[0] += 1
                            mm[addr] = mm[addr] + (k if st["op"] == "iadd" else -k)
                            continue
                        tmp = mm[addr]
                    else:
                        tmp = getattr(objs[dinst], dname)
                    if st["op"] == "iadd":
                        tmp += k
                    else:
                        tmp -= k
                    if multi(df):
                        mm[addr] = tmp
                    else:
                        setattr(objs[dinst], dname, tmp)
                    continue
                if st["op"] == "const":
                    val = st["k"] / M.SCALE if df["c"] == "x" and st["k"] % M.SCALE else \
                        (st["k"] // M.SCALE if df["c"] == "x" else st["k"])
                else:
                    sinst, sname, sf = vs.all[s]
                    if multi(sf):
                        mm, addr = elem(stack, s, si)
                        val = mm[addr]
                    else:
                        val = getattr(objs[sinst], sname)
                    if st["op"] == "add":
                        val = val + st["k"]
                if multi(df):
                    mm, addr = elem(stack, d, di)
                    mm[addr] = val
                else:
                    setattr(objs[dinst], dname, val)
        self.exit(XDPExitCode.PASS)
    return program


def tla_prog(stmts):
    def loc(p):
        return dict(k="a", id=p[0] + 1, i=p[1] + 1)
    out = []
    for st in stmts:
        op, k = st["op"], st["k"]
        if op in ("iadd", "isub"):               # `v += k` must do what `v = v + k` does
            op, k = "add", (k if op == "iadd" else -k)
        out.append(dict(op=op, dst=loc(st["dst"]), src=loc(st["src"]), v=M.word(k), d=0, flags="ANY",
                        body=[], els=[]))
    return out


def py_value(rng, f):
    """(value handed to the descriptor, abstract element words)"""
    if f["c"] == "x":
        n = rng.choice([rng.randint(-10 ** 7, 10 ** 7), rng.randint(-300, 300) * 1000, 29000, 57000,
                        rng.randint(-10 ** 11, 10 ** 11)])
        return n / M.SCALE, [M.word(n)]
    vals = [rand_int(rng, c) for c in vletters(f)]
    return (tuple(vals) if f["n"] > 1 else vals[0]), [M.word(v) for v in vals]


def observed_words(value, f):
    """what a descriptor returned, as abstract element words (None if it is not a value of that shape)"""
    vals = value if isinstance(value, tuple) else (value,)
    out = []
    for v in vals:
        if f["c"] == "x":
            n = M.scaled(v)
            if n is None:
                return None
            out.append(M.word(n))
        else:
            if not isinstance(v, int) or isinstance(v, bool) or abs(v) >= 1 << 70:
                return None
            out.append(M.word(v))
    return out


def history(rng, backend, decl, kind, percpu, nops, meta):
    """generator: runs one history, yields program-run requests, leaves the trace in meta"""
    vs = Vars(decl)
    stmts = gen_program(rng, vs, percpu) if kind == "xdp" else []
    D = dict(avars=[dict(f=f, percpu=percpu) for (_, _, f) in vs.all], ncpu=backend.ncpu, hvars=[], dicts=[],
             prog=tla_prog(stmts))
    ev = []
    meta.update(decl=decl, kind=kind, percpu=percpu, stmts=stmts, trace=dict(decl=D, ev=ev), built=False,
                vars=[[i, n, fstr(f)] for i, n, f in vs.all], mode=backend.mode)
    order_rng = random.Random(rng.random())
    sess = None
    try:
        cls, sub, amap = make_classes(decl, kind, percpu, order_rng, emitter(vs, stmts) if kind == "xdp" else None)
        if kind == "xdp":
            sess = backend.create(lambda: instantiate(cls, sub, decl["nsub"]))
            inst = sess.inst
        else:
            inst = instantiate(cls, sub, decl["nsub"])
    except Exception as e:                       # noqa: the program cannot even be built / loaded
        meta["build_error"] = f"{type(e).__name__}: {str(e)[-300:]}"
        ev.append(M.event("run", res="build failed: " + type(e).__name__))
        return
    meta["built"] = True
    objs = [inst] + list(inst.subprograms)
    nruns = 0

    def read(v):
        i, name, f = vs.all[v]
        try:
            if percpu:
                inst.am.read()
                got = [observed_words(x, f) for x in list(getattr(objs[i], name))]
            else:
                got = [observed_words(getattr(objs[i], name), f)]
            if any(g is None for g in got):
                ev.append(M.event("pyread_a", id=v + 1, res="not a value of the format"))
            else:
                ev.append(M.event("pyread_a", id=v + 1, v=got))
        except Exception as e:                   # noqa
            ev.append(M.event("pyread_a", id=v + 1, res=M.exc_name(e)))
    meta["positions"] = [[i, n, fstr(f), objs[i].__dict__.get(n)] for i, n, f in vs.all]
    meta["mapsize"] = sess.b.maps[0]["vs"] if sess is not None and sess.b.maps else len(inst.__dict__.get("am", b""))
    try:
        for step in range(nops):
            last = step >= nops - len(vs.all)
            r = rng.random()
            v = (step - (nops - len(vs.all))) if last else rng.randrange(len(vs.all))
            i, name, f = vs.all[v]
            if not last and r < 0.35 and not percpu:
                val, words = py_value(rng, f)
                try:
                    setattr(objs[i], name, val)
                    ev.append(M.event("pywrite_a", id=v + 1, v=words))
                except Exception as e:           # noqa
                    ev.append(M.event("pywrite_a", id=v + 1, v=words, res=M.exc_name(e)))
                if f["c"] == "x":                # read it back at once (keeps deviations local)
                    read(v)
            elif not last and r < 0.55 and kind == "xdp" and (backend.mode == "kernel" or nruns < 2):
                nruns += 1
                cpu = rng.choice(backend.cpus) if percpu else backend.cpus[0]
                req = sess.request(cpu)
                result = yield req
                if backend.mode == "fake":
                    if result["st"] == ["exit"]:
                        sess.apply(result, cpu)
                        ev.append(M.event("run", cpu=cpu + 1))
                    else:
                        ev.append(M.event("run", cpu=cpu + 1, res="machine " + json.dumps(result["st"])))
                else:
                    ev.append(M.event("run", cpu=cpu + 1, res="ok" if req["error"] is None else req["error"]))
            else:
                read(v)
    finally:
        if sess is not None:
            sess.close()


# ---- the check -------------------------------------------------------------------------------------------
def run(ctx):
    wd = ctx.workdir()
    # 1. declaration sets from TLC
    allp, deep = ["base", "derived", "redecl", "sub"], ["derived", "sub"]
    small = [FMTS[0], FMTS[4], FMTS[5]]
    ordered = [f for f in ORDERED if f["o"] != "!" or f["c"] in "Iq"] + [FMTS[2], FMTS[3]]
    # odd-sized composites next to aligned variables, also in a sub-program class instantiated twice
    odd = COMPOSITE + [FMTS[1], FMTS[2], FMTS[3], FMTS[5]]
    decls = enumerate_decls(ctx, wd, [(FMTS, 2, allp), (small, 4, deep), (ordered, 2, ["derived"]), (odd, 2, deep)]
                            if ctx.quick else
                            [(FMTS, 3, allp), (small, 6, deep), (ORDERED + FMTS, 2, deep), (odd, 3, deep + ["base"])])
    n_enum = len(decls)
    fixed = random.Random("c08-large")
    decls += [random_decl(fixed) for _ in range(100 if ctx.quick else 600)]
    decls += [random_decl(ctx.rng) for _ in range(30 if ctx.quick else 200)]
    ctx.extra["declaration_sets"] = dict(enumerated_by_tlc=n_enum, random_larger=len(decls) - n_enum)

    # 2. layouts laid out by the real code, judged by TLC
    fk = fakekernel.FakeKernel().install()
    cases, cmeta = [], []
    try:
        for di, decl in enumerate(decls):
            for kind in ("xdp", "sim"):
                percpu = kind == "xdp" and di % 3 == 2
                obs, note = observe_layout(decl, kind, percpu, fk, random.Random(f"order-{di}"))
                cases.append(obs)
                cmeta.append(dict(decl=decl, kind=kind, percpu=percpu, note=note, index=di))
    finally:
        fk.uninstall()
    verdicts = {}
    for start in range(0, len(cases), 20000):
        part = cases[start:start + 20000]
        path = os.path.join(wd, f"layouts_{start}.json")
        json.dump(part, open(path, "w"))
        res = T.run(wd, "LayoutCheck", "LayoutCheck.cfg", workers=4, timeout=1500, deadlock=False,
                    env={"TRACE_FILE": path})
        if res.error:
            raise T.MachineryError("LayoutCheck failed:\n" + res.error[:3000])
        ctx.tlc_stats(res)
        for cid, ok, why, which in T.printed_records(res, "LAYOUT"):
            verdicts[start + cid - 1] = (ok, why, which)
        os.remove(path)
    if len(verdicts) != len(cases):
        raise T.MachineryError(f"{len(verdicts)} layout verdicts for {len(cases)} cases")
    for i, (c, m) in enumerate(zip(cases, cmeta)):
        ok, why, which = verdicts[i]
        nv = len(c["vars"])
        places = sum(1 for p in ("base", "derived", "sub") if m["decl"][p])
        ctx.evaluated(("layout", m["kind"], json.dumps(m["decl"], sort_keys=True), m["percpu"]),
                      nontrivial=nv >= 2 and (places >= 2 or len({fstr(v["f"]) for v in c["vars"]}) >= 2))
        ctx.traces += 1
        if i % 997 == 0:
            ctx.sample(dict(decl=m["decl"], kind=m["kind"], layout=[[v["inst"], v["name"], fstr(v["f"]), v["pos"]]
                                                                      for v in c["vars"]], mapsize=c["mapsize"]))
        if not ok:
            ctx.case_failed(dict(part="layout", kind=m["kind"], percpu=m["percpu"], decl=m["decl"], why=why,
                                 which=which, note=m["note"], mapsize=c["mapsize"],
                                 layout=[[v["inst"], v["name"], fstr(v["f"]), v["pos"] if v["known"] else None]
                                         for v in c["vars"]]),
                            f"layout of {m['kind']} program: {why} {which} - {m['decl']} -> "
                            f"{[[v['inst'], v['name'], fstr(v['f']), v['pos'] if v['known'] else None] for v in c['vars']]}"
                            f" in a map of {c['mapsize']} bytes {m['note']}")

    # 3. histories
    nh = 90 if ctx.quick else 500
    nops = 16 if ctx.quick else 24
    step = max(1, n_enum // (nh // 2))
    chosen = [(i, decls[i]) for i in range(0, n_enum, step)][:nh // 2]
    chosen += [(i, decls[i]) for i in range(n_enum, len(decls))][:nh - len(chosen)]
    use_kernel = kernel.available()
    ctx.extra["kernel_available"] = use_kernel
    UNALIGNED[0] = 0
    plans = []
    for j, (i, decl) in enumerate(chosen):
        kind = "sim" if j % 9 == 8 else "xdp"
        percpu = kind == "xdp" and j % 4 == 3
        # without a kernel everything runs on the machine; with one, every fifth history still does
        mode = "kernel" if use_kernel and j % 5 != 4 else "fake"
        plans.append((i, decl, kind, percpu, mode))
    metas, traces, runs = [], [], []
    for mode in ("kernel", "fake"):
        mine = [p for p in plans if p[4] == mode]
        if not mine:
            continue
        fk = fakekernel.FakeKernel().install() if mode == "fake" else None
        try:
            backend = M.Backend(mode, fk)
            gens = []
            for (i, decl, kind, percpu, _) in mine:
                meta = dict(index=i)
                metas.append(meta)
                gens.append(history(random.Random(f"c08-h-{i}-{ctx.seed if i >= n_enum + (100 if ctx.quick else 600) else 0}"),
                                    backend, decl, kind, percpu, nops, meta))
            runs += M.drive(ctx, wd, gens, mode)
        finally:
            if fk is not None:
                fk.uninstall()
    for req, ok, result in runs:
        ctx.evaluated(("run", json.dumps(req["case"]["programs"])[:2000], json.dumps(req["case"]["arr"])[:2000]),
                      nontrivial=True)
        if not ok:
            ctx.case_failed(dict(part="machine-vs-kernel", machine=result, kernel=req["expect"], rv=req["rv"],
                                 pre=req["case"]["arr"]),
                            f"the machine and the kernel disagree on a run: machine {result['st']} {result['arr']} "
                            f"kernel {req['expect']['arr']}")
    traces = [m["trace"] for m in metas]
    rejects = M.validate(ctx, wd, traces)
    for ti, m in enumerate(metas):
        ctx.traces += 1
        evs = m["trace"]["ev"]
        ops = {e["op"] for e in evs}
        ctx.evaluated(("history", m["index"], m["kind"], m["percpu"], m["mode"]),
                      nontrivial=m["built"] and "pyread_a" in ops and ("run" in ops or "pywrite_a" in ops))
        if ti % 40 == 0:
            ctx.sample(dict(decl=m["decl"], kind=m["kind"], mode=m["mode"], stmts=m["stmts"],
                            events=[[e["op"], e["id"], e["res"]] for e in evs]))
        for idx, why, expected in rejects.get(ti, []):
            e = evs[idx]
            case = dict(part="history", kind=m["kind"], percpu=m["percpu"], mode=m["mode"], decl=m["decl"],
                        vars=m["vars"], stmts=m["stmts"], why=why, index=idx, build_error=m.get("build_error"),
                        positions=m.get("positions"), mapsize=m.get("mapsize"), expected=M.unwords(expected),
                        event=dict(op=e["op"], id=e["id"], res=e["res"], cpu=e["cpu"],
                                   v=[[M.unword(w) for w in c] if c and isinstance(c[0], list) else M.unword(c)
                                      for c in e["v"]] if e["v"] else []),
                        fmt=m["vars"][e["id"] - 1][2] if e["op"] != "run" else None,
                        history=[[x["op"], x["id"], x["res"],
                                  [[M.unword(w) for w in c] if c and isinstance(c[0], list) else M.unword(c)
                                   for c in x["v"]] if x["v"] else []] for x in evs[:idx + 1]][-12:])
            case["last_write"] = last_write(case, evs, idx)
            ctx.case_failed(case, f"{why}: {m['kind']} {m['mode']} history, event {idx} {case['event']} "
                                  f"(format {case['fmt']}; last Python write {case['last_write']}; "
                                  f"{m.get('build_error') or ''}) decl {m['decl']}")
    ctx.exhaustive = False
    ctx.rule = ("layouts: one evaluation per (declaration set, program kind); non-trivial = at least two "
                "variables differing in format or declared in different places.  histories: one per "
                "history and one per program run; non-trivial = the program was built and a value was "
                "read back after a write or a run")
    ctx.assumptions.append("program runs are single-threaded XDP test runs (no concurrent writers); per-CPU "
                           "runs are pinned to one CPU with sched_setaffinity")
    classify(ctx)


def last_write(case, evs, idx):
    """for a read: the last Python write to the same variable with no program run in between"""
    e = evs[idx]
    if e["op"] != "pyread_a":
        return None
    for x in reversed(evs[:idx]):
        if x["op"] == "run":
            return None
        if x["op"] == "pywrite_a" and x["id"] == e["id"] and x["res"] == "ok":
            return [M.unword(w) for w in x["v"]]
    return None


# ---- tally of failures by defect class (reporting only) ---------------------------------------------------
def pred_base_map(case, reason=None):
    """EBPF.__init__ initialises only the maps found in the program class's own __dict__: a map declared
    in a base class is never created, its variables get no position"""
    if case["kind"] != "xdp" or case["decl"]["mapin"] != "base" or not case["decl"]["base"]:
        return False
    if case["part"] == "layout":
        return case["why"] == "no position" and case["mapsize"] == 0
    return case["part"] == "history" and (case.get("build_error") or "").startswith("KeyError")


def fmt_size(fs):
    """size of a format string, for the tally predicates only (struct knows all the formats used here)"""
    import struct
    return 8 if fs == "x" else struct.calcsize(fs)


def pred_redeclared(case, reason=None):
    """ArrayMap.collect resets `unique` for every class of the MRO: a re-declared name is laid out twice
    and keeps the position of whichever entry sorts last - a slot of the shadowed declaration's size"""
    if not case["decl"]["redecl"] or not case["decl"]["base"]:
        return False
    r = case["decl"]["redecl"][0]
    name = f"b{r['of'] - 1}"
    if case["part"] == "layout":
        rows = case["layout"]
        involved = set()
        for w in case["which"]:
            involved |= set(w) if isinstance(w, list) else {w}
        return case["why"] in ("overlap", "outside the map") and \
            any(rows[i - 1][1] == name and rows[i - 1][0] == 0 for i in involved)
    if case["part"] != "history":
        return False
    if case.get("build_error"):                  # the verifier refuses the out-of-bounds access
        return "invalid access to map value" in case["build_error"] or "BPFError" in case["build_error"]
    pos = case.get("positions") or []
    mine = [p for p in pos if p[0] == 0 and p[1] == name]
    if not mine or mine[0][3] is None:
        return False
    a0, a1 = mine[0][3], mine[0][3] + fmt_size(mine[0][2])
    clash = a1 > (case.get("mapsize") or 0) or any(
        p is not mine[0] and p[3] is not None and p[3] < a1 and a0 < p[3] + fmt_size(p[2]) for p in pos)
    return clash


def pred_f3_program(case, reason=None):
    """Constant(float): float * 100000 truncated by int() when the program stores a decimal constant
    (defect F3 of C02) - seen here as a fixed-point variable read back one unit off"""
    if case["part"] != "history" or case["fmt"] != "x" or case["event"]["op"] != "pyread_a" or case["last_write"]:
        return False
    var = case["event"]["id"] - 1
    consts = [st for st in case["stmts"] if st["dst"][0] == var]
    if not consts or consts[-1]["op"] != "const":
        return False
    k = consts[-1]["k"]
    got = case["event"]["v"][0][0] if case["percpu"] is False else None
    return got is not None and got != k and got == int(k / M.SCALE * M.SCALE)


def pred_f3_signature(case, reason=None):
    """a fixed-point variable shows a decimal one unit (0.00001) closer to zero than the specification
    expects, in every element that differs: truncation where rounding is needed (F3, possibly carried
    along by copies inside the program)"""
    if case["part"] != "history" or case["fmt"] != "x" or case["event"]["op"] != "pyread_a":
        return False
    exp, got = case.get("expected"), case["event"]["v"]
    try:
        pairs = [(e, g) for ec, gc in zip(exp, got) for e, g in zip(ec, gc) if isinstance(e, int) and e != g]
    except TypeError:
        return False
    return bool(pairs) and all(abs(e) - abs(g) == 1 and (e > 0) == (g >= 0 and e > 0) for e, g in pairs)


def pred_f3(case, reason=None):
    """ArrayGlobalVarDesc.__set__ converts with int(value * 100000): truncation of the binary float"""
    if case["part"] != "history" or case["fmt"] != "x" or case["event"]["op"] != "pyread_a":
        return False
    w = case["last_write"]
    if not w:
        return False
    got = case["event"]["v"][0][0]
    return got != w[0] and got == int(w[0] / M.SCALE * M.SCALE)


def classify(ctx):
    classes = [("map declared in a base class (EBPF.__init__)", pred_base_map),
               ("F3 fixed-point truncation", lambda c: pred_f3(c) or pred_f3_program(c) or pred_f3_signature(c)),
               ("re-declared name (collect)", pred_redeclared)]
    tally = {name: 0 for name, _ in classes}
    tally["not explained"] = 0
    shown = {}
    for case, reason in ctx.failures:
        name = next((n for n, p in classes if p(case)), "not explained")
        tally[name] += 1
        shown.setdefault((name, case["part"]), []).append(reason[:420])
    ctx.extra["failure_tally"] = tally
    ctx.extra["observation_unaligned_elements_updated_without_atomic_add"] = UNALIGNED[0]
    if ctx.failures:
        print("C08 failure tally:", json.dumps(tally))
        for (name, part), rs in sorted(shown.items()):
            for r in rs[:8 if name == "not explained" else 1]:
                print(f"  [{name} / {part}] {r}")
