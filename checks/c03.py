"""C03 - conditional blocks run exactly the branch the condition selects.

Spec: spec/Dsl.tla (CondVal, CondOK, Exec) + spec/Cond.tla over the eBPF machine.  Programs of nested and
sequenced with-blocks whose bodies set marker bytes are built with the real classes
(harness/condgen.py); TLC executes the emitted bytecode and compares the set of markers found set with
the set the specification requires, whenever every condition met on the way is inside the property's
precondition (compared values fit the narrowest width involved)."""
import itertools
import json
import os
import random

from harness import tlc as T, condgen as C
from harness.dslgen import NotGenerated, boundary

PROPERTY = "C03"
LEVEL = "model_checking"
CMPS = ["gt", "ge", "lt", "le", "ne", "eq"]
LEAVES = [("var", f) for f in "bBhHiIqQ"] + [("local", "h"), ("local", "I")] + \
         [("reg", k) for k in ("r", "sr", "w", "sw")] + [("field", 2, 3)] + [("hash", "i"), ("hash", "Q"), ("hash", "q")]
CONSTS = [0, 1, -1, 5, -7, 100, 127, 128, 255, 256, -129, 32767, 65535, 2 ** 31 - 1, -2 ** 31, 2 ** 31,
          2 ** 32 - 1, 2 ** 40, -(2 ** 40)]


def atoms(rng, count, all_ops=False):
    """deterministic (for a fixed rng) list of atomic conditions"""
    out = []
    k = 0
    for op in CMPS:
        for a in LEAVES:
            k += 1
            out.append(("cmp", op, a, ("const", CONSTS[k % len(CONSTS)])))
            out.append(("cmp", op, ("const", CONSTS[(k * 7) % len(CONSTS)]), a))
            out.append(("cmp", op, a, LEAVES[(k * 5) % len(LEAVES)]))
            out.append(("cmp", op, ("bin", "add", a, ("const", 1)), LEAVES[(k * 3) % len(LEAVES)]))
    # every ordered pair of operand kinds (mixed widths and signedness), operators rotating; the
    # thorough tier takes every operator for every pair
    for j, (a, b) in enumerate(itertools.product(LEAVES, LEAVES)):
        for op in (CMPS if all_ops else [CMPS[j % len(CMPS)]]):
            out.append(("cmp", op, a, b))
    # an expression on one side whose exact value may be negative although its operands are unsigned and narrow
    # (`H - H`, `I - 1`, `b * B`), against signed and 8-byte operands, both ways round.  (A seeded change dropped
    # the sign extension of a 32-bit left operand of unsigned kind before a 64-bit signed jump; the only
    # expression operand had been `a + 1`.)  tuple([...]) makes a fresh leaf: a leaf object is one variable.
    def lf(kind, f):
        return tuple([kind, f])
    makers = [lambda: ("bin", "sub", lf("var", "H"), lf("var", "H")), lambda: ("bin", "sub", lf("var", "B"), lf("var", "H")),
              lambda: ("bin", "sub", lf("var", "I"), ("const", 1)), lambda: ("bin", "sub", lf("var", "I"), lf("var", "I")),
              lambda: ("bin", "mul", lf("var", "b"), lf("var", "B")), lambda: ("neg", lf("var", "H")),
              lambda: ("bin", "sub", lf("local", "H"), lf("reg", "w")), lambda: ("bin", "sub", lf("hash", "I"), lf("var", "B"))]
    wide = [("var", "q"), ("reg", "sr"), ("hash", "q"), ("var", "i"), ("var", "Q"), ("reg", "sw"), ("var", "h")]
    j = 0
    for mk in makers:
        for w in wide:
            for op in (CMPS if all_ops else [CMPS[j % len(CMPS)], CMPS[(j + 3) % len(CMPS)]]):
                out.append(("cmp", op, mk(), lf(*w)))
                out.append(("cmp", op, lf(*w), mk()))
            j += 1
    for a in LEAVES:
        out.append(("truth", a))
        out.append(("truth", ("bin", "and", a, ("const", [1, 4, 0x80, 0x100, 6, 0x8000][len(out) % 6]))))
    for pos, bits in ((0, 1), (5, 1), (7, 1), (3, 4), (1, 2), (0, 8)):
        out.append(("truth", ("field", pos, bits)))
        out.append(("cmp", "gt", ("field", pos, bits), ("const", 1)))
    for pos in (0, 5, 7):
        out.append(("not", ("truth", ("field", pos, 1))))
    rng.shuffle(out)
    return out[:count] if count else out


def shapes(a, b, c):
    """condition shapes over three atoms"""
    return [a, ("not", a), ("and", a, b), ("or", a, b), ("not", ("and", a, b)), ("not", ("or", a, b)),
            ("or", ("and", a, b), c), ("and", a, ("or", b, c)), ("and", ("not", a), b),
            ("or", a, ("not", b)), ("and", ("and", a, b), c), ("or", ("or", a, b), c)]


def blocks(c1, c2):
    """statement shapes: plain, with Else, nested with Else on both levels, sequence"""
    return [
        [("with", c1, [("mark", 1)], None), ("mark", 2)],
        [("with", c1, [("mark", 1)], [("mark", 2)]), ("mark", 3)],
        [("with", c1, [("with", c2, [("mark", 1)], [("mark", 2)]), ("mark", 3)], [("mark", 4)]), ("mark", 5)],
        [("with", c1, [("mark", 1)], [("with", c2, [("mark", 2)], None), ("mark", 3)]), ("mark", 4)],
        [("with", c1, [("mark", 1)], None), ("mark", 2), ("with", c2, [("mark", 3)], [("mark", 4)]), ("mark", 5)],
    ]


def early_exits(c1, c2):
    """blocks that leave the program: after `exit` nothing runs, and the branch not taken must still be the only
    other one that can (the generator leaves out the jump over an Else block when nothing reaches it: F48 - a
    seeded change made it forget the 32-bit jumps that do)"""
    X = ("exit",)
    return [
        [("with", c1, [("mark", 1), X], [("mark", 2)]), ("mark", 3)],
        [("with", c1, [("mark", 1), ("with", c2, [("mark", 2), X], None)], [("mark", 3)]), ("mark", 4)],
        [("with", c1, [("with", c2, [("mark", 1), X], [("mark", 2), X])], [("mark", 3)]), ("mark", 4)],
        [("with", c1, [("mark", 1)], [("mark", 2), X]), ("mark", 3)],
        [("with", c1, [("mark", 1)], [("with", c2, [("mark", 2)], [("mark", 3), X])]), ("mark", 4)],
        [("with", c1, [("mark", 1), X], None), ("mark", 2), ("with", c2, [X], [("mark", 3)]), ("mark", 4)],
    ]


def program_consts(stmts):
    out = set()

    def e(t):
        if t[0] == "const":
            out.add(t[1])
        elif t[0] == "bin":
            e(t[2]), e(t[3])
        elif t[0] in ("neg", "abs"):
            e(t[1])

    def c(x):
        if x[0] == "cmp":
            e(x[2]), e(x[3])
        elif x[0] == "truth":
            e(x[1])
        elif x[0] == "not":
            c(x[1])
        else:
            c(x[1]), c(x[2])

    def s(ss):
        for st in ss:
            if st[0] == "with":
                c(st[1]), s(st[2]), s(st[3] or [])
    s(stmts)
    return out


def vectors(rng, pg, stmts, count):
    cs = sorted(program_consts(stmts))
    cand = [0, 1, -1, 2] + [x + d for x in cs for d in (-1, 0, 1)]
    out = [[cand[(i + j) % len(cand)] for j in range(pg["nleaves"])] for i in (0, 1)]
    out.append([3] * pg["nleaves"])                     # all operands equal
    out.append([5 if j % 2 == 0 else -1 for j in range(pg["nleaves"])])     # small positive vs -1
    out.append([-1 if j % 2 == 0 else 5 for j in range(pg["nleaves"])])
    while len(out) < count:
        v = []
        for (off, size, signed) in pg["inputs"]:
            r = rng.random()
            v.append(rng.choice(cand) if r < 0.55 else rng.choice(boundary(size, signed)) if r < 0.85
                     else rng.getrandbits(8 * size))
        out.append(v)
    return out


def fixed_point_conditions(ctx):
    """conditions over fixed-point and mixed operands: C02's comparison statements (with / Else around markers),
    judged by Fixed.tla's exact rationals.  Added after a seeded change - a fixed-point variable on the left of a
    comparison reported as 32 bits wide - passed C03, whose operands were all integers."""
    from checks import c02
    shapes = [sh for sh in c02.shapes_of(ctx.quick) if sh[0] in c02.CMP]
    c02.run_shapes(ctx, shapes, 4 if ctx.quick else 8, part="fixed_point_")


def run(ctx):
    fixed_point_conditions(ctx)
    fixed = random.Random(303)
    at = atoms(fixed, 0, all_ops=not ctx.quick)
    progs_ = []
    # every atom alone in the plain and the Else shape
    for j, a in enumerate(at):
        if ctx.quick:                                   # one shape per atom, alternating
            progs_.append(blocks(a, a)[j % 2])
        else:
            progs_.append(blocks(a, a)[0])
            progs_.append(blocks(a, a)[1])
    # early exits: every shape over pairs of atoms (inner conditions of every width and signedness)
    for j in range(0, len(at) - 1, 5 if ctx.quick else 1):
        sh = early_exits(at[j], at[(j * 7 + 3) % len(at)])
        if ctx.quick:
            progs_.append(sh[j % len(sh)])
            progs_.append(sh[(j + 2) % len(sh)])
        else:
            progs_ += sh
    # condition shapes and block shapes over fixed-seed atom triples
    for _ in range(120 if ctx.quick else 1500):
        a, b, c = fixed.sample(at, 3)
        sh = shapes(a, b, c)
        progs_.append(blocks(fixed.choice(sh), fixed.choice(sh))[fixed.randrange(5)])
    if not ctx.quick:                                   # nesting depth 3
        for _ in range(400):
            a, b, c = fixed.sample(at, 3)
            inner = blocks(b, c)[2]
            progs_.append([("with", fixed.choice(shapes(a, b, c)), [(s[0], s[1] + 10) + s[2:] if s[0] == "mark" else s
                                                                     for s in inner[:1]] + [("mark", 6)], [("mark", 7)]),
                           ("mark", 8)])
    for _ in range(30 if ctx.quick else 300):
        a, b, c = ctx.rng.sample(at, 3)
        progs_.append(blocks(ctx.rng.choice(shapes(a, b, c)), ctx.rng.choice(shapes(a, b, c)))[ctx.rng.randrange(5)])
    nvec = 6 if ctx.quick else 9
    cases, meta, refused = [], [], []
    vrng = random.Random(78)
    for pi, stmts in enumerate(progs_):
        # every fourth program sits inside the block of a temporary (which then occupies a register, usually r0)
        scope = (None, "stmp", None, None, None, "tmp", None, None)[pi % 8]
        try:
            pg = C.program(stmts, scope=scope)
        except NotGenerated as e:
            refused.append((repr(stmts)[:160], str(e)[:120]))
            continue
        for vals in vectors(vrng, pg, stmts, nvec):
            cases.append(C.case(pg, vals))
            meta.append(dict(stmts=stmts, values=vals, scope=scope))
    if not cases:
        raise T.MachineryError("no C03 case could be built")
    wd = ctx.workdir()
    verdict = {}
    PAR = 12                              # cases are independent: several single-worker TLC processes side by side
    CH = max(1, -(-len(cases) // PAR))

    def chunk(start):
        path = os.path.join(wd, f"cases{start}.json")
        json.dump(cases[start:start + CH], open(path, "w"))
        res = T.run(wd, "Cond", "Cond.cfg", timeout=3000, deadlock=False, env={"TRACE_FILE": path}, workers=1)
        os.remove(path)
        return start, res
    from concurrent.futures import ThreadPoolExecutor
    with ThreadPoolExecutor(PAR) as ex:
        results = list(ex.map(chunk, range(0, len(cases), CH)))
    for start, res in results:
        if res.error:
            raise T.MachineryError("Cond failed:\n" + res.error[:3000])
        ctx.tlc_stats(res)
        for rec in T.printed_records(res, "VERDICT"):
            verdict[start + rec[0]] = rec[1:]
    counts = dict(ok=0, skipped=0, wrong=0, fault=0)
    seen_sets = set()
    for i, m in enumerate(meta, 1):
        v = verdict.get(i)
        if v is None:
            raise T.MachineryError(f"no verdict for case {i}")
        kind, st_, observed, required, swneg = v
        counts[kind] += 1
        ctx.traces += 1
        ctx.evaluated((repr(m["stmts"]), tuple(m["values"])), nontrivial=kind != "skipped")
        if kind == "ok":
            seen_sets.add((repr(m["stmts"]), tuple(sorted(required))))
            if i % 499 == 7:
                ctx.sample(dict(stmts=m["stmts"], values=m["values"], markers_set=sorted(required)))
        if kind in ("wrong", "fault"):
            ctx.case_failed(dict(stmts=m["stmts"], values=m["values"], verdict=kind, status=st_, cmp_sw_negative=swneg,
                                 observed=sorted(observed), required=sorted(required)),
                            f"{m['stmts']} on {m['values']}: {kind} {st_ or ''} markers set {sorted(observed)}, "
                            f"required {sorted(required)}")
    # how many programs were seen taking more than one path (both branches exercised)
    by_prog = {}
    for p, s in seen_sets:
        by_prog.setdefault(p, set()).add(s)
    ctx.exhaustive = False
    ctx.rule = ("every atom (6 comparison operators x 15 operand kinds against constants on either side, "
                "other operands and a+1 expressions; truth and bit tests; single- and multi-bit fields) in the "
                "plain and Else shapes, fixed-seed combinations of 12 condition shapes x 5 block shapes, each on "
                "several input vectors drawn around the program's constants; non-trivial = inside the precondition")
    ctx.extra.update(verdicts=counts, programs=len(progs_), refused=len(refused), refused_examples=refused[:5],
                     programs_seen_on_two_or_more_paths=sum(1 for s in by_prog.values() if len(s) > 1),
                     programs_judged=len(by_prog))
    ctx.assumptions += ["spec/Ebpf.tla is the ISA (cross-checked against the kernel)",
                        "conditions outside the precondition make the case skipped, never judged"]
