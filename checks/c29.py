"""C29 - process-based sync groups share device variables correctly.

Spec: spec/SharedVars.tla - every device variable is a cell of its own that both clients (the
controlling process and the sync group's process) read and write: a read returns the value of the
last write to that variable, by whichever client, unchanged; the byte ranges of variables of
different device instances are disjoint in the layout each client works with.  MC_SharedVars
relates the cells to an array of bytes exhaustively on a small instance (a layout that keeps the
variables apart implements the cells; an overlapping one is refuted).  spec/SharedVarsTrace.tla
validates the merged histories of the real code in one batch.

Binding (harness/sharedvars.py): per case a set of device classes generated from a fixed seed -
1-3 classes [thorough: 4], 1-4 [6] DeviceVars each with formats drawn from B H I Q b h i q, the
same with explicit byte order, x (fixed point), f d ? 2B 3H 2I 2q 4s, subclasses that add
variables and subclasses that redefine an inherited variable with another format - 2-4 [5] device
instances (several of one class), a REAL ProcessSyncGroup.  `start()` spawns the child exactly as
the real code does (spawn context, the group pickled into the child); the child runs the real
subprocess_run / subprocess_loop / run on an empty simulated segment and executes its part of the
script inside a device's update(); the parent executes its part in between (20 [40] operations in
alternating turns of 1-3, then both sides read back everything written).  Values travel as text;
TLC compares.  Python decides nothing.
"""
import os

from harness import tlc as T

PROPERTY = "C29"
LEVEL = "model_checking"
JAVA_ENV = {"JAVA_TOOL_OPTIONS": "-XX:ParallelGCThreads=2"}


def _mc(wd, inv, quick):
    name = f"mc_{inv}.cfg"
    T.write_cfg(wd, name, f"""SPECIFICATION MSpec
CONSTANTS Clients = {{"parent", "child"}}
          ArrayLen = {3 if quick else 4}
INVARIANTS {inv}
CHECK_DEADLOCK FALSE
""")
    return T.run(wd, "MC_SharedVars", name, workers=4, timeout=900, heap="1g", env=JAVA_ENV)


def model_check_start(ctx):
    import concurrent.futures
    pool = concurrent.futures.ThreadPoolExecutor(2)
    return pool, [(inv, pool.submit(_mc, ctx.workdir(f"C29-mc-{inv}"), inv, ctx.quick))
                  for inv in ("Refines", "BytesAreCells")]


def model_check_finish(ctx, started):
    pool, futs = started
    try:
        for inv, fut in futs:
            res = T.require_clean(fut.result(), "MC_SharedVars")
            if inv == "Refines":
                if not res.ok:
                    raise T.MachineryError("SharedVars.tla: disjoint bytes do not implement the "
                                           "cells:\n" + res.counterexample())
                ctx.tlc_stats(res)
                ctx.extra["mc_sharedvars"] = dict(distinct=res.distinct, generated=res.generated,
                                                  wall=round(res.wall, 1))
            elif "BytesAreCells" not in res.invariant_violated:
                raise T.MachineryError("self-test: an overlapping layout was not refuted\n"
                                       + res.out[-2000:])
            else:
                ctx.extra["mc_sharedvars_overlap_refuted"] = True
    finally:
        pool.shutdown(wait=True)


def validate(ctx, wd, traces, chunk=2000, timeout=900):
    """-> [(matched, length, why, shared)]"""
    import json
    out = []
    for start in range(0, len(traces), chunk):
        part = traces[start:start + chunk]
        path = os.path.join(wd, f"traces_{start}.json")
        with open(path, "w") as f:
            json.dump(part, f)
        env = dict(JAVA_ENV)
        env["TRACE_FILE"] = path
        res = T.run(wd, "SharedVarsTrace", "SharedVarsTrace.cfg", workers=1, timeout=timeout,
                    deadlock=False, env=env, heap="1g")
        if res.error or res.invariant_violated:
            raise T.MachineryError("trace validation SharedVarsTrace failed:\n"
                                   f"{res.error or res.counterexample()}\n{res.out[-2000:]}")
        ctx.tlc_stats(res)
        recs = {r[0]: r[1:] for r in T.printed_records(res, "RESULT")}
        if len(recs) != len(part):
            raise T.MachineryError(f"SharedVarsTrace: {len(recs)} results for {len(part)} traces\n"
                                   + res.out[-3000:])
        out += [tuple(recs[i]) for i in range(1, len(part) + 1)]
        os.remove(path)
    return out


def _trace(spec, r):
    variables = spec["variables"]

    def lay(pos):
        # a variable without a position gets a fake range of its own far below zero, so that the
        # storage demand says nothing about it (every access to it raises and is judged there)
        return [dict(dev=i + 1, fmt=fmt, pos=p if p >= 0 else -64 * (n + 1))
                for n, ((i, name, fmt), p) in enumerate(zip(variables, pos))]
    return dict(layout=dict(parent=lay(r["layout"]["parent"]), child=lay(r["layout"]["child"])),
                ev=r["ev"])


def _cross(ev):
    """number of reads on one side of a variable last written on the other (non-trivial rule)"""
    last, n = {}, 0
    for e in ev:
        if e["res"] != "ok":
            continue
        if e["t"] == "w":
            last[e["v"]] = e["c"]
        elif e["v"] in last and last[e["v"]] != e["c"]:
            n += 1
    return n


def run_sets(ctx, sets):
    import concurrent.futures
    from harness import procstandin as P
    from harness import sharedvars as S
    S.install(sets)
    wd = ctx.workdir("C29-proc")
    specs = [S.gen_set(seed, big) for seed, big in sets]
    import gc
    # the groups are cyclic garbage holding semaphores: collect them here, not in the middle of a
    # resource-tracker call of another spawn
    gc.disable()
    try:
        with P.spawn_guard():
            with concurrent.futures.ThreadPoolExecutor(4) as pool:
                runs = list(pool.map(lambda a: S.run_set(a[1], wd, str(a[0])), enumerate(specs)))
    finally:
        gc.enable()
        gc.collect()
    return specs, runs


def _judge(ctx, spec, r, result):
    matched, length, why, shared = result
    ctx.traces += 1
    fmts = sorted({v[2] for v in spec["variables"]})
    cross = _cross(r["ev"])
    ctx.evaluated((spec["seed"], spec["big"]),
                  nontrivial=cross > 0 and len(spec["instances"]) >= 2)
    cov = ctx.extra.setdefault("formats_exercised", {})
    for e in r["ev"]:
        f = spec["variables"][e["v"] - 1][2]
        cov[f] = cov.get(f, 0) + 1
    collected = all(p >= 0 for c in ("parent", "child") for p in r["layout"][c])
    overrides = [[c["name"], v[0], v[1]] for c in spec["classes"] for v in c["vars"]
                 if c["base"] is not None and not v[0].startswith(f"v{spec['classes'].index(c)}_")]
    base = dict(seed=spec["seed"], big=spec["big"], classes=spec["classes"],
                instances=spec["instances"], variables=spec["variables"], formats=fmts,
                layout=r["layout"], array_len=r.get("array_len"), collected=collected,
                overrides=overrides, notes=r["notes"])
    ok = True
    if any(shared[c] for c in shared):
        ok = False
        pairs = {c: [[spec["variables"][v - 1], spec["variables"][w - 1]] for v, w in shared[c]]
                 for c in shared}
        ctx.case_failed(dict(base, kind="storage", shared=pairs),
                        f"variables of different devices share storage: {pairs}; positions "
                        f"{r['layout']}")
    if matched != length:
        ok = False
        bad = r["ev"][matched]
        i, name, fmt = spec["variables"][bad["v"] - 1]
        ctx.case_failed(dict(base, kind="history", rejected_at=matched, rejected_event=bad,
                             var=[i, name, fmt], why=why, ev=r["ev"][:matched + 1]),
                        f"history rejected by SharedVars at event {matched}: {bad['c']} "
                        f"{'read' if bad['t'] == 'r' else 'wrote'} variable {name} ({fmt}) of device "
                        f"{i}: {why}")
    if ok and len(ctx.samples) < 3 and cross:
        ctx.sample(dict(seed=spec["seed"], classes=spec["classes"], instances=spec["instances"],
                        layout=r["layout"], ev=r["ev"][:8]))


def run(ctx):
    wd = ctx.workdir()
    started = model_check_start(ctx)
    try:
        n_gate, n_extra = (40, 6) if ctx.quick else (160, 40)
        sets = [[29000 + i, False] for i in range(n_gate)]
        if not ctx.quick:
            sets += [[59000 + i, True] for i in range(80)]
        sets += [[ctx.rng.randrange(10 ** 6, 2 ** 30), not ctx.quick] for _ in range(n_extra)]
        specs, runs = run_sets(ctx, sets)
    finally:
        model_check_finish(ctx, started)
    results = validate(ctx, wd, [_trace(s, r) for s, r in zip(specs, runs)])
    ctx.exhaustive = False
    ctx.extra["gating_sets"] = len(sets) - n_extra
    ctx.extra["seeded_sets"] = n_extra
    ctx.rule = ("one case = one fixed-seed set of device classes (random DeviceVar formats, "
                "subclasses, redefined variables) instantiated 2-4 [5] times on a real "
                "ProcessSyncGroup with a really spawned child, and one script of 20 [40] alternating "
                "reads/writes plus a read-back of everything on both sides; non-trivial = at least "
                "two device instances and at least one read on one side of a value last written "
                "on the other")
    ctx.assumptions += [
        "values are drawn from each format's domain (x: multiples of 1/32, f: multiples of 1/8, "
        "which the fixed-point / binary32 encodings represent exactly); out-of-range values are "
        "outside the property",
        "the two processes take turns (synchronised over a pipe): concurrent access to one "
        "variable is not examined",
        "the child's side runs inside Device.update(), where the real code runs device logic",
    ]
    for s, r, res in zip(specs, runs, results):
        _judge(ctx, s, r, res)


def replay(ctx, case):
    wd = ctx.workdir()
    specs, runs = run_sets(ctx, [[case["seed"], case.get("big", False)]])
    res = validate(ctx, wd, [_trace(specs[0], runs[0])])[0]
    _judge(ctx, specs[0], runs[0], res)
    print(f"replayed seed={case['seed']}: matched {res[0]} of {res[1]} events; {res[2]}; shared {res[3]}")
