"""X05 - unbounded safety by inductive invariants (Apalache, TLAPS), for specifications that TLC
checks for small constants only.

For each module there is (a) a TLAPS proof over the ORIGINAL module (spec/Ind_<Name>Proof.tla: the
invariant holds for ANY constants - any number of slots / users / participants / terminals, any
history length) and / or (b) an Apalache wrapper (spec/Ind_<Name>.tla: IndInv holds initially and
is preserved by every step from EVERY state satisfying it - any behaviour length, constants up to
the bound stated in the wrapper), plus TLC runs that tie wrappers and restated forms to the
originals on small constants.  Obligations:

  kind     tool      meaning                                                    expected
  proof    tlapm     every obligation of the proof module is discharged          proved
  base     apalache  Init => IndInv                                              proved
  step     apalache  IndInv /\\ Next => IndInv'  (or an action invariant)          proved
  witness  apalache  IndInit reaches a non-trivial state (hypothesis not vacuous) refuted
  bind     tlc       wrapper = original / IndInv on every TLC-reachable state    holds
  mutant   any       a scratch COPY with one guard dropped                       refuted / not proved

A refuted base / step obligation or a violated binding is a VIOLATION; an undischarged TLAPS proof is
reported as NOT-PROVED and recorded (result "not proved (module extended?)", ctx.extra["not_proved"])
without a VIOLATION line - it is no refutation; a tool that breaks, and a mutant
that is NOT caught, are machinery failures (exit 2).  Nothing of /repo is executed except for the
dispatcher binding (thorough), where TLC compares the abstract step function with the table
computed from the real emitted bytecode (the C22 machinery).

VERIF_X05_ONLY=<substring> restricts the run to obligations whose id contains it;
VERIF_X05_OVERLAY=<dir> puts the .tla/.cfg files of <dir> (scratch copies under /verif/work) over the staged
modules, to see the check fail on a weakened specification."""
import concurrent.futures as cf
import os
import re
import shutil
import subprocess
import time

from harness import tlc as T

PROPERTY = "X05"
LEVEL = "proof"

TLAPS_LIB = "/opt/veriftools/tlapm/lib/tlapm/stdlib"
TOOL_TIMEOUT = 900


# ---- the obligations ---------------------------------------------------------------------------

def apa(module, kind, init, inv, length, cinit=None, quick=False, expect=None):
    return dict(tool="apalache", module=module, kind=kind, invariant=inv, init=init, length=length,
                cinit=cinit, quick=quick, expect=expect or ("refuted" if kind == "witness" else "proved"))


def proof(module, invariant, quick=True):
    return dict(tool="tlapm", module=module, kind="proof", invariant=invariant, quick=quick, expect="proved")


def tlc(module, cfg, invariant, quick=False, lib=False, workers=4):
    return dict(tool="tlc", module=module, kind="bind", invariant=invariant, cfg=cfg, quick=quick,
                expect="holds", lib=lib, workers=workers)


OBLIGATIONS = [
    # (1) C20 Fmmu
    proof("Ind_FmmuProof", "FSpec => [](NoSharing /\\ RegsAgree) /\\ [][KeepsLive]_fvars, any MaxN, Logicals"),
    apa("Ind_Fmmu", "base", "Init", "IndInv", 0, "CInit"),
    apa("Ind_Fmmu", "step", "IndInit", "IndInv", 1, "CInit"),
    apa("Ind_Fmmu", "witness", "IndInit", "Witness", 0, "CInit"),
    tlc("Ind_FmmuEq", "Ind_FmmuEq_ow.cfg", "original => wrapper (WSpec), IndInv reachable"),
    tlc("Ind_FmmuEq", "Ind_FmmuEq_wo.cfg", "wrapper => original (FSpec)"),
    # (2) C15 mailbox counter chain
    proof("Ind_MailboxProof", "MSpec => [](OneHolderQ /\\ NotInterleaved /\\ Answered /\\ ChainQ), any Users"),
    tlc("Ind_MailboxEq", "Ind_MailboxEq.cfg", "IndInv on reachable states; OneHolder/CounterChain forms agree",
        lib=True),
    tlc("Ind_MailboxEq", "Ind_MailboxEq_any.cfg", "OneHolder <=> OneHolderQ, CounterChain <=> ChainQ on all small states",
        lib=True),
    apa("Ind_Mailbox", "base", "Init", "IndInv", 0, "CInit"),
    apa("Ind_Mailbox", "step", "IndInit", "IndInv", 1, "CInit"),
    apa("Ind_Mailbox", "witness", "IndInit", "Witness", 0, "CInit"),
    tlc("Ind_MailboxEq", "Ind_MailboxEq_ow.cfg", "original => wrapper (WSpec), wrapper's IndInv reachable", lib=True),
    tlc("Ind_MailboxEq", "Ind_MailboxEq_wo.cfg", "wrapper => original (MSpec)", lib=True),
    proof("Ind_LockFileProof", "LSpec => [](MutualExclusion /\\ OwnerAgrees /\\ ValidCounters /\\ Chain /\\ ZeroOnlyFirst), "
                               "any Users, ProcOf, N, Bytes"),
    # (3) C22 dispatcher under FIFO delivery
    apa("Ind_Dispatcher", "base", "Init", "IndInv", 0),
    apa("Ind_Dispatcher", "step", "IndInit", "IndInv", 1, quick=True),
    apa("Ind_Dispatcher", "witness", "IndInit", "Witness", 0),
    tlc("Ind_Dispatcher", "Ind_Dispatcher.cfg", "KeepsRunning, IndInv on reachable states (all 256 counters)"),
    # (4) C25 addresses
    proof("Ind_AddressProof", "MCSpec => [](DesignSafe /\\ UniqueAssigned /\\ WrittenInRange /\\ UsedCovers), any N, range, Addrs"),
    apa("Ind_Address", "base", "Init", "IndInv", 0, "CInit"),
    apa("Ind_Address", "step", "IndInit", "IndInv", 1, "CInit"),
    apa("Ind_Address", "witness", "IndInit", "Witness", 0, "CInit"),
    # (6) C27 valve
    proof("Ind_ValveProof", "MCSpec => [](TypeOK /\\ CoilFollows /\\ NeverStuck) /\\ ErrorReaction, any moving times"),
    apa("Ind_Valve", "base", "Init", "IndInv", 0),
    apa("Ind_Valve", "step", "IndInit", "IndInv", 1),
    apa("Ind_Valve", "step", "IndInit", "ErrorReactionStep", 1),
    apa("Ind_Valve", "witness", "IndInit", "Witness", 0),
    # (6) C28 serial handshake
    proof("Ind_SerialProof", "MCSpec => [](TxExactlyOnce /\\ TxOneToggle /\\ RxExactlyOnce /\\ RxOneToggle /\\ RxStable) "
                             "/\\ TxKept, any payload length / chunk size", quick=False),
]

# scratch copies with one guard dropped: (id, file to edit, old text, new text, obligation to re-run)
MUTANTS = [
    dict(id="fmmu-map-live", file="Ind_Fmmu.tla", quick=False,
         old="MapOk(m, write, s) ==\n    /\\ m # Free /\\ m \\notin Live",
         new="MapOk(m, write, s) ==\n    /\\ m # Free",
         ob=apa("Ind_Fmmu", "step", "IndInit", "IndInv", 1, "CInit", expect="refuted")),
    dict(id="dispatcher-parity", file="Ind_Dispatcher.tla", quick=True,
         old="IF c % 2 = 1 THEN [cb2 |-> c2, ix2 |-> c2, ran |-> FALSE, act |-> \"TX\"]",
         new="IF c % 2 = 0 THEN [cb2 |-> c2, ix2 |-> c2, ran |-> FALSE, act |-> \"TX\"]",
         ob=apa("Ind_Dispatcher", "step", "IndInit", "IndInv", 1, expect="refuted")),
    dict(id="valve-no-safe-state", file="Valve.tla", quick=False,
         old="ELSE /\\ error' = TRUE /\\ coil' = safe /\\ target' = safe",
         new="ELSE /\\ error' = TRUE /\\ coil' = target /\\ target' = target",
         ob=apa("Ind_Valve", "step", "IndInit", "IndInv", 1, expect="refuted")),
    dict(id="address-pick-used", file="Address.tla", quick=False,
         old="/\\ \\E a \\in Addrs : /\\ InRange(a) /\\ a \\notin used",
         new="/\\ \\E a \\in Addrs : /\\ InRange(a)",
         ob=apa("Ind_Address", "step", "IndInit", "IndInv", 1, "CInit", expect="refuted")),
    dict(id="mailbox-wrapper-release-pending", file="Ind_Mailbox.tla", quick=False,
         old="Release(u) == /\\ holder = u /\\ phase[u] = \"holding\" /\\ ~pending",
         new="Release(u) == /\\ holder = u /\\ phase[u] = \"holding\"",
         ob=apa("Ind_Mailbox", "step", "IndInit", "IndInv", 1, "CInit", expect="refuted")),
    dict(id="mailbox-release-pending", file="Mailbox.tla", quick=False,
         old="Release(u) == /\\ holder = u /\\ phase[u] = \"holding\" /\\ ~pending",
         new="Release(u) == /\\ holder = u /\\ phase[u] = \"holding\"",
         ob=dict(proof("Ind_MailboxProof", "MSafe"), expect="not proved")),
    dict(id="serial-present-while-waiting", file="Serial.tla", quick=False,
         old="         /\\ n > 0 => ~wait\n",
         new="",
         ob=dict(proof("Ind_SerialProof", "SSafe"), expect="not proved")),
    dict(id="lockfile-create-twice", file="LockFile.tla", quick=False,
         old="Create(q) == /\\ ppc[q] = \"start\" /\\ ~exists",
         new="Create(q) == /\\ ppc[q] = \"start\"",
         ob=dict(proof("Ind_LockFileProof", "LSafe"), expect="not proved")),
]


def oid(ob):
    extra = ob.get("cfg") or ob["invariant"].split(" ")[0]
    return f"{ob['module']}:{ob['kind']}:{extra}"


# ---- running the tools --------------------------------------------------------------------------

def _sh(cmd, cwd, env=None):
    e = dict(os.environ)
    e.pop("JAVA_TOOL_OPTIONS", None)
    if env:
        e.update(env)
    t0 = time.time()
    p = subprocess.run(["timeout", "-k", "5", str(TOOL_TIMEOUT)] + cmd, cwd=cwd, env=e,
                       stdout=subprocess.PIPE, stderr=subprocess.STDOUT, text=True, errors="replace")
    return p.returncode, p.stdout, time.time() - t0


def run_apalache(ob, wd):
    out_dir = os.path.join(wd, "apa-out")
    cmd = ["apalache-mc", "check", f"--init={ob['init']}", f"--inv={ob['invariant']}",
           f"--length={ob['length']}", f"--out-dir={out_dir}"]
    if ob.get("cinit"):
        cmd.append(f"--cinit={ob['cinit']}")
    cmd.append(ob["module"] + ".tla")
    rc, out, wall = _sh(cmd, wd, env={"JVM_ARGS": "-Xmx6g"})
    if rc in (124, 137):
        return "timeout", wall, out
    if rc == 0 and "The outcome is: NoError" in out:
        return "proved", wall, out
    if rc == 12 and re.search(r"invariant \d+ violated|The outcome is: Error", out):
        return "refuted", wall, out
    return "broken", wall, out


def run_tlapm(ob, wd):
    mutant = ob["expect"] != "proved"   # a proof expected to fail: default time limits, no second chance
    cmd = ["tlapm", "--threads", "4", "--stretch", "1" if mutant else "4", "--cleanfp", ob["module"] + ".tla"]
    status, wall, out = "broken", 0.0, ""
    for attempt in ((1,) if mutant else (1, 2)):   # a back end that times out under load gets one more chance
        rc, out, w = _sh(cmd, wd)
        wall += w
        if rc in (124, 137):
            return "timeout", wall, out
        m = re.search(r"All (\d+) obligations? proved", out)
        if rc == 0 and m and int(m.group(1)) > 0:
            return "proved", wall, out
        if re.search(r"(\d+)/(\d+) obligations failed", out):
            status = "not proved"
            continue
        return "broken", wall, out
    return status, wall, out


def run_tlc(ctx, ob, wd, env=None):
    e = dict(env or {})
    if ob.get("lib"):
        e["JAVA_TOOL_OPTIONS"] = f"-DTLA-Library={TLAPS_LIB}"
    res = T.run(wd, ob["module"], ob["cfg"], workers=ob.get("workers", 4), timeout=TOOL_TIMEOUT,
                deadlock=False, env=e)
    if res.error:
        return "broken", res.wall, res.out, res
    if res.invariant_violated or res.action_violated or res.temporal_violated:
        return "violated", res.wall, res.out, res
    if not res.finished:
        return "broken", res.wall, res.out, res
    return "holds", res.wall, res.out, res


def run_one(ctx, ob, wd, env=None):
    if ob["tool"] == "apalache":
        st, wall, out = run_apalache(ob, wd)
        return st, wall, out, None
    if ob["tool"] == "tlapm":
        st, wall, out = run_tlapm(ob, wd)
        return st, wall, out, None
    return run_tlc(ctx, ob, wd, env)


def detail(ob, out):
    """the part of the tool's output that says what went wrong (kept short)"""
    if ob["tool"] == "apalache":
        keep = [l for l in out.splitlines() if re.search(r"violated|outcome|rror|EXITCODE|Check the trace", l)]
        return "\n".join(keep[-8:])[-1500:]
    if ob["tool"] == "tlapm":
        m = re.search(r"\[ERROR\]: Could not prove.*", out, re.S)
        return (m.group(0) if m else out)[-1500:]
    return out[-1500:]


def stage_dir(ctx, tag):
    wd = T.workdir("X05-" + re.sub(r"[^A-Za-z0-9]+", "-", tag)[:40])
    T.stage(wd)
    overlay = os.environ.get("VERIF_X05_OVERLAY")      # self-test: scratch copies of modules replace the staged ones
    if overlay:
        for f in os.listdir(overlay):
            if f.endswith((".tla", ".cfg")):
                shutil.copy(os.path.join(overlay, f), os.path.join(wd, f))
    ctx.workdirs.append(wd)
    return wd


def dispatcher_binding(ctx):
    """thorough: the abstract step function against the table of the real bytecode (C22 machinery),
    and Dispatcher.tla's FIFO-reachable states against IndInv.  -> obligation record"""
    from checks import c22
    from harness import fastgroup as FG
    keep = (ctx.traces, ctx.evaluations, set(ctx.nontrivial))
    r, entries, _, tpath, wd, K, cbs = c22.table(ctx, tag="X05-table")
    ctx.traces, ctx.evaluations, ctx.nontrivial = keep     # what table() counts for itself is C22's evidence
    ob = tlc("Ind_DispatcherBind", "Ind_DispatcherBind.cfg",
             "AStep = every row of the real-bytecode table; Dispatcher (Fifo) reachable states in IndInv")
    st, wall, out, res = run_tlc(ctx, ob, wd, env={"TABLE_FILE": tpath})
    rows = [v for v in T.printed_records(res, "ROWS")] if res is not None and st != "broken" else []
    FG.close_maps(r)
    if st == "holds":
        if not rows:
            raise T.MachineryError("Ind_DispatcherBind printed no ROWS record")
        n, fresh_ok, nbad, bad = rows[0]
        expected = len(cbs) * (2 * K + 2) * len(FG.VARIANTS)
        if n != expected:
            raise T.MachineryError(f"ROWS covers {n} rows, the table has {expected}")
        ctx.traces += n                  # each row is one run of the real programs, compared by TLC
        ob["rows"] = n
        if not fresh_ok or nbad:
            st = "violated"
            out = f"fresh index agrees: {fresh_ok}; {nbad} rows differ from AStep, e.g. {bad[:5]}"
    return ob, st, wall, out, res


# ---- the check ------------------------------------------------------------------------------------

def run(ctx):
    only = os.environ.get("VERIF_X05_ONLY", "")
    obs = [dict(o) for o in OBLIGATIONS if (o["quick"] or not ctx.quick)]
    muts = [m for m in MUTANTS if (m["quick"] or not ctx.quick)]
    if only:
        obs = [o for o in obs if only.lower() in oid(o).lower()]
        muts = [m for m in muts if only.lower() in m["id"].lower()]
    ctx.rule = ("one evaluation per proof obligation (TLAPS proof module, Apalache base / step / witness, TLC "
                "binding of wrapper to original); non-trivial = the obligation quantifies over all states "
                "satisfying the hypothesis (every obligation except the witnesses)")
    ctx.exhaustive = False
    jobs = []
    for o in obs:
        jobs.append((o, stage_dir(ctx, oid(o)), None))
    for m in muts:
        wd = stage_dir(ctx, "mut-" + m["id"])
        path = os.path.join(wd, m["file"])
        text = open(path).read()
        if text.count(m["old"]) != 1:
            raise T.MachineryError(f"mutant {m['id']}: the text to edit occurs {text.count(m['old'])} times in {m['file']}")
        with open(path, "w") as f:
            f.write(text.replace(m["old"], m["new"]))
        jobs.append((dict(m["ob"], kind="mutant"), wd, m))
    # longest first, a few at a time (each tool is itself multi-threaded)
    jobs.sort(key=lambda j: {"Ind_Address": 0}.get(j[0]["module"], 1))
    results = []
    with cf.ThreadPoolExecutor(max_workers=int(os.environ.get("VERIF_X05_JOBS", "5"))) as ex:
        futs = {ex.submit(run_one, ctx, o, wd): (o, wd, m) for o, wd, m in jobs}
        for fu in cf.as_completed(futs):
            o, wd, m = futs[fu]
            results.append((o, m) + tuple(fu.result()))
    if not ctx.quick and (not only or only.lower() in "ind_dispatcherbind"):
        ob, st, wall, out, res = dispatcher_binding(ctx)
        results.append((ob, None, st, wall, out, res))

    records, selftest = [], []
    broken = []
    for o, m, st, wall, out, res in sorted(results, key=lambda r: (r[1] is not None, oid(r[0]))):
        rec = dict(module=o["module"], invariant=o["invariant"], kind=o["kind"], tool=o["tool"],
                   result=st, expected=o["expect"], wall_s=round(wall, 1))
        if "rows" in o:
            rec["table_rows"] = o["rows"]
        if res is not None:
            ctx.tlc_stats(res)
            rec["states"] = res.distinct
        if m is not None:
            rec["mutant"] = m["id"]
            rec["edit"] = f"{m['file']}: {m['old']!r} -> {m['new']!r}"
            selftest.append(rec)
            if st in ("broken", "timeout"):
                broken.append(f"mutant {m['id']}: {o['tool']} {st}:\n{out[-1500:]}")
            elif st != o["expect"]:
                broken.append(f"mutant {m['id']} ({rec['edit']}) was NOT caught: {o['tool']} says {st}")
            continue
        records.append(rec)
        ctx.evaluated(oid(o), nontrivial=o["kind"] != "witness")
        if len(ctx.samples) < 5 and o["kind"] in ("proof", "step"):
            ctx.sample(rec)
        if st in ("broken", "timeout"):
            broken.append(f"{oid(o)}: {o['tool']} {st}:\n{out[-2500:]}")
        elif st == "not proved":
            # an undischarged TLAPS obligation is no refutation (the original module may have been extended
            # since the proof was written): recorded and printed, never a VIOLATION
            rec["result"] = "not proved (module extended?)"
            ctx.extra.setdefault("not_proved", []).append(oid(o))
            print(f"NOT-PROVED property=X05 {oid(o)}: proof obligations not discharged for the current "
                  f"module (no refutation):\n{detail(o, out)[:600]}")
        elif st != o["expect"]:
            what = {"refuted": "refuted (counterexample to induction)", "not proved": "not discharged",
                    "violated": "violated", "proved": "NOT refuted: the induction hypothesis is vacuous or "
                                                      "too weak to reach the witness state"}.get(st, st)
            ctx.case_failed(dict(kind="obligation", module=o["module"], invariant=o["invariant"],
                                 obligation=o["kind"], tool=o["tool"], result=st, expected=o["expect"]),
                            f"{o['tool']} obligation {oid(o)} {what}:\n{detail(o, out)}")
    ctx.extra["obligations"] = records
    ctx.extra["self_test"] = selftest
    ctx.extra["summary"] = dict(
        obligations=len(records), as_expected=sum(1 for r in records if r["result"] == r["expected"]),
        mutants=len(selftest), mutants_caught=sum(1 for r in selftest if r["result"] == r["expected"]),
        tool_wall_s=round(sum(r["wall_s"] for r in records + selftest), 1))
    ctx.assumptions.append("TLAPS proofs: the constant assumptions stated in each Ind_*Proof module (naturals / integers, "
                           "None outside the participant set); back ends Z3 / Zenon / Isabelle / LS4 are trusted")
    ctx.assumptions.append("Apalache obligations: constants range over the bounds stated in each wrapper (CInit / Bound*); "
                           "behaviour length and the starting state are unrestricted")
    for o, m, st, wall, out, res in results:
        print(f"  {st:10s} (expected {o['expect']:10s}) {wall:6.1f}s  {o['tool']:8s} "
              f"{('mutant ' + m['id']) if m else oid(o)}")
    if broken:
        raise T.MachineryError("; ".join(broken)[:6000])
