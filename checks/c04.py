"""C04 - writing one variable never changes another.

Spec: spec/VarFrame.tla - a store with one cell per declared variable; a statement changes exactly one cell.
Programs are built with the real classes: a main XDP program with locals of all sizes, array-map variables, hash-map
variables, packet variables, a Dict (key and value members live on the stack), and 0-2 sub-program instances (of one
class or of two) with their own locals and array-map variables.  Statements assign one variable from a constant,
from another variable of the same format, or from another variable plus a constant (hash-map reads and writes need
key temporaries and saved registers; Dict.update() reads the members on the stack); at the end the program copies
every stack-resident variable into an array variable of its own.  TLC executes the emitted bytecode on the eBPF
machine and compares every observable variable with the store."""
import json
import os
import random
from concurrent.futures import ThreadPoolExecutor

from harness import tlc as T, progs
from harness.dslgen import word, NotGenerated

PROPERTY = "C04"
LEVEL = "model_checking"
SIZE = dict(B=1, H=2, I=4, Q=8, b=1, h=2, i=4, q=8, x=8)
FMTS = "BHIQbhiqx"
PKT_LEN = 64


def rand_decl(rng):
    nsub = rng.choice([0, 1, 1, 1, 2])
    d = dict(
        locals=[rng.choice(FMTS) for _ in range(rng.randint(1, 5))],
        arrays=[rng.choice(FMTS) for _ in range(rng.randint(1, 4))],
        hashes=[rng.choice("BHIQbhiq") for _ in range(rng.choice([0, 1, 2, 3]))],
        packets=[],
        dict=None,
        subcls=[], subs=[])
    off = 14
    for _ in range(rng.choice([0, 1, 2])):
        f = rng.choice("BHIQ")
        off += rng.randint(0, 3)
        d["packets"].append((off, f))
        off += SIZE[f]
    if rng.random() < 0.5:
        # incl. fixed-point members (8 bytes in memory) followed by narrow ones: added after a seeded change (a
        # member's size taken with struct.calcsize, for which 'x' is a pad byte) went unnoticed
        d["dict"] = dict(key=rng.choice([["I"], ["H", "B", "B"], ["Q", "I"], ["x", "B", "B"]]),
                         val=rng.choice([["Q"], ["I", "H", "H"], ["q", "I", "B", "B"], ["x", "B", "B"], ["x", "x", "H"],
                                         ["Q", "x", "B"]]))
    ncls = 0 if nsub == 0 else rng.randint(1, nsub)
    for _ in range(ncls):
        d["subcls"].append(dict(locals=[rng.choice(FMTS) for _ in range(rng.randint(1, 3))],
                                arrays=[rng.choice(FMTS) for _ in range(rng.randint(0, 2))]))
    d["subs"] = [rng.randrange(ncls) if i else 0 for i in range(nsub)] if nsub else []
    if nsub == 2 and ncls == 2:
        d["subs"] = [0, 1]
    return d


def variables(d):
    """[(id, fmt, stack-resident?)] in declaration order; ids: ('L', i) ('A', i) ('H', i) ('P', i) ('DK', i) ('DV', i)
    ('SL', s, i) ('SA', s, i)"""
    out = [(("L", i), f, True) for i, f in enumerate(d["locals"])]
    out += [(("A", i), f, False) for i, f in enumerate(d["arrays"])]
    out += [(("H", i), f, False) for i, f in enumerate(d["hashes"])]
    out += [(("P", i), f, False) for i, (_, f) in enumerate(d["packets"])]
    if d["dict"]:
        out += [(("DK", i), f, True) for i, f in enumerate(d["dict"]["key"])]
        out += [(("DV", i), f, True) for i, f in enumerate(d["dict"]["val"])]
    for s, c in enumerate(d["subs"]):
        out += [(("SL", s, i), f, True) for i, f in enumerate(d["subcls"][c]["locals"])]
        out += [(("SA", s, i), f, False) for i, f in enumerate(d["subcls"][c]["arrays"])]
    return out


def name_of(v):
    return v[0] + "".join(f"_{x}" for x in v[1:])


def rand_stmts(rng, d, nmid):
    """phase 1: every stack variable gets a constant; phase 2: nmid random statements; phase 3: every stack variable
    is copied into its own output variable (kind 'O', index = position among the stack variables)"""
    vs = variables(d)
    stack = [(v, f) for v, f, st in vs if st]
    byfmt = {}
    for v, f, _ in vs:
        byfmt.setdefault(f, []).append(v)

    def const(f):
        return rng.choice([rng.getrandbits(8 * SIZE[f]), rng.getrandbits(8 * SIZE[f]), rng.randint(1, 120)])
    stmts = []
    order = stack[:]
    rng.shuffle(order)
    for v, f in order:
        stmts.append(("const", v, None, const(f)))
    for _ in range(nmid):
        v, f, _ = rng.choice(vs)
        r = rng.random()
        others = [u for u in byfmt[f] if u != v]
        if d["dict"] and r < 0.12:
            stmts.append(("none", None, None, 0))
        elif others and r < 0.6:
            stmts.append(("copy", v, rng.choice(others), 0))
        elif r < 0.8 and f != "x":
            stmts.append(("addc", v, rng.choice(byfmt[f]), rng.randint(1, 100)))
        else:
            stmts.append(("const", v, None, const(f)))
    outs = list(enumerate(stack))
    rng.shuffle(outs)
    for j, (v, f) in outs:
        stmts.append(("copy", ("O", j), v, 0))
    return stmts, [f for _, f in stack]


def build(d, stmts, outfmts, use_kernel=False):
    from ebpfcat.xdp import XDP, XDPExitCode, PacketVar
    from ebpfcat.arraymap import ArrayMap
    from ebpfcat.hashmap import HashMap, Dict
    from ebpfcat.ebpf import LocalVar, SubProgram, Structure, Member
    m = ArrayMap()
    ns = dict(license="GPL", minimumPacketSize=48, m=m)
    for i, f in enumerate(d["arrays"]):
        ns[f"A_{i}"] = m.globalVar(f)
    for j, f in enumerate(outfmts):
        ns[f"O_{j}"] = m.globalVar(f)
    for i, f in enumerate(d["locals"]):
        ns[f"L_{i}"] = LocalVar(f)
    if d["hashes"]:
        hm = HashMap()
        ns["hm"] = hm
        for i, f in enumerate(d["hashes"]):
            ns[f"H_{i}"] = hm.globalVar(f)
    for i, (off, f) in enumerate(d["packets"]):
        ns[f"P_{i}"] = PacketVar(off, f)
    if d["dict"]:
        K = type("K", (Structure,), {f"DK_{i}": Member(f) for i, f in enumerate(d["dict"]["key"])})
        V = type("V", (Structure,), {f"DV_{i}": Member(f) for i, f in enumerate(d["dict"]["val"])})
        ns["dd"] = Dict(key=K, value=V, size=4)
    subclasses = []
    for c, sc in enumerate(d["subcls"]):
        sns = {}
        for i, f in enumerate(sc["locals"]):
            sns[f"SL_{i}"] = LocalVar(f)
        for i, f in enumerate(sc["arrays"]):
            sns[f"SA_{i}"] = m.globalVar(f)
        subclasses.append(type(f"Sub{c}", (SubProgram,), sns))
    subs = [subclasses[c]() for c in d["subs"]]

    def place(self, v):
        if v[0] in ("L", "A", "H", "P", "O"):
            return self, name_of(v)
        if v[0] == "DK":
            return self.dd.key, f"DK_{v[1]}"
        if v[0] == "DV":
            return self.dd.value, f"DV_{v[1]}"
        return self.subprograms[v[1]], f"{v[0]}_{v[2]}"

    def program(self):
        for op, dst, src, c in stmts:
            if op == "none":
                self.dd.update()
                continue
            o, a = place(self, dst)
            if op == "const":
                setattr(o, a, c)
            else:
                so, sa = place(self, src)
                e = getattr(so, sa)
                setattr(o, a, e if op == "copy" else e + c)
        self.exit(XDPExitCode.PASS)
    ns["program"] = program
    try:
        return progs.build(type("Fr", (XDP,), ns), subprograms=subs, use_kernel=use_kernel), subs
    except NotGenerated:
        raise
    except Exception as ex:
        raise NotGenerated(f"{type(ex).__name__}: {ex}")


def rand_program(rng):
    d = rand_decl(rng)
    stmts, outfmts = rand_stmts(rng, d, rng.randint(2, 9))
    # constants assigned to fixed-point variables would be scaled (C02's business): they only get the constant 0
    fm = {v: f for v, f, _ in variables(d)}
    stmts = [(("const", dst, None, 0) if op == "const" and fm.get(dst) == "x" else (op, dst, src, c))
             for op, dst, src, c in stmts]
    return d, stmts, outfmts


def fdof(b, want):
    """map number (1-based, creation order) of the first map satisfying `want`"""
    for i, mm in enumerate(b.maps):
        if want(mm):
            return i + 1
    raise T.MachineryError("map not found")


def make_case(rng, d, stmts, outfmts, b, subs):
    inst = b.inst
    vs = variables(d) + [(("O", j), f, False) for j, f in enumerate(outfmts)]
    index = {v: i + 1 for i, (v, _, _) in enumerate(vs)}
    arrfd = fdof(b, lambda mm: mm["type"] == "array")
    arrsize = b.maps[arrfd - 1]["vs"]
    arr = bytes(rng.getrandbits(8) for _ in range(arrsize))
    pkt = bytes(rng.getrandbits(8) for _ in range(PKT_LEN))
    hashes = []
    hfd = None
    if d["hashes"]:
        hfd = fdof(b, lambda mm: mm["type"] == "hash" and mm["ks"] == 1)
    recs = []
    for v, f, st in vs:
        size = SIZE[f]
        if v[0] in ("A", "O"):
            off = inst.__dict__[name_of(v)]
            recs.append(dict(size=size, kind="arr", fd=arrfd, off=off, key=[], init=list(arr[off:off + size]), addr=0, alias=False))
        elif v[0] == "SA":
            off = subs[v[1]].__dict__[f"SA_{v[2]}"]
            recs.append(dict(size=size, kind="arr", fd=arrfd, off=off, key=[], init=list(arr[off:off + size]), addr=0, alias=False))
        elif v[0] == "P":
            off = d["packets"][v[1]][0]
            recs.append(dict(size=size, kind="pkt", fd=0, off=off, key=[], init=list(pkt[off:off + size]), addr=0, alias=False))
        elif v[0] == "H":
            key = [type(inst).__dict__[name_of(v)].count]
            val = bytes(rng.getrandbits(8) for _ in range(8))
            hashes.append((hfd, bytes(key), val))
            recs.append(dict(size=size, kind="hash", fd=hfd, off=0, key=key, init=list(val[:size]), addr=0, alias=False))
        else:
            # the real stack address, for diagnostics; alias: a sub-program local (known finding F34)
            if v[0] == "L":
                addr = type(inst).__dict__[name_of(v)].fmt_addr(inst)[1]
            elif v[0] == "SL":
                addr = type(subs[v[1]]).__dict__[f"SL_{v[2]}"].fmt_addr(subs[v[1]])[1]
            else:
                st_ = inst.dd.key if v[0] == "DK" else inst.dd.value
                addr = type(st_).__dict__[name_of(v)].fmt_addr(st_)[1]
            recs.append(dict(size=size, kind="stack", fd=0, off=0, key=[], init=[], addr=addr, alias=v[0] == "SL"))
    fmt = {v: f for v, f, _ in vs}
    ss = []
    for op, dst, src, c in stmts:
        if op == "none":
            ss.append(dict(op="none", dst=0, src=0, v=[]))
            continue
        size = SIZE[fmt[dst]]
        if op == "const" and fmt[dst] == "x" and c != 0:
            raise T.MachineryError("only the constant 0 goes into fixed-point variables here (scaling is C02's business)")
        ss.append(dict(op=op, dst=index[dst], src=index[src] if src else 0, v=word(c, size)))
    c = progs.case(b, pkt=pkt, arr={arrfd: arr}, hashes=hashes, fuel=20000)
    c.update(vars=recs, stmts=ss)
    return c, [name_of(v) + ":" + f for v, f, _ in vs]


def run(ctx):
    nprog = 260 if ctx.quick else 2400
    rng = random.Random(4004)
    cases, meta, refused = [], [], []
    n = 0
    while len(cases) < nprog and n < nprog * 3:
        n += 1
        if n % 5 == 0:
            rng2 = ctx.rng                      # a share of the programs follows VERIF_SEED
        else:
            rng2 = rng
        d, stmts, outfmts = rand_program(rng2)
        try:
            b, subs = build(d, stmts, outfmts)
        except NotGenerated as e:
            refused.append(str(e)[:160])
            continue
        c, names = make_case(rng2, d, stmts, outfmts, b, subs)
        cases.append(c)
        meta.append(dict(decl=d, stmts=[[op, name_of(dst) if dst else None, name_of(src) if src else None, cc]
                                        for op, dst, src, cc in stmts], names=names))
    if not cases:
        raise T.MachineryError("no C04 program could be built: " + "; ".join(refused[:3]))
    wd = ctx.workdir()
    PAR = 12
    CH = max(1, -(-len(cases) // PAR))

    def chunk(start):
        path = os.path.join(wd, f"cases{start}.json")
        json.dump(cases[start:start + CH], open(path, "w"))
        res = T.run(wd, "VarFrame", "VarFrame.cfg", timeout=3000, deadlock=False, env={"TRACE_FILE": path}, workers=1)
        os.remove(path)
        return start, res
    with ThreadPoolExecutor(PAR) as ex:
        results = list(ex.map(chunk, range(0, len(cases), CH)))
    verdict = {}
    for start, res in results:
        if res.error:
            raise T.MachineryError("VarFrame failed:\n" + res.error[:3000])
        ctx.tlc_stats(res)
        for rec in T.printed_records(res, "VERDICT"):
            verdict[start + rec[0]] = rec[1:]
    counts = dict(ok=0, wrong=0, fault=0)
    faults = []
    kinds = {}
    for i, m in enumerate(meta, 1):
        v = verdict.get(i)
        if v is None:
            raise T.MachineryError(f"no verdict for case {i}")
        kind, st_, changed, alias_explains = v
        counts[kind] += 1
        ctx.traces += 1
        for nm in m["names"]:
            kinds[nm.split("_")[0].split(":")[0]] = kinds.get(nm.split("_")[0].split(":")[0], 0) + 1
        ctx.evaluated(json.dumps(m["stmts"]) + json.dumps(m["decl"]), nontrivial=kind != "fault")
        if kind == "fault":
            # the program does not run to its end on the machine: whether the generator may emit it is C05's
            # subject (the same programs are part of C05's corpus); the frame condition is not judged on it
            faults.append(dict(decl=m["decl"], stmts=m["stmts"], status=st_))
            continue
        if kind == "ok" and i % 97 == 3:
            ctx.sample(dict(decl=m["decl"], stmts=m["stmts"], verdict="ok"))
        if kind != "ok":
            ch = sorted((m["names"][c[0] - 1], c[1], c[2]) for c in changed) if kind == "wrong" else []
            d = m["decl"]
            ctx.case_failed(dict(decl=d, stmts=m["stmts"], verdict=kind, status=st_, changed=ch, explained_by_shared_sub_frames=alias_explains,
                                 changed_kinds=sorted({c[0].split("_")[0] for c in ch}),
                                 n_subs=len(d["subs"]), same_class_subs=len(d["subs"]) == 2 and d["subs"][0] == d["subs"][1],
                                 has_hash=bool(d["hashes"]), has_dict=bool(d["dict"])),
                            f"{kind} {st_ or ''}: " + "; ".join(f"{nm} holds {o}, store says {e}" for nm, o, e in ch[:4]))
    ctx.exhaustive = False
    ctx.rule = ("fixed-seed random programs (a fifth follows VERIF_SEED): 1-5 locals, 1-4 array variables, 0-3 hash "
                "variables, 0-2 packet variables, optionally a Dict, 0-2 sub-program instances of 1-2 classes; every "
                "stack variable initialised, 2-9 random statements, every stack variable copied out; one random "
                "initial memory per program")
    ctx.extra.update(verdicts=counts, programs=len(cases), refused=len(refused), refused_examples=refused[:5],
                     variables_by_kind=kinds,
                     not_judged_faulting=faults[:5])
