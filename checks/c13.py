"""C13 - datagram field encoding and decoding round-trip.

Spec: spec/Codec.tla (Payload, Decoded, RoundTrip), CodecScripts (TLC enumerates the argument
      shapes and checks the spec's encoder against its decoder on each), CodecTrace (validation).
Binding: every enumerated request is made on a real EtherCat object through the real
      `roundtrip`; a consumer task takes the datagram from the send queue, records the payload
      and completes the future with a position-dependent response of the same length; the
      payload and the returned value (or the exception) are judged by TLC against Codec.tla."""
import asyncio
import json

from harness import tlc as T

PROPERTY = "C13"
LEVEL = "model_checking"


def fmt_string(fmt):
    """the struct format string for a sequence of fields [c, n] (counts only for x and s)"""
    return "".join((str(f["n"]) if f["c"] in "xs" else "") + f["c"] for f in fmt)


def py_value(f, v):
    return bytes(v) if f["c"] == "s" else v[0] + (v[1] << 16)


def call_args(req):
    args = []
    for g in req["groups"]:
        args.append(fmt_string(g["fmt"]))
        fields = [f for f in g["fmt"] if f["c"] != "x"]
        args.extend(py_value(f, v) for f, v in zip(fields, g["vals"]))
    if req["ro"]["present"]:
        args.append(fmt_string(req["ro"]["fmt"]))
    d = req["data"]
    kw = {}
    if d["kind"] == "count":
        kw["data"] = d["n"]
    elif d["kind"] == "bytes":
        kw["data"] = bytes(d["bytes"])
    return args, kw


def item(x):
    if isinstance(x, int) and not isinstance(x, bool) and 0 <= x < 2 ** 32:
        return dict(t="int", lo=x & 0xFFFF, hi=x >> 16, b=[])
    if isinstance(x, (bytes, bytearray)):
        return dict(t="bytes", lo=0, hi=0, b=list(x))
    return dict(t="other:" + repr(x)[:60], lo=0, hi=0, b=[])


async def one_call(req):
    """one real roundtrip; returns the recorded events"""
    from ebpfcat.ethercat import EtherCat, ECCmd
    ec = EtherCat("x")
    ec.send_queue = asyncio.Queue()
    ev = []
    rs = req["rseed"]

    async def bus():
        cmd, out, idx, pos, offset, future = await ec.send_queue.get()
        out = bytes(out)
        ev.append(dict(op="send", out=list(out), cmd=getattr(cmd, "name", repr(cmd)), idx=idx,
                       pos=pos, offset=offset))
        resp = bytes((rs * (i + 1) + 17) % 256 for i in range(len(out)))
        ev.append(dict(op="response", resp=list(resp)))
        if not future.done():
            future.set_result(resp)

    consumer = asyncio.ensure_future(bus())
    args, kw = call_args(req)
    try:
        ret = await asyncio.wait_for(ec.roundtrip(ECCmd.FPRD, 7, 0x130, *args, idx=5, **kw), 2.0)
    except asyncio.TimeoutError:
        outcome = dict(op="hang")
    except Exception as ex:
        outcome = dict(op="raise", exc=type(ex).__name__, msg=str(ex)[:120])
    else:
        if isinstance(ret, tuple):
            outcome = dict(op="return", shape="tuple", items=[item(x) for x in ret])
        elif isinstance(ret, (bytes, bytearray)):
            outcome = dict(op="return", shape="bytes", items=[item(ret)])
        else:
            outcome = dict(op="return", shape="other:" + type(ret).__name__, items=[])
    if not consumer.done():
        consumer.cancel()
    try:
        await consumer
    except (asyncio.CancelledError, Exception):
        pass
    # the response the stub gave becomes part of the return event
    resp = [e for e in ev if e["op"] == "response"]
    ev = [e for e in ev if e["op"] != "response"]
    outcome["resp"] = resp[0]["resp"] if resp else []
    ev.append(outcome)
    return ev


def random_req(rng):
    """extra random requests (seed-dependent, never used for gating)"""
    def field():
        c = rng.choice("BHIxs")
        return dict(c=c, n=rng.randint(1, 9) if c in "xs" else 1)

    def value(f):
        if f["c"] == "s":
            return [rng.randint(0, 255) for _ in range(f["n"])]
        top = {"B": 0xFF, "H": 0xFFFF, "I": 0xFFFFFFFF}[f["c"]]
        v = rng.choice([0, top, rng.randint(0, top)])
        return [v & 0xFFFF, v >> 16]

    groups = []
    for _ in range(rng.randint(0, 4)):
        fmt = [field() for _ in range(rng.randint(1, 3))]
        groups.append(dict(name=fmt_string(fmt), fmt=fmt,
                           vals=[value(f) for f in fmt if f["c"] != "x"]))
    ro = dict(present=False, name="", fmt=[])
    if rng.random() < 0.5:
        fmt = [field() for _ in range(rng.randint(1, 3))]
        ro = dict(present=True, name=fmt_string(fmt), fmt=fmt)
    k = rng.choice(["none", "count", "bytes", "bytes"])
    n = rng.choice([0, 0, 1, 2, rng.randint(0, 8)]) if k != "none" else 0
    data = dict(kind=k, n=n, bytes=[rng.randint(0, 255) for _ in range(n)] if k == "bytes" else [])
    return dict(present=True, groups=groups, ro=ro, data=data, rseed=rng.choice([37, 91, 1, 255]),
                random=True)


def judge(ctx, wd, reqs):
    loop = asyncio.new_event_loop()
    traces = [dict(req=r, ev=loop.run_until_complete(one_call(r))) for r in reqs]
    loop.close()
    results = T.validate_traces(ctx, wd, "CodecTrace", "CodecTrace.cfg", traces, chunk=4000,
                                timeout=600)
    for t, (matched, length, inv) in zip(traces, results):
        r = t["req"]
        ctx.traces += 1
        nfmt = len(r["groups"]) + (1 if r["ro"]["present"] else 0)
        ctx.evaluated(json.dumps(r, sort_keys=True),
                      nontrivial=nfmt >= 1 and (len(r["groups"]) >= 1 or r["data"]["kind"] != "none"))
        if nfmt >= 2 and r["data"]["kind"] == "bytes" and r["data"]["n"] and len(ctx.samples) < 3:
            args, kw = call_args(r)
            ctx.sample(dict(args=[a if isinstance(a, (str, int)) else list(a) for a in args],
                            data=list(kw["data"]), ev=t["ev"]))
        if matched != length or isinstance(inv, str):
            bad = t["ev"][matched] if matched < length else None
            args, kw = call_args(r)
            ctx.case_failed(
                dict(req=r, formats=[a for a in args if isinstance(a, str)], n_formats=nfmt,
                     n_valued_formats=len(r["groups"]), read_only=r["ro"]["present"],
                     data_kind=r["data"]["kind"], data_len=r["data"]["n"], ev=t["ev"],
                     rejected_at=matched, rejected_event=bad,
                     outcome=t["ev"][-1]["op"], exc=t["ev"][-1].get("exc", "")),
                f"roundtrip{tuple(args)} data={kw.get('data')!r}: event {matched} rejected by "
                f"Codec: {bad}")


def run(ctx):
    wd = ctx.workdir()
    names = ["B", "H", "I", "HI", "H2xH", "4x", "8s"]
    if ctx.quick:
        groups, variants, rseeds = 2, [0], [37]
    else:
        groups, variants, rseeds = 3, [0, 1], [37]
    T.write_cfg(wd, "scripts.cfg", f"""SPECIFICATION SSpec
CONSTANTS MaxGroups = {groups}
          Variants = {{{", ".join(map(str, variants))}}}
          RSeeds = {{{", ".join(map(str, rseeds))}}}
          FmtNames = {{{", ".join(json.dumps(n) for n in names)}}}
INVARIANTS RoundTripInv
           Emit
CHECK_DEADLOCK FALSE
""")
    res = T.require_clean(T.run(wd, "CodecScripts", "scripts.cfg", workers=1, timeout=900),
                          "CodecScripts")
    if not res.ok:
        raise T.MachineryError("Codec.tla: encoder and decoder disagree:\n" + res.counterexample())
    ctx.tlc_stats(res)
    reqs = [r[0] for r in T.printed_records(res, "SCRIPT")]
    if len(reqs) < 500:
        raise T.MachineryError(f"only {len(reqs)} requests enumerated")
    ctx.extra["requests"] = len(reqs)
    judge(ctx, wd, reqs)
    extra = [random_req(ctx.rng) for _ in range(300 if ctx.quick else 5000)]
    judge(ctx, wd, extra)
    ctx.exhaustive = True
    ctx.rule = (f"all requests with 0..{groups} valued format strings from {names} (values "
                f"rotating through boundary tables, {len(variants)} rotations), without / with each "
                f"trailing read-only format, data in {{absent, 0, 3, b'', 1-3 bytes}}, "
                f"TLC-enumerated, plus {len(extra)} random requests; non-trivial = at least one "
                f"format and (a value or raw data)")


def replay(ctx, case):
    judge(ctx, ctx.workdir(), [case["req"]])
