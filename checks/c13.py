"""C13 - datagram field encoding and decoding round-trip.

Spec: spec/Codec.tla (Payload, Decoded, RoundTrip), CodecScripts (TLC enumerates the argument
      shapes and checks the spec's encoder against its decoder on each), CodecTrace (validation).
Binding: every enumerated request is made on a real EtherCat object through the real
      `roundtrip`; a consumer task takes the datagram from the send queue, records the payload
      and completes the future with a position-dependent response of the same length; the
      payload and the returned value (or the exception) are judged by TLC against Codec.tla."""
import asyncio
import json
import logging
import math
import struct

from harness import tlc as T

PROPERTY = "C13"
LEVEL = "model_checking"


def fmt_string(fmt):
    """the struct format string for a sequence of fields [c, n] (counts only for x, s and p)"""
    return "".join((str(f["n"]) if f["c"] in "xsp" else "") + f["c"] for f in fmt)


def py_value(v):
    """item [t, lo, hi, b] -> the Python value it denotes (see the header of spec/Codec.tla)"""
    t = v["t"]
    if t == "int":
        mag = sum(x << (16 * i) for i, x in enumerate(v["b"]))
        return -mag if v["lo"] else mag
    if t == "float":            # (-1)^lo * 1.b2b3... * 2^hi, exact for up to 53 bits
        x = math.ldexp(int("".join(map(str, v["b"])), 2), v["hi"] - (len(v["b"]) - 1))
        return -x if v["lo"] else x
    if t == "fzero":
        return -0.0 if v["lo"] else 0.0
    if t == "finf":
        return -math.inf if v["lo"] else math.inf
    if t == "bool":
        return bool(v["lo"])
    if t == "bytes":
        return bytes(v["b"])
    raise ValueError(t)


def call_args(req):
    args = []
    for g in req["groups"]:
        args.append(fmt_string(g["fmt"]))
        args.extend(py_value(v) for v in g["vals"])
    if req["ro"]["present"]:
        args.append(fmt_string(req["ro"]["fmt"]))
    d = req["data"]
    kw = {}
    if d["kind"] == "count":
        kw["data"] = d["n"]
    elif d["kind"] == "bytes":
        kw["data"] = bytes(d["bytes"])
    return args, kw


def item(x):
    """a Python value -> item [t, lo, hi, b]; pure change of representation"""
    if isinstance(x, bool):
        return dict(t="bool", lo=int(x), hi=0, b=[])
    if isinstance(x, int) and abs(x) < 2 ** 64:
        return dict(t="int", lo=int(x < 0), hi=0, b=[(abs(x) >> (16 * i)) & 0xFFFF for i in range(4)])
    if isinstance(x, float):
        sign = int(math.copysign(1.0, x) < 0)
        if math.isnan(x):
            return dict(t="fnan", lo=0, hi=0, b=[])
        if math.isinf(x):
            return dict(t="finf", lo=sign, hi=0, b=[])
        if x == 0:
            return dict(t="fzero", lo=sign, hi=0, b=[])
        m, e = math.frexp(abs(x))           # abs(x) = m * 2^e, 0.5 <= m < 1
        bits = bin(int(m * 2 ** 53))[2:].rstrip("0")
        return dict(t="float", lo=sign, hi=e - 1, b=[int(c) for c in bits])
    if isinstance(x, (bytes, bytearray)):
        return dict(t="bytes", lo=0, hi=0, b=list(x))
    return dict(t="other:" + repr(x)[:60], lo=0, hi=0, b=[])


def show(a):
    return a if isinstance(a, (str, int)) else repr(a) if isinstance(a, float) else list(a)


def outcome_of(ret):
    if isinstance(ret, tuple):
        return dict(op="return", shape="tuple", items=[item(x) for x in ret])
    if isinstance(ret, (bytes, bytearray)):
        return dict(op="return", shape="bytes", items=[item(ret)])
    return dict(op="return", shape="other:" + type(ret).__name__, items=[])


async def one_call(req):
    """one real roundtrip; returns the recorded events"""
    from ebpfcat.ethercat import EtherCat, ECCmd
    ec = EtherCat("x")
    ec.send_queue = asyncio.Queue()
    ev = []
    rs = req["rseed"]

    async def bus():
        cmd, out, idx, pos, offset, future = await ec.send_queue.get()
        out = bytes(out)
        ev.append(dict(op="send", out=list(out), cmd=getattr(cmd, "name", repr(cmd)), idx=idx,
                       pos=pos, offset=offset))
        resp = bytes((rs * (i + 1) + 17) % 256 for i in range(len(out)))
        ev.append(dict(op="response", resp=list(resp)))
        if not future.done():
            future.set_result(resp)

    consumer = asyncio.ensure_future(bus())
    args, kw = call_args(req)
    try:
        ret = await asyncio.wait_for(ec.roundtrip(ECCmd.FPRD, 7, 0x130, *args, idx=5, **kw), 2.0)
    except asyncio.TimeoutError:
        outcome = dict(op="hang")
    except Exception as ex:
        outcome = dict(op="raise", exc=type(ex).__name__, msg=str(ex)[:120])
    else:
        outcome = outcome_of(ret)
    if not consumer.done():
        consumer.cancel()
    try:
        await consumer
    except (asyncio.CancelledError, Exception):
        pass
    # the response the stub gave becomes part of the return event
    resp = [e for e in ev if e["op"] == "response"]
    ev = [e for e in ev if e["op"] != "response"]
    outcome["resp"] = resp[0]["resp"] if resp else []
    ev.append(outcome)
    return ev


class FakeTransport:
    """the socket: keeps the frames the real send loop hands over"""
    class _sock:
        @staticmethod
        def bind(addr):
            pass

    def __init__(self):
        self.frames = []

    def sendto(self, frame, addr):
        self.frames.append(bytes(frame))


def frame_datagrams(frame):
    """(adp, ado, data start, data stop) of the datagrams after the identification datagram"""
    out, pos, more = [], 16, True
    while more and pos + 12 <= len(frame):
        adp, ado, ln = struct.unpack_from("<hHH", frame, pos + 2)
        more = bool(ln & 0x8000)
        ln &= 0x7ff
        out.append((adp, ado, pos + 10, pos + 10 + ln))
        pos += 12 + ln
    return out


async def frame_scenario(slots, reqs):
    """several concurrent real roundtrip calls through the real send loop, Packet and
    process_packet; the bus answers every datagram as the slot says; returns one trace per call"""
    from ebpfcat.ethercat import EtherCat, ECCmd, EtherCatError
    ec = EtherCat("x")
    ec.send_queue = asyncio.Queue()
    tr = FakeTransport()
    ec.connection_made(tr)                      # starts the real send loop
    me = asyncio.current_task()
    tasks, where = [], {}
    for i, (slot, req) in enumerate(zip(slots, reqs)):
        args, kw = call_args(req)
        where[(101 + i, 0x100 * (i + 1))] = i
        tasks.append(asyncio.ensure_future(
            ec.roundtrip(ECCmd.FPRW, 101 + i, 0x100 * (i + 1), *args, idx=i, **kw)))
    await asyncio.sleep(0)                      # every call has queued its datagram
    for slot, t in zip(slots, tasks):
        if slot["cancel"] == "early":
            t.cancel()
    seen = {}
    for _ in range(200):                        # until every datagram is on the wire
        await asyncio.sleep(0)
        seen = {}
        for f, frame in enumerate(tr.frames):
            for adp, ado, start, stop in frame_datagrams(frame):
                if (adp, ado) in where:
                    seen[where[(adp, ado)]] = (f, start, stop)
        if len(seen) == len(tasks) and ec.send_queue.empty():
            break
    for slot, t in zip(slots, tasks):
        if slot["cancel"] == "flight":
            t.cancel()
    for _ in range(3):
        await asyncio.sleep(0)
    answers = [bytearray(f) for f in tr.frames]
    resps = {}
    for i, (f, start, stop) in seen.items():
        rs = reqs[i]["rseed"]
        if slots[i]["wkc"]:
            resps[i] = bytes((rs * (k + 1) + 17 + 5 * i) % 256 for k in range(stop - start))
            answers[f][start:stop] = resps[i]
        else:
            resps[i] = bytes(answers[f][start:stop])
        struct.pack_into("<H", answers[f], stop, slots[i]["wkc"])
    for a in answers:
        ec.datagram_received(bytes(a), None)
    await asyncio.wait(tasks, timeout=2.0)
    traces = []
    for i, (slot, req, t) in enumerate(zip(slots, reqs, tasks)):
        ev = []
        if i in seen:
            f, start, stop = seen[i]
            ev.append(dict(op="send", out=list(tr.frames[f][start:stop]), frame=f))
        if not t.done():
            out = dict(op="hang")
        elif t.cancelled():
            out = dict(op="cancelled")
        elif isinstance(t.exception(), EtherCatError):
            out = dict(op="error", msg=str(t.exception())[:80])
        elif t.exception() is not None:
            out = dict(op="raise", exc=type(t.exception()).__name__, msg=str(t.exception())[:120])
        else:
            out = outcome_of(t.result())
        out["resp"] = list(resps.get(i, b""))
        ev.append(out)
        traces.append(dict(req=req, wkc=slot["wkc"], cancel=slot["cancel"], ev=ev, slot=i,
                           slots=slots, reqs=reqs, frames=len(tr.frames)))
    for t in asyncio.all_tasks():
        if t is not me:
            t.cancel()
    await asyncio.sleep(0)
    return traces


SIZES = dict(B=1, b=1, H=2, h=2, I=4, i=4, L=4, l=4, Q=8, q=8)
FLOATS = dict(e=(10, 15), f=(23, 127), d=(52, 1023))      # fraction bits, bias


def random_value(rng, f):
    """a random value the field can carry (floats: exactly representable, normal / 0 / inf)"""
    c = f["c"]
    if c in SIZES:
        bits = 8 * SIZES[c]
        lo, hi = (0, 2 ** bits - 1) if c.isupper() else (-2 ** (bits - 1), 2 ** (bits - 1) - 1)
        return item(rng.choice([lo, hi, 0, -1 if lo else 1, rng.randint(lo, hi),
                                rng.randint(max(lo, -300), min(hi, 300))]))
    if c in FLOATS:
        fw, bias = FLOATS[c]
        k = rng.random()
        if k < 0.08:
            return dict(t="fzero", lo=rng.randint(0, 1), hi=0, b=[])
        if k < 0.14:
            return dict(t="finf", lo=rng.randint(0, 1), hi=0, b=[])
        n = rng.choice([1, 2, 3, rng.randint(1, fw + 1), fw + 1])
        bits = [1] + [rng.randint(0, 1) for _ in range(n - 2)] + ([1] if n > 1 else [])
        e = rng.choice([rng.randint(-3, 8), rng.randint(1 - bias, bias), 1 - bias, bias])
        return dict(t="float", lo=rng.randint(0, 1), hi=e, b=bits)
    if c == "?":
        return dict(t="bool", lo=rng.randint(0, 1), hi=0, b=[])
    n = 1 if c == "c" else rng.choice([f["n"], f["n"], max(0, f["n"] - 1), rng.randint(0, f["n"] + 3)])
    return dict(t="bytes", lo=0, hi=0, b=[rng.randint(0, 255) for _ in range(n)])


def random_req(rng):
    """extra random requests over all field codes (seed-dependent, never used for gating)"""
    def field():
        c = rng.choice("BHILQbhilqefd?cxsp")
        return dict(c=c, n=rng.randint(1, 9) if c in "xsp" else 1)

    groups = []
    for _ in range(rng.randint(0, 4)):
        fmt = [field() for _ in range(rng.randint(1, 3))]
        groups.append(dict(name=fmt_string(fmt), fmt=fmt,
                           vals=[random_value(rng, f) for f in fmt if f["c"] != "x"]))
    ro = dict(present=False, name="", fmt=[])
    if rng.random() < 0.5:
        fmt = [field() for _ in range(rng.randint(1, 3))]
        ro = dict(present=True, name=fmt_string(fmt), fmt=fmt)
    k = rng.choice(["none", "count", "bytes", "bytes"])
    n = rng.choice([0, 0, 1, 2, rng.randint(0, 8)]) if k != "none" else 0
    data = dict(kind=k, n=n, bytes=[rng.randint(0, 255) for _ in range(n)] if k == "bytes" else [])
    return dict(present=True, groups=groups, ro=ro, data=data, rseed=rng.choice([37, 91, 1, 255]),
                random=True)


def judge(ctx, wd, reqs):
    """single calls: the send queue is served directly by a stub"""
    loop = asyncio.new_event_loop()
    traces = [dict(req=r, wkc=1, cancel="no", ev=loop.run_until_complete(one_call(r)))
              for r in reqs]
    loop.close()
    verdicts(ctx, wd, traces)


BIG = dict(kind="count", n=1000, bytes=[])      # two of these do not share a frame


def judge_frames(ctx, wd, scenarios, pool, rounds):
    """concurrent calls through the real send loop; slot j of scenario s gets a request shape
    from the pool (rotating), "big" slots get 1000 raw bytes so that the frame overflows"""
    loop = asyncio.new_event_loop()
    loop.set_exception_handler(lambda l, c: None)    # failures show up in the calls' outcomes
    logging.disable(logging.CRITICAL)
    traces = []
    try:
        for rnd in range(rounds):
            for n, slots in enumerate(scenarios):
                reqs = [pool[(11 * n + 5 * j + 17 * rnd) % len(pool)] for j in range(len(slots))]
                reqs = [dict(r, data=BIG) if sl["big"] else r for r, sl in zip(reqs, slots)]
                traces += loop.run_until_complete(
                    asyncio.wait_for(frame_scenario(slots, reqs), 20))
    finally:
        logging.disable(logging.NOTSET)
        loop.close()
    verdicts(ctx, wd, traces)
    return len(traces)


def verdicts(ctx, wd, traces):
    results = T.validate_traces(ctx, wd, "CodecTrace", "CodecTrace.cfg",
                                [dict(req=t["req"], wkc=t["wkc"], cancel=t["cancel"], ev=t["ev"])
                                 for t in traces], chunk=4000, timeout=600)
    for t, (matched, length, inv) in zip(traces, results):
        r = t["req"]
        ctx.traces += 1
        nfmt = len(r["groups"]) + (1 if r["ro"]["present"] else 0)
        framed = "slots" in t
        ctx.evaluated(json.dumps([r, t["wkc"], t["cancel"], t.get("slot"), t.get("slots")],
                                 sort_keys=True),
                      nontrivial=nfmt >= 1 and (len(r["groups"]) >= 1 or r["data"]["kind"] != "none"))
        if len(ctx.samples) < 3 and (framed and len(t["slots"]) >= 2 and t["wkc"] and t["slot"] >= 1
                                     if len(ctx.samples) == 2 else
                                     nfmt >= 2 and r["data"]["kind"] == "bytes" and r["data"]["n"]):
            args, kw = call_args(r)
            ctx.sample(dict(args=[show(a) for a in args], data=show(kw.get("data", "")),
                            slots=t.get("slots"), slot=t.get("slot"), ev=t["ev"]))
        if matched != length or isinstance(inv, str):
            bad = t["ev"][matched] if matched < length else None
            args, kw = call_args(r)
            ctx.case_failed(
                dict(req=r, formats=[a for a in args if isinstance(a, str)], n_formats=nfmt,
                     n_valued_formats=len(r["groups"]), read_only=r["ro"]["present"],
                     data_kind=r["data"]["kind"], data_len=r["data"]["n"], ev=t["ev"],
                     rejected_at=matched, rejected_event=bad, framed=framed, wkc=t["wkc"],
                     cancel=t["cancel"], slot=t.get("slot"), slots=t.get("slots"),
                     frames=t.get("frames"), frame_reqs=t.get("reqs"),
                     outcome=t["ev"][-1]["op"], exc=t["ev"][-1].get("exc", "")),
                f"roundtrip{tuple(args)} data={kw.get('data')!r}"
                + (f" as call {t['slot']} of {t['slots']}" if framed else "")
                + f": event {matched} rejected by Codec: {bad}")


OLD = ["B", "H", "I", "HI", "H2xH", "4x", "8s"]                # unsigned, padding, byte string
NEW = ["bh", "iq", "QlL", "e", "f", "Hd", "?c", "5p"]            # signed, 64 bit, float, bool, char, Pascal
MIX = ["H", "8s", "iq", "f", "Hd", "?c"]


def enumerate_requests(ctx, wd, names, groups, variants):
    T.write_cfg(wd, "scripts.cfg", f"""SPECIFICATION SSpec
CONSTANTS MaxGroups = {groups}
          Variants = {{{", ".join(map(str, variants))}}}
          RSeeds = {{37}}
          FmtNames = {{{", ".join(json.dumps(n) for n in names)}}}
INVARIANTS RoundTripInv
           Emit
CHECK_DEADLOCK FALSE
""")
    res = T.require_clean(T.run(wd, "CodecScripts", "scripts.cfg", workers=1, timeout=900),
                          "CodecScripts")
    if not res.ok:
        raise T.MachineryError("Codec.tla: encoder and decoder disagree:\n" + res.counterexample())
    ctx.tlc_stats(res)
    return [r[0] for r in T.printed_records(res, "SCRIPT")]


def run(ctx):
    wd = ctx.workdir()
    if ctx.quick:
        plans = [(OLD, 2, [0]), (NEW, 1, [0]), (MIX, 2, [0])]
    else:
        plans = [(OLD, 3, [0, 1]), (OLD + NEW, 2, [0])]
    seen, reqs = set(), []
    for names, groups, variants in plans:
        for r in enumerate_requests(ctx, wd, names, groups, variants):
            key = json.dumps(r, sort_keys=True)
            if key not in seen:
                seen.add(key)
                reqs.append(r)
    if len(reqs) < 500:
        raise T.MachineryError(f"only {len(reqs)} requests enumerated")
    ctx.extra["requests"] = len(reqs)
    judge(ctx, wd, reqs)
    extra = [random_req(ctx.rng) for _ in range(400 if ctx.quick else 4000)]
    judge(ctx, wd, extra)
    # concurrent calls sharing frames: scenarios from TLC, request shapes from the lists above
    calls, cancels = (3, ["no", "flight"]) if ctx.quick else (4, ["no", "early", "flight"])
    T.write_cfg(wd, "frames.cfg", f"""SPECIFICATION FSpec
CONSTANTS MaxCalls = {calls}
          Cancels = {{{", ".join(json.dumps(c) for c in cancels)}}}
          Bigs = {{FALSE, TRUE}}
INVARIANT Emit
CHECK_DEADLOCK FALSE
""")
    res = T.require_clean(T.run(wd, "CodecFrames", "frames.cfg", workers=1, timeout=600),
                          "CodecFrames")
    ctx.tlc_stats(res)
    scenarios = [r[0] for r in T.printed_records(res, "SCENARIO")]
    if len(scenarios) < 100:
        raise T.MachineryError(f"only {len(scenarios)} frame scenarios enumerated")
    pool = reqs[::max(1, len(reqs) // 97)] + extra[:40]
    framed = judge_frames(ctx, wd, scenarios, pool, 1 if ctx.quick else 2)
    ctx.extra["frame_scenarios"] = len(scenarios)
    ctx.extra["framed_calls"] = framed
    ctx.exhaustive = True
    ctx.rule = ("all requests TLC enumerates for the plans "
                + "; ".join(f"0..{g} valued format strings from {n}, {len(v)} value rotation(s)"
                            for n, g, v in plans)
                + " - each without / with every trailing read-only format and data in {absent, 0, "
                  "3, b'', 1-3 bytes}; values rotate through boundary tables per field code "
                  "(unsigned, signed, 64-bit, binary16/32/64 floats with fractions, zeros and "
                  f"infinities, bool, char, byte and Pascal strings); plus {len(extra)} random requests "
                  f"over all struct codes; plus {len(scenarios)} TLC-enumerated environments of 1..{calls} "
                  f"concurrent calls through the real send loop (per call: working counter 0/1, "
                  f"cancel in {cancels}, big = starts a new frame), {framed} calls; non-trivial = at least one format and (a value or raw data)")


def replay(ctx, case):
    wd = ctx.workdir()
    if case.get("framed"):
        loop = asyncio.new_event_loop()
        loop.set_exception_handler(lambda l, c: None)
        logging.disable(logging.CRITICAL)
        try:
            traces = loop.run_until_complete(frame_scenario(case["slots"], case["frame_reqs"]))
        finally:
            logging.disable(logging.NOTSET)
            loop.close()
        verdicts(ctx, wd, traces)
    else:
        judge(ctx, wd, [case["req"]])
