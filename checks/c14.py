"""C14 - state changes walk the EtherCAT state machine in order.

Spec: spec/AlDriver.tla (terminal AL part composed with the master's obligations as the property
states them) + MC_AlDriver (exhaustive), AlDriverScripts (TLC enumerates the terminal scripts),
AlDriverTrace (trace validation).
Binding: every terminal script TLC enumerates is played by a simulated terminal (harness/simbus
SimTerminal with an al_policy implementing the script) against the real
Terminal.to_operational(target) of a real EtherCat('x') object attached to the simulated segment;
the AL control writes, AL status reads (with the values reported) and the outcome are the trace
that TLC validates against AlDriver."""
import logging

from harness import tlc as T
from harness import simbus, simloop

PROPERTY = "C14"
LEVEL = "model_checking"

STATION = 5
NAMES = {1: "INIT", 2: "PREOP", 4: "SAFEOP", 8: "OP"}
SUCC = {1: 2, 2: 4, 4: 8}


class ScriptPolicy:
    """the terminal part of AlDriver.tla driven by one script: the i-th write to AL control takes
    d[i] polls to be reported (0 beyond the script), an error appears at poll number ep"""

    def __init__(self, script):
        self.d = list(script["d"])
        self.ep = script["ep"]
        self.early = bool(script.get("am", 0))   # INIT|ack: flag off at once, old state for d polls
        self.fall = -1
        self.nw = 0
        self.np = 0
        self.pend = None

    @staticmethod
    def apply(term, req, ack):
        if term.al_err and not ack:
            return                      # refused: error not acknowledged
        if not ack and req > term.al_state and req != SUCC.get(term.al_state):
            term.al_err = True          # invalid requested state change
            return
        if req in NAMES:
            term.al_state = req
        term.al_err = False

    def __call__(self, term, req, ack):  # write to 0x120
        d = self.d[self.nw] if self.nw < len(self.d) else 0
        self.nw += 1
        if self.fall >= 0:              # waits behind the fall back to INIT
            self.pend = [req, ack, d]
        elif ack and self.early and d > 0:
            term.al_err = False
            self.fall = d
            self.pend = None
        elif d == 0:
            self.apply(term, req, ack)
            self.pend = None
        else:
            self.pend = [req, ack, d]

    def poll(self, term):                # read of 0x130
        self.np += 1
        if self.np == self.ep:
            term.al_err = True
            self.pend = None
            self.fall = -1
        elif self.fall > 0:
            self.fall -= 1
        elif self.fall == 0:
            term.al_state = 1
            self.fall = -1
        elif self.pend is not None:
            if self.pend[2] > 0:
                self.pend[2] -= 1
            else:
                self.apply(term, self.pend[0], self.pend[1])
                self.pend = None


def play(script, budget=4000):
    """run the real Terminal.to_operational against the scripted terminal; returns the trace"""
    from ebpfcat.ethercat import EtherCat, Terminal, MachineState
    term = simbus.SimTerminal("T", station=STATION)
    term.al_state, term.al_err = script["start"], bool(script["err"])
    term.al_policy = ScriptPolicy(script)
    term.log_accesses = True
    hibits = int(script.get("hi", 0))
    if hibits:
        # bits of AL status above the error indicator (bit 5: device identification loaded,
        # reserved bits): shown all the time, no part of state or error indication
        def al_status(off, n, term=term):
            data = bytearray(term._al_read(off, n))
            for i in range(n):
                if off + i == 0x130:
                    data[i] |= hibits & 0xe0
                elif off + i == 0x131:
                    data[i] |= hibits >> 8
            return bytes(data)
        term.add_handler(0x130, 0x132, al_status, None)
    bus = simbus.SimBus([term])
    out = {}

    async def main():
        ec = EtherCat("x")
        simbus.attach(ec, bus)
        t = Terminal(ec)
        t.position = STATION
        try:
            r = await t.to_operational(MachineState(script["target"]))
            out["o"] = dict(op="ret", value=repr(r))
        except Exception as e:          # the outcome "raised" is judged by the specification
            out["o"] = dict(op="raise", exc=type(e).__name__, msg=str(e)[:200])

    try:
        simloop.run(main, budget=budget)
    except simloop.StallError as e:
        out["o"] = dict(op="stall", msg=str(e)[:200])
    ev = []
    for kind, off, data in term.accesses:
        n = len(data)
        if kind == "w" and off <= 0x120 < off + n:
            lo = data[0x120 - off]
            hi = data[0x121 - off] if 0x121 - off < n else 0
            ev.append(dict(op="w", val=lo | hi << 8))
        elif kind == "r" and off <= 0x130 < off + n:
            lo = data[0x130 - off]
            hi = data[0x131 - off] if 0x131 - off < n else 0
            ev.append(dict(op="r", raw=lo | hi << 8))      # decoded by the specification
    ev.append(out["o"])
    return ev


def run(ctx):
    logging.disable(logging.CRITICAL)
    k = 2 if ctx.quick else 3
    # AL status bits above the error indicator the terminals show: none, bit 5 (device
    # identification loaded); thorough adds a reserved bit and a high-byte bit
    # enumerations (k, bits): quick crosses the extra status bits with the delays up to 1 only
    enums = [(2, (0,)), (1, (0x20,))] if ctx.quick else [(3, (0, 0x20)), (2, (0x40, 0x8020))]
    hibits = tuple(h for _, hs in enums for h in hs)
    wd = ctx.workdir()
    # 1. the design: exhaustive model check of the composition, with its consequences
    T.write_cfg(wd, "mc.cfg", """SPECIFICATION Spec
CONSTANTS K = 3
INVARIANTS TypeOK
           NeverAboveTarget
           ReturnedMeansThere
           RaisedMeansError
PROPERTIES Walk
           Terminates
CHECK_DEADLOCK FALSE
""")
    res = T.require_clean(T.run(wd, "MC_AlDriver", "mc.cfg", workers=4, timeout=600), "MC_AlDriver")
    if not res.ok:
        raise T.MachineryError("AlDriver.tla violates its own consequences:\n" + res.counterexample())
    ctx.tlc_stats(res)
    ctx.extra["mc_aldriver"] = dict(distinct=res.distinct, generated=res.generated, K=3)
    # 2. terminal scripts from TLC
    records = []
    for kk, hs in enums:
        T.write_cfg(wd, "scripts.cfg", f"""SPECIFICATION SSpec
CONSTANTS K = {kk}
          HiBits = {{{", ".join(map(str, hs))}}}
INVARIANT Emit
CHECK_DEADLOCK FALSE
""")
        res = T.require_clean(T.run(wd, "AlDriverScripts", "scripts.cfg", workers=1, timeout=900),
                              "AlDriverScripts")
        ctx.tlc_stats(res)
        records += T.printed_records(res, "SCRIPT")
    seen = set()
    scripts = []
    for r in records:
        s = r[0]
        key = (s["start"], s["err"], s["target"], tuple(s["d"]), s["ep"], s["hi"], s["am"])
        if key not in seen:
            seen.add(key)
            scripts.append(s)
    if not scripts:
        raise T.MachineryError("no scripts enumerated")
    scripts.sort(key=lambda s: (s["start"], s["err"], s["target"], s["d"], s["ep"], s["hi"], s["am"]))
    # 3. play each on the real code, 4. TLC validates the recorded runs
    traces = [dict(target=s["target"], ev=play(s)) for s in scripts]
    T.write_cfg(wd, "trace.cfg", f"""SPECIFICATION TSpec
CONSTANTS K = {k}
CONSTRAINT Progress
INVARIANTS TypeOK
           NeverAboveTarget
           ReturnedMeansThere
POSTCONDITION Post
CHECK_DEADLOCK FALSE
""")
    results = T.validate_traces(ctx, wd, "AlDriverTrace", "trace.cfg", traces, chunk=4000)
    ctx.exhaustive = True
    ctx.rule = (f"all terminal scripts within the bound k={k} (start state, error flag, each requested "
                f"transition taking 0..{k} polls, an error at any poll, an acknowledgement taken late or early (flag off at once, old state "
                f"shown while falling back to INIT), each target, AL status bits above the error indicator: "
                f"{'; '.join(f'{[hex(h) for h in hs]} with delays 0..{kk}' for kk, hs in enums)}), enumerated by TLC; "
                f"non-trivial = the master had to write AL control at least once")
    ctx.extra["k"] = k
    ctx.extra["hibits"] = list(hibits)
    ctx.extra["scripts"] = len(scripts)
    outcomes = {}
    for s, t, (matched, length, inv) in zip(scripts, traces, results):
        ctx.traces += 1
        ev = t["ev"]
        writes = [e["val"] for e in ev if e["op"] == "w"]
        outcomes[ev[-1]["op"]] = outcomes.get(ev[-1]["op"], 0) + 1
        ctx.evaluated((s["start"], s["err"], s["target"], tuple(s["d"]), s["ep"], s["hi"], s["am"]),
                      nontrivial=bool(writes))
        if len(ctx.samples) < 3 and len(writes) >= 3 and (s["ep"] or len(ctx.samples) < 2):
            ctx.sample(dict(script=s, ev=ev))
        if matched != length or isinstance(inv, str):
            bad = ev[matched] if matched < length else None
            case = dict(script=s, k=k, ev=ev, rejected_at=matched, rejected_event=bad,
                        writes=writes, outcome=ev[-1])
            ctx.case_failed(case, (f"trace rejected by AlDriver at event {matched}: {bad}" if bad else
                                   f"invariant violated: {inv}")
                            + f" (start {NAMES[s['start']]}{'+err' if s['err'] else ''}, target "
                              f"{NAMES[s['target']]}, delays {s['d']}, error at poll {s['ep']}, status bits {hex(s['hi'])}, acknowledge taken {'early' if s['am'] else 'late'})")
    ctx.extra["outcomes"] = outcomes


def replay(ctx, case):
    logging.disable(logging.CRITICAL)
    ev = play(case["script"])
    wd = ctx.workdir()
    T.write_cfg(wd, "trace.cfg", f"""SPECIFICATION TSpec
CONSTANTS K = {case.get("k", 3)}
CONSTRAINT Progress
INVARIANTS TypeOK
POSTCONDITION Post
CHECK_DEADLOCK FALSE
""")
    (matched, length, inv), = T.validate_traces(ctx, wd, "AlDriverTrace", "trace.cfg",
                                                [dict(target=case["script"]["target"], ev=ev)])
    ctx.traces += 1
    ctx.evaluated(repr(case["script"]))
    print("trace:", ev)
    if matched != length:
        ctx.case_failed(dict(case, ev=ev, rejected_at=matched, rejected_event=ev[matched]),
                        f"trace rejected by AlDriver at event {matched}: {ev[matched]}")
