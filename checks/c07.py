"""C07 - packet variables access exactly their declared bytes and byte order; the minimum packet
size guard runs the body on every longer packet and on no packet shorter than its accesses need.

Spec: spec/Packet.tla (+ spec/Bytes.tla: struct pack / unpack over Wide words, itself cross-checked
against Python's struct by spec/BytesTest.tla) over the eBPF machine spec/Ebpf.tla.  Python builds
XDP subclasses with the REAL classes (PacketVar descriptors, the pB/pH/pI/pQ packet arrays, the
minimumPacketSize wrapper, explicit packetSize comparisons with Else branch), records the bytecode
the real generator emits and the inputs of each run; TLC executes every run and judges it: the
expected destination value / final packet / branch marker are computed in the spec from the
inputs.  A generator exception for an access inside the property's domain is a case the spec
rejects (Generated), not a skipped program.

Grid: 8 formats x 4 byte orders x {read into q, read into i, write from a variable, write of two
constants, += 3, -= 2, += variable} x offsets over the guarded range (quick: a rotating third)
x packets of every length 0 .. guard+size+2 (quick: 0, 13, 14 ..) with fixed-seed random contents
and the boundary contents of the field (0, 1, sign bit, all ones, ... in both byte orders);
the same for the packet arrays; marker-only / read / write programs under minimumPacketSize and
packetSize > >= < <= n for several n; plus VERIF_SEED-random programs.

Pair grid (both operands of the statement carry a struct format of their own): the packet variable
(32 formats) against a second packet variable or a map variable of each of the 32 formats -
packet = packet, packet = map variable, map variable = packet, packet += map variable,
packet += packet - with values both formats can hold (boundaries of the narrower one, negative
values, asymmetric and random ones).  Thorough: all 32 x 32 pairs; quick: a rotating third / ninth.

Use grid (the value of the packet variable used other than by a plain copy): as a CONDITION -
`with pv <rel> rhs: branch = 1 / Else: branch = 2`, the one caller that leaves the width of the value
open - for 32 formats x 6 relations x right-hand constants (small, the format's limits, beyond 32
bits, both signs) or another variable of the same signedness, directly and as `pv + ka`; and inside
arithmetic that is assigned (`other = pv + ka`).  Field values next to the right-hand side, at the
limits, and values that differ from their own low 32 bits; the spec compares exact integers.

Where the kernel is usable, every distinct program is also given to the verifier (a rejection is
recorded in the case: a C05-type fact; the C07 verdict is the machine's fault) and every run on a
packet of >= 14 bytes is executed by the kernel too; the kernel's final packet / map / return
code are handed to TLC, which checks machine = kernel (a disagreement is a machinery failure)."""
import json
import os
import random

from harness import tlc as T, progs, kernel

PROPERTY = "C07"
LEVEL = "model_checking"

LETTERS = "BHIQbhiq"
ORDERS = ("", "<", ">", "!")
SIZE = {"B": 1, "H": 2, "I": 4, "Q": 8, "b": 1, "h": 2, "i": 4, "q": 8}
N0 = 16                    # the guard of the main grid: lengths 14, 15, 16 fail it, 17 .. pass
KMIN = 14                  # the kernel's BPF_PROG_TEST_RUN refuses XDP packets shorter than this
SENT = 0xA5                # initial content of the destination variable


def word(v, n=8):
    return list((v % (1 << (8 * n))).to_bytes(n, "little"))


# ---------------------------------------------------------------------------------------------
# programs
# ---------------------------------------------------------------------------------------------
def make_class(s):
    """an XDP program with one guarded packet access.  s: the shape dict"""
    from ebpfcat.xdp import XDP, XDPExitCode, PacketVar
    from ebpfcat.arraymap import ArrayMap
    m = ArrayMap()
    ns = dict(license="GPL", m=m, marker=m.globalVar("I"))
    fmt, op, p, k = s["fmt"], s["op"], s["p"], s["k"]
    if s["acc"] == "var":
        ns["pv"] = PacketVar(p, fmt)
    # the other operand of the statement: a map variable or a second packet variable, of any format
    if s["okind"] == "map":
        ns["oth"] = m.globalVar(s["ofmt"])
    else:
        ns["oth"] = PacketVar(s["o"], s["ofmt"])
    if op == "cmp":
        ns["branch"] = m.globalVar("I")

    def use(self, pk):
        """the packet variable's value used inside an expression (reada) or as a condition (cmp: the
        one caller that leaves the width of the value open)"""
        val = self.pv if s["acc"] == "var" else getattr(pk, "p" + fmt)[p]
        ka = s["ka"]
        lhs = val if ka == 0 else val + ka if ka > 0 else val - (-ka)
        if op == "reada":
            self.oth = lhs
            return
        rhs = s["kc"] if s["rhs"] == "const" else self.oth
        cond = {"gt": lambda: lhs > rhs, "ge": lambda: lhs >= rhs, "lt": lambda: lhs < rhs,
                "le": lambda: lhs <= rhs, "eq": lambda: lhs == rhs, "ne": lambda: lhs != rhs}[s["rel"]]
        with cond() as Else:
            self.branch = 1
        with Else:
            self.branch = 2

    def access(self, pk):
        if op == "none":
            return
        if op in ("cmp", "reada"):
            use(self, pk)
        elif s["acc"] == "var":
            if op == "read":
                self.oth = self.pv
            elif op == "write":
                self.pv = self.oth
            elif op == "const":
                self.pv = k
            elif op == "iaddv":
                self.pv += self.oth
            elif k >= 0:
                self.pv += k
            else:
                self.pv -= -k
        else:                                   # pB / pH / pI / pQ of the wrapper or the Packet
            arr = getattr(pk, "p" + fmt)
            if op == "read":
                self.oth = arr[p]
            elif op == "write":
                arr[p] = self.oth
            elif op == "const":
                arr[p] = k
            elif op == "iaddv":
                arr[p] += self.oth
            elif k >= 0:
                arr[p] += k
            else:
                arr[p] -= -k

    if s["guard"] == "min":
        ns["minimumPacketSize"] = s["n"]

        def program(self):
            self.marker = 1
            access(self, self)
    else:
        def program(self):
            n = s["n"]
            cmp = {"gt": lambda: self.packetSize > n, "ge": lambda: self.packetSize >= n,
                   "lt": lambda: self.packetSize < n, "le": lambda: self.packetSize <= n}[s["guard"]]
            with cmp() as pk:
                self.marker = 1
                if s["abr"] == 1:
                    access(self, pk)
            with pk.Else:
                self.marker = 2
                if s["abr"] == 2:
                    access(self, pk)
            self.exit(XDPExitCode.PASS)
    ns["program"] = program
    return type("P_" + s["guard"], (XDP,), ns)


def shape(acc, guard, n, fmt, op, p, k=0, ofmt="q", okind="map", o=0, rel="gt", rhs="const", ka=0, kc=0):
    size = SIZE[fmt[-1]]
    need = 0 if op == "none" else p + size
    if okind == "pkt" and op in ("read", "write", "iaddv"):
        need = max(need, o + SIZE[ofmt[-1]])
    return dict(acc=acc, guard=guard, n=n, abr=2 if guard in ("lt", "le") else 1, fmt=fmt,
                order=fmt[:-1], letter=fmt[-1], size=size, op=op, p=p, k=k, ofmt=ofmt, okind=okind, o=o,
                osz=SIZE[ofmt[-1]], need=need, rel=rel, rhs=rhs, ka=ka, kc=kc)


def offsets(n, size):
    c = [0, 1, 3, n // 2, n - size - 1, n - size]
    out = []
    for p in c:
        if 0 <= p <= n - size and p not in out:
            out.append(p)
    return out


def consts(fmt):
    """two in-range constants per format: an asymmetric one, and -2 / the largest but one"""
    size = SIZE[fmt[-1]]
    asym = int.from_bytes(bytes(range(1, size + 1)), "little")
    return [asym, -2 if fmt[-1].islower() else (1 << (8 * size)) - 2]


def ops_for(fmt):
    out = [("read", 0, "q")]
    if SIZE[fmt[-1]] <= 4:
        out.append(("read", 0, "i"))
    out.append(("write", 0, "q"))
    out += [("const", c, "q") for c in consts(fmt)]
    out += [("iadd", 3, "q"), ("iadd", -2, "q"), ("iaddv", 0, "q")]
    return out


def grid(quick):
    """the deterministic program grid.  Quick keeps every (format, operation) pair but only a
    third of the offsets (rotating, so that all offsets occur), thorough keeps everything."""
    shapes = []
    fmts = [o + l for l in LETTERS for o in ORDERS]
    for fi, fmt in enumerate(fmts):
        offs = offsets(N0, SIZE[fmt[-1]])
        for oi, (op, k, ofmt) in enumerate(ops_for(fmt)):
            for pi, p in enumerate(offs):
                if quick and (pi + fi + oi) % 3:
                    continue
                shapes.append(shape("var", "min", N0, fmt, op, p, k, ofmt))
    # the packet arrays of the wrapper
    for fi, fmt in enumerate("BHIQ"):
        offs = offsets(N0, SIZE[fmt])
        for oi, (op, k, dfmt) in enumerate([("read", 0, "q"), ("write", 0, "q"),
                                            ("const", consts(fmt)[0], "q"), ("iadd", 3, "q")]):
            for pi, p in enumerate(offs):
                if quick and (pi + fi + oi) % 3:
                    continue
                shapes.append(shape("arr", "min", N0, fmt, op, p, k, dfmt))
    # other guard sizes and the explicit comparisons (access at the last offset the guard allows)
    gi = 0
    for guard in ("min", "gt", "ge", "lt", "le"):
        for n in ((15, 18) if quick else (14, 15, 18, 21)):
            have = {"min": n, "gt": n + 1, "ge": n, "lt": n, "le": n + 1}[guard]
            for fmt, acc in ((">H", "var"), ("I", "arr"), ("<q", "var"), ("B", "arr")):
                gi += 1
                if quick and gi % 2:
                    continue
                size = SIZE[fmt[-1]]
                for op in ("none", "read", "write"):
                    shapes.append(shape(acc, guard, n, fmt, op, 0 if op == "none" else have - size))
    return shapes


NP = 20                    # guard of the pair grid: two 8-byte fields fit without overlapping


def pair_grid(quick):
    """statements whose BOTH operands are variables with a struct format of their own: the packet
    variable (32 formats) against another packet variable or a map variable (32 formats): copies
    in both directions and in-place additions.  Thorough: every pair; quick: a rotating third /
    ninth of the pairs (every format and every (byte order, byte order) combination occurs)."""
    fmts = [o + l for o in ORDERS for l in LETTERS]
    kinds = [("write", "pkt", 3, 0), ("write", "map", 9, 1), ("read", "map", 9, 4),
             ("iaddv", "map", 9, 7), ("iaddv", "pkt", 9, 2)]
    out = []
    for op, okind, mod, rem in kinds:
        for i, f1 in enumerate(fmts):
            for j, f2 in enumerate(fmts):
                if quick and (i + 2 * j) % mod != rem % mod:
                    continue
                if not quick and op == "iaddv" and okind == "pkt" and (i + 2 * j) % 3:
                    continue
                p, o = (1, 12) if (i + j) % 2 == 0 else (12, 3)
                out.append(shape("var", "min", NP, f1, op, p, 0, f2, okind, o if okind == "pkt" else 0))
    return out


RELS = ("gt", "ge", "lt", "le", "eq", "ne")
WIDE = [(1 << 32) + 5, 1 << 40, -(1 << 32) + 2000, -(1 << 40) - 7, (1 << 62) + 123, -(1 << 62) + 77,
        0x123456789, (1 << 63) + 9, 0x80000000, 0x7fffffff, -0x80000000, 0xffffffff, 0x8000, -0x8000]


def compare_constants(fmt):
    """right-hand constants an 8-byte variable of the format's signedness can hold: small ones, the
    format's own limits, and ones beyond 32 bits (a narrow variable may be compared with them too)"""
    lo, hi = frange(fmt)
    if fmt[-1].islower():
        return [0, 1000, -3, hi, lo, (1 << 32) + 1, -(1 << 33), (1 << 62) + 123, 0x7fffffff]
    return [0, 1000, hi, (hi >> 1) + 1, (1 << 32) + 1, (1 << 63) + 5, 0x80000000, 0x7fffffff, 77]


def use_grid(quick):
    """the packet variable's value used as a CONDITION (`with pv <rel> rhs:` - the width is left open)
    and inside arithmetic (`pv + ka` compared or assigned): 32 formats x 6 relations x constants
    (thorough: 3 of 9 per (format, relation), rotating; quick: 1) / another variable of the same
    signedness; native unsigned formats also through the packet arrays."""
    fmts = [o + l for o in ORDERS for l in LETTERS]
    out = []
    for fi, fmt in enumerate(fmts):
        size = SIZE[fmt[-1]]
        kcs = compare_constants(fmt)
        signed = fmt[-1].islower()
        others = [fmt, "q" if signed else "Q", (">" if fmt[0] not in ">!" else "<") + ("h" if signed else "H"),
                  ("!" if fmt[0] != "!" else "") + ("i" if signed else "I")]
        for ri, rel in enumerate(RELS):
            acc = "arr" if fmt in "BHIQ" and (fi + ri) % 2 else "var"
            p = (1, 12, 5)[(fi + ri) % 3] if acc == "var" else (0, 12, 4)[(fi + ri) % 3]
            for t in range(1 if quick else 3):
                kc = kcs[(fi + 2 * ri + t) % len(kcs)]
                out.append(shape(acc, "min", NP, fmt, "cmp", p, rel=rel, kc=kc))
            # the value inside arithmetic inside the condition
            if not quick or ri == fi % 6:
                ka = 1 if (fi + ri) % 2 == 0 or not signed else -1
                out.append(shape(acc, "min", NP, fmt, "cmp", p, rel=rel, ka=ka, kc=kcs[(fi + ri) % len(kcs)]))
            # against another variable
            for t in range(1 if quick else 2):
                if quick and (ri + fi) % 3:
                    continue
                out.append(shape(acc, "min", NP, fmt, "cmp", p, rel=rel, rhs="other",
                                 ofmt=others[(fi + ri + t) % len(others)]))
        for t, ka in enumerate((1, -1 if signed else 200)):
            if quick and t != fi % 2:
                continue
            out.append(shape("var", "min", NP, fmt, "reada", 3, ka=ka, ofmt="q" if signed else "Q"))
    return out


def random_uses(rng, count):
    out = []
    for _ in range(count):
        fmt = rng.choice(ORDERS) + rng.choice(LETTERS)
        signed = fmt[-1].islower()
        lo8, hi8 = (-(1 << 63), (1 << 63) - 1) if signed else (0, (1 << 64) - 1)
        kc = rng.choice(compare_constants(fmt) + [rng.randrange(lo8, hi8 + 1), rng.randrange(-1000, 1000) if signed
                                                  else rng.randrange(0, 1000)])
        ka = rng.choice([0, 0, 1, 7, -1 if signed else 3])
        n = rng.randrange(KMIN, 25)
        p = rng.randrange(0, n - SIZE[fmt[-1]] + 1)
        if rng.random() < 0.25:
            out.append(shape("var", "min", n, fmt, "reada", p, ka=ka or 1, ofmt="q" if signed else "Q"))
        elif rng.random() < 0.3:
            ofmt = rng.choice(ORDERS) + rng.choice("bhiq" if signed else "BHIQ")
            out.append(shape("var", "min", n, fmt, "cmp", p, rel=rng.choice(RELS), ka=ka, rhs="other", ofmt=ofmt))
        else:
            out.append(shape("var", "min", n, fmt, "cmp", p, rel=rng.choice(RELS), ka=ka, kc=kc))
    return out


def use_runs(s, quick, rnd, rot=0):
    """runs of a cmp / reada program: one packet that fails the guard, then packets whose field holds
    values next to the right-hand side, the format's limits, values that differ from their own low
    32 bits, random ones (all with value + ka inside the format's range)"""
    n, p, size, fmt, ka = s["n"], s["p"], s["size"], s["fmt"], s["ka"]
    lo, hi = frange(fmt)
    ovals = values(s["ofmt"], s["ofmt"], rnd) + [w for w in WIDE if frange(s["ofmt"])[0] <= w <= frange(s["ofmt"])[1]]
    count = 6 if quick else 8
    ok = lambda v: lo <= v <= hi and lo <= v + ka <= hi
    short = [rnd.randrange(256) for _ in range(n)]          # fails the guard; its field is in the domain too
    short[p:p + size] = encode(fmt, next(v for v in (rnd.randrange(lo, hi + 1), 0, 1, hi, lo) if ok(v)))
    out = [(short, [SENT] * s["osz"] if s["op"] == "reada" else encode(s["ofmt"], 0))]
    for t in range(count):
        w = ovals[(rot + t) % len(ovals)]
        pivot = (s["kc"] if s["rhs"] == "const" else w) - ka if s["op"] == "cmp" else 0
        near = [v for v in (pivot + 1, pivot, pivot - 1) if ok(v)]
        far = [v for v in WIDE + [lo, hi, 0, 1, -1, rnd.randrange(lo, hi + 1)] if ok(v)]
        # alternate: next to the right-hand side / elsewhere (values beyond 32 bits first)
        v = near[(t // 2) % len(near)] if near and (t % 2 == 0 or not far) else far[(rot + t // 2) % len(far)]
        pkt = [rnd.randrange(256) for _ in range(n + 1 + (t % 3))]
        pkt[p:p + size] = encode(fmt, v)
        obytes = [SENT] * s["osz"] if s["op"] == "reada" else encode(s["ofmt"], w if s["rhs"] == "other" else 0)
        out.append((pkt, obytes))
    return out


def random_shapes(rng, count):
    out = []
    for _ in range(count):
        fmt = rng.choice(ORDERS) + rng.choice(LETTERS)
        size = SIZE[fmt[-1]]
        guard = rng.choice(["min", "min", "gt", "ge", "lt", "le"])
        n = rng.randrange(KMIN, 25)
        have = {"min": n, "gt": n + 1, "ge": n, "lt": n, "le": n + 1}[guard]
        p = rng.randrange(0, have - size + 1)
        op, k, ofmt = rng.choice(ops_for(fmt))
        okind, o = "map", 0
        if op in ("read", "write", "iaddv") and rng.random() < 0.6:
            ofmt = rng.choice(ORDERS) + rng.choice(LETTERS)           # the other operand has a format too
            osz = SIZE[ofmt[-1]]
            if op != "read" and rng.random() < 0.5:
                free = [x for x in range(0, have - osz + 1) if x + osz <= p or p + size <= x]
                if free:
                    okind, o = "pkt", rng.choice(free)
        if op == "const":
            lo, hi = (-(1 << (8 * size - 1)), (1 << (8 * size - 1)) - 1) if fmt[-1].islower() \
                else (0, (1 << (8 * size)) - 1)
            k = rng.randrange(lo, hi + 1)
        elif op == "iadd":
            k = rng.choice([1, 2, 5, 100, -1, -7, 1000])
        acc = "arr" if fmt in "BHIQ" and rng.random() < 0.5 else "var"
        out.append(shape(acc, guard, n, fmt, op, p, k, ofmt, okind, o))
    return out


# ---------------------------------------------------------------------------------------------
# inputs of the runs of one program
# ---------------------------------------------------------------------------------------------
def patterns(size, rnd):
    z, f = [0] * size, [255] * size
    pats = [z, f, [1] + z[1:], z[1:] + [1], [128] + z[1:], z[1:] + [128], [127] + f[1:], f[1:] + [127],
            [254] + f[1:], f[1:] + [254], list(range(1, size + 1)), [rnd.randrange(256) for _ in range(size)]]
    out = []
    for x in pats:
        if x not in out:
            out.append(x)
    return out


def frange(fmt):
    bits = 8 * SIZE[fmt[-1]]
    return (-(1 << (bits - 1)), (1 << (bits - 1)) - 1) if fmt[-1].islower() else (0, (1 << bits) - 1)


def encode(fmt, v):
    """the bytes of a variable of this format holding v (input generation; the specification
    decodes them itself with Bytes!Unpack)"""
    return list((v % (1 << (8 * SIZE[fmt[-1]]))).to_bytes(SIZE[fmt[-1]],
                                                          "big" if fmt[0] in ">!" else "little"))


def values(fmt, ofmt, rnd):
    """values both formats can hold (what struct.pack accepts for the destination)"""
    lo, hi = max(frange(fmt)[0], frange(ofmt)[0]), min(frange(fmt)[1], frange(ofmt)[1])
    v = [0, 1, hi, lo, hi - 1, int.from_bytes(bytes(range(1, 9)), "little") & (hi >> 1 if lo < 0 else hi)]
    if lo < 0:
        v += [-1, -2, lo + 1]
    elif hi >= 255:
        v.append((hi >> 1) + 1)                  # the top bit of the narrower format
    v.append(rnd.randrange(lo, hi + 1))
    out = []
    for x in v:
        if lo <= x <= hi and x not in out:
            out.append(x)
    return out


def access_happens(s, length):
    """is the branch holding the access the one a correct guard takes on a packet of this length?
    (input generation only: decides which packets get the boundary contents)"""
    n = s["n"]
    return length > n if s["guard"] in ("min", "gt", "le") else length >= n


def runs_for(s, quick, rnd, extra_random=0, few=0, rot=0):
    """[(packet bytes, initial bytes of the other variable if it is a map variable)] for one
    program: every length around the guard, and the boundary contents of the field / boundary
    values of the other variable on packets that pass the guard.  few > 0: only the guard size
    itself and `few` packets on which the access happens (pair grid)."""
    size, n, p = s["size"], s["n"], s["p"]
    top = n + size + 2
    shortest = n + 1 if access_happens(s, n + 1) and not access_happens(s, n) else n
    pats = patterns(size, rnd)
    uses_other = s["op"] in ("write", "iaddv")
    vals = values(s["fmt"] if s["op"] == "write" else s["ofmt"], s["ofmt"], rnd) if uses_other else [0]
    if few:
        lengths = [n if shortest == n + 1 else n - 1] + [shortest] * few
    else:
        if quick:
            lengths = [0, 13]
            if s["need"] and s["need"] - 1 < KMIN and s["need"] - 1 not in lengths:
                lengths.append(s["need"] - 1)   # one byte short of what the access needs
            lengths += list(range(KMIN, top + 1))
        else:
            lengths = list(range(0, top + 1))   # the ones below KMIN run on the machine only
        want = (6 if quick else len(pats)) if s["op"] in ("read", "iadd", "iaddv") else \
            (5 if quick else len(vals)) if s["op"] == "write" else 2
        # boundary contents need a packet on which the access happens: add packets of the shortest
        # such length until every wanted pattern / value has been used once
        extra = max(0, want - sum(1 for L in lengths if access_happens(s, L)))
        lengths += [shortest] * extra + [rnd.randrange(0, top + 1) for _ in range(extra_random)]
    out = []
    j = rot
    for L in lengths:
        pkt = [rnd.randrange(256) for _ in range(L)]
        obytes = [SENT] * s["osz"] if s["op"] == "read" else encode(s["ofmt"], 0)
        if access_happens(s, L):
            if s["op"] in ("read", "iadd", "iaddv") and L >= p + size:
                pkt[p:p + size] = pats[j % len(pats)]
            if uses_other:
                obytes = encode(s["ofmt"], vals[(j + j // len(pats)) % len(vals)])
            j += 1
        if uses_other and s["okind"] == "pkt":
            if L >= s["o"] + s["osz"]:
                pkt[s["o"]:s["o"] + s["osz"]] = obytes
            obytes = None
        out.append((pkt, obytes))
    return out


# ---------------------------------------------------------------------------------------------
def classify(case):
    """the defect classes found on the unchanged tree, as predicates over a failing case (all
    fields are inputs of the case or flags the specification computed from them)"""
    accessed = case["fault"] is not None or case["took_access_branch"]
    if (case["fault"] == "end-bad-width" and case["size"] == 1 and case["order"] in ("<", ">", "!")
            and case["op"] in ("read", "write", "iadd", "iaddv") and accessed):
        return "byte-order-on-single-byte"      # be8 / le8 emitted (F11, second half)
    if (case["fault"] == "atomic-on-packet" and case["op"] in ("iadd", "iaddv") and case["order"] == ""
            and case["size"] in (4, 8) and accessed):
        return "atomic-add-on-packet"
    if (case["why"] == ["dest"] and case["op"] == "read" and case["order"] in ("<", ">", "!")
            and case["letter"] in "hi" and case["field_negative"] and case["size"] < case["osz"] and case["ofmt"] in ("q", "i")):
        return "signed-with-byte-order-read-unsigned"   # F11, first half
    return None


def build_runs(shape_runs, use_kernel):
    """shape_runs: [(shape, runs or None -> callable giving the runs)].  Builds each program with
    the real classes, asks the verifier, executes the runs in the kernel where possible.
    Returns (cases for TLC, meta per case, {code: verifier outcome}, refused shapes, kernel runs)"""
    cases, meta, programs, refused = [], [], {}, []
    n_kernel_runs = 0
    for s, runs, is_random in shape_runs:
        try:
            b = progs.build(make_class(s), use_kernel=use_kernel)
        except Exception as e:
            # the generator raising for an access inside the property's domain is a case result:
            # one case without a program, which the specification rejects (Generated)
            refused.append(dict(s, error=f"{type(e).__name__}: {e}"))
            cases.append(dict(programs=[[]], entry=1, maps=[], progs=[], orc=[], pkt=[], arr=[], hash=[],
                              fuel=1, built=False, op=s["op"], fmt=list(s["fmt"]), p=s["p"], k=word(s["k"]),
                              guard=s["guard"], n=s["n"], abr=s["abr"], need=s["need"], mark=0,
                              okind=s["okind"], o=s["o"], ofmt=list(s["ofmt"]), kern=[], rel=s["rel"],
                              rhs=s["rhs"], ka=word(s["ka"], 16), kc=word(s["kc"], 16), br=0))
            meta.append(dict(s, length=0, field="", other="", verifier=None, random=is_random, code="",
                             pkt="", error=refused[-1]["error"]))
            continue
        inst = b.inst
        mark = inst.__dict__["marker"]
        o = inst.__dict__["oth"] if s["okind"] == "map" else s["o"]
        vs = b.maps[0]["vs"]
        verifier, pfd = None, None
        if use_kernel:
            try:
                pfd = kernel.prog_load(b.code)
                verifier = "accepted"
            except kernel.VerifierReject as e:
                lines = [ln for ln in e.log.strip().splitlines() if not ln.startswith("processed ")]
                verifier = "rejected: " + (lines[-1] if lines else f"errno {e.errno}")
        programs[b.code.hex()] = verifier
        try:
            for pkt, obytes in (runs() if callable(runs) else runs):
                arr0 = bytearray(vs)
                if s["okind"] == "map":
                    arr0[o:o + s["osz"]] = bytes(obytes)
                c = progs.case(b, pkt=pkt, arr={1: bytes(arr0)}, fuel=400)
                c.update(op=s["op"], fmt=list(s["fmt"]), p=s["p"], k=word(s["k"]), guard=s["guard"],
                         n=s["n"], abr=s["abr"], need=s["need"], mark=mark, okind=s["okind"], o=o,
                         ofmt=list(s["ofmt"]), kern=[], built=True, rel=s["rel"], rhs=s["rhs"],
                         ka=word(s["ka"], 16), kc=word(s["kc"], 16), br=inst.__dict__.get("branch", 0))
                if pfd is not None and len(pkt) >= KMIN:
                    inst.m[:] = bytes(arr0)
                    rv, out = kernel.test_run(pfd, bytes(pkt))
                    c["kern"] = [dict(r0=rv, pkt=list(out), arr=list(bytes(inst.m)))]
                    n_kernel_runs += 1
                cases.append(c)
                field = pkt[s["p"]:s["p"] + s["size"]] if s["op"] != "none" and len(pkt) >= s["need"] else []
                other = obytes if obytes is not None else \
                    pkt[s["o"]:s["o"] + s["osz"]] if len(pkt) >= s["o"] + s["osz"] else []
                meta.append(dict(s, length=len(pkt), field=bytes(field).hex(), other=bytes(other).hex(),
                                 verifier=verifier, random=is_random, code=b.code.hex(),
                                 pkt=bytes(pkt).hex()))
        finally:
            if pfd is not None:
                os.close(pfd)
            if use_kernel:
                try:
                    inst.m.close()
                    os.close(b.maps[0]["fd"])
                except Exception:
                    pass
    return cases, meta, programs, refused, n_kernel_runs


def judge(ctx, cases, meta):
    """TLC executes and judges every run; returns (tally by class, unexplained, faulted programs)"""
    wd = ctx.workdir()
    path = os.path.join(wd, "cases.json")
    with open(path, "w") as f:
        json.dump(cases, f)
    res = T.run(wd, "Packet", "PacketObserve.cfg", workers=4, timeout=1500, deadlock=False,
                env={"TRACE_FILE": path})
    if res.error or not res.finished:
        raise T.MachineryError("Packet.tla failed:\n" + (res.error or res.out[-3000:])[:3000])
    ctx.tlc_stats(res)
    verdict = {}
    for rec in T.printed_records(res, "VERDICT"):
        cid, ok, why, agree, obs = rec
        if cid in verdict:
            raise T.MachineryError(f"two verdicts for case {cid}")
        verdict[cid] = (ok, why, agree, obs)
    tally, unexplained, disagree, faulted_programs = {}, 0, [], set()
    for i, (c, m) in enumerate(zip(cases, meta), 1):
        if i not in verdict:
            raise T.MachineryError(f"no verdict for case {i}: {m}")
        ok, why, agree, obs = verdict[i]
        if why == ["not-in-domain"]:
            raise T.MachineryError(f"generated case outside the property's domain: {m}")
        if agree == "no":
            disagree.append(dict(m, machine=obs, kernel=c["kern"]))
            continue
        ctx.traces += 1
        took = obs.get("ran") is True
        nontrivial = (took and m["op"] != "none") or (m["op"] == "none" and abs(m["length"] - m["n"]) <= 1) \
            or (not ok)
        ctx.evaluated((m["acc"], m["guard"], m["n"], m["fmt"], m["op"], m["p"], m["k"], m["ofmt"], m["okind"],
                       m["o"], m["rel"], m["rhs"], m["ka"], m["kc"], m["length"], m["pkt"], m["other"]),
                      nontrivial=nontrivial)
        if i % 997 == 1:
            ctx.sample({k: m[k] for k in ("acc", "guard", "n", "fmt", "op", "p", "k", "ofmt", "okind", "o",
                                          "length", "verifier")})
        if ok:
            continue
        fault = None
        if "fault" in why:
            st = obs["st"]
            fault = st[1] if isinstance(st[1], str) else "/".join(map(str, st[1]))
            faulted_programs.add(m["code"])
        case = dict(m, why=why, fault=fault, observed=obs, took_access_branch=took,
                    field_negative=obs.get("neg") is True)
        cls = classify(case)
        tally[cls or "UNEXPLAINED"] = tally.get(cls or "UNEXPLAINED", 0) + 1
        kind = f"{m['op']}/{m['okind']}" if m["op"] in ("read", "write", "iaddv") else m["op"]
        by_kind = ctx.extra.setdefault("failures_by_statement_kind", {})
        by_kind[kind] = by_kind.get(kind, 0) + 1
        unexplained += cls is None
        what = (f"the generator raises {m['error']}" if why == ["refused"] else
                f"faults with {fault} at pc {obs['pc']}" if fault else
                f"{'/'.join(why)} wrong: {json.dumps(obs)}")
        ctx.case_failed(case, f"{m['acc']} {m['fmt']!r} at {m['p']} {m['op']}"
                              f"{' k=' + str(m['k']) if m['op'] in ('const', 'iadd') else ''}"
                              f"{' ka=' + str(m['ka']) if m['op'] in ('cmp', 'reada') else ''}"
                              f"{' ' + m['rel'] + ' ' + (str(m['kc']) if m['rhs'] == 'const' else 'other') if m['op'] == 'cmp' else ''}"
                              f"{' other=' + m['okind'] + ' ' + repr(m['ofmt']) + ' bytes ' + m['other'] if m['op'] in ('read', 'reada', 'write', 'iaddv') or (m['op'] == 'cmp' and m['rhs'] == 'other') else ''} under "
                              f"{m['guard']} {m['n']} on a {m['length']}-byte packet "
                              f"(field {m['field']}): {what}"
                              f"{'; verifier ' + m['verifier'] if m['verifier'] else ''}"
                              f" [{cls or 'unexplained'}]")
    if disagree:
        raise T.MachineryError(f"machine and kernel disagree on {len(disagree)} runs, first: "
                               f"{json.dumps(disagree[0], default=repr)[:1500]}")
    return tally, unexplained, faulted_programs


def bytes_selftest(ctx):
    """spec/Bytes.tla agrees with Python's struct on boundary and random values of every format
    (validates the specification's vocabulary; decides nothing about the code under test)"""
    import struct
    rnd = random.Random(7)
    vec = []
    for letter in LETTERS:
        for order in ORDERS:
            fmt = order + letter
            bits = 8 * SIZE[letter]
            lo, hi = (-(1 << (bits - 1)), (1 << (bits - 1)) - 1) if letter.islower() else (0, (1 << bits) - 1)
            good = [lo, hi, 0, 1, hi - 1, lo + 1, int.from_bytes(bytes(range(1, SIZE[letter] + 1)), "big")]
            good += [-1, -2] if letter.islower() else [1 << (bits - 1)]
            good += [rnd.randrange(lo, hi + 1) for _ in range(4)]
            for v in good:
                b = struct.pack(fmt, v)
                assert struct.unpack(fmt, b)[0] == v
                vec.append(dict(fmt=list(fmt), bytes=list(b), value=word(v), ok=True))
            for v in [lo - 1, hi + 1] + ([lo - 2 ** 20, -2 ** 63] if bits < 64 else []):
                if -2 ** 63 <= v < 2 ** 64 and not (letter == "Q" and v < 0) and not (letter == "q" and v > hi):
                    try:
                        struct.pack(fmt, v)
                        raise T.MachineryError(f"struct.pack({fmt!r}, {v}) unexpectedly succeeds")
                    except struct.error:
                        pass
                    if -2 ** 63 <= v < 2 ** 63:
                        vec.append(dict(fmt=list(fmt), bytes=[], value=word(v), ok=False))
    wd = ctx.workdir("C07bytes")
    path = os.path.join(wd, "vectors.json")
    with open(path, "w") as f:
        json.dump(vec, f)
    res = T.run(wd, "BytesTest", "BytesTest.cfg", workers=2, timeout=300, deadlock=False,
                env={"TRACE_FILE": path})
    if not res.ok or res.distinct != len(vec):
        raise T.MachineryError("spec/Bytes.tla disagrees with struct:\n" + res.out[-2500:])
    ctx.tlc_stats(res)
    ctx.extra["bytes_tla_vectors_agreeing_with_struct"] = len(vec)


def run(ctx):
    quick = ctx.quick
    bytes_selftest(ctx)
    rnd = random.Random(0xC07)                     # fixed-seed contents of the gating grid
    shapes = grid(quick)
    pairs = pair_grid(quick)
    uses = use_grid(quick)
    n_grid = len(shapes) + len(pairs) + len(uses)
    plan = [(s, (lambda s=s: runs_for(s, quick, rnd)), False) for s in shapes]
    plan += [(s, (lambda s=s, i=i: runs_for(s, quick, rnd, few=3 if quick else 5, rot=i)), False)
             for i, s in enumerate(pairs)]
    plan += [(s, (lambda s=s, i=i: use_runs(s, quick, rnd, rot=i)), False) for i, s in enumerate(uses)]
    plan += [(s, (lambda s=s: runs_for(s, quick, ctx.rng, extra_random=4)), True)
             for s in random_shapes(ctx.rng, 12 if quick else 250)]
    plan += [(s, (lambda s=s, i=i: use_runs(s, quick, ctx.rng, rot=i)), True)
             for i, s in enumerate(random_uses(ctx.rng, 8 if quick else 120))]
    use_kernel = kernel.available()
    cases, meta, programs, refused, n_kernel_runs = build_runs(plan, use_kernel)
    if not cases:
        raise T.MachineryError("no C07 case could be built")
    tally, unexplained, faulted_programs = judge(ctx, cases, meta)

    ctx.exhaustive = False
    ctx.rule = ("one evaluation = one run of a generated program on one packet, executed and judged by "
                "TLC; non-trivial = the guarded access really happens (the access branch is taken), or, for "
                "marker-only programs, the length is within 1 of the guard size, or the run fails")
    rejected = {code: v for code, v in programs.items() if v and v.startswith("rejected")}
    only_verifier = sorted(set(rejected) - faulted_programs)
    ctx.extra.update(programs=len(programs), grid_shapes=n_grid, pair_shapes=len(pairs), use_shapes=len(uses), generator_refused=len(refused),
                     refused_examples=refused[:5], kernel=use_kernel, kernel_runs_cross_checked=n_kernel_runs,
                     verifier_rejected_programs=len(rejected),
                     verifier_rejected_without_machine_fault=len(only_verifier),
                     failure_tally=tally, failures_unexplained=unexplained)
    if only_verifier:
        ex = next(m for m in meta if m["code"] == only_verifier[0])
        ctx.extra["verifier_only_example"] = {k: ex[k] for k in ("acc", "guard", "n", "fmt", "op", "p",
                                                                 "verifier")}
    if not use_kernel:
        ctx.assumptions.append("kernel bpf() not usable here: no verifier verdicts, no machine = kernel "
                               "cross-check in this run")
    print(f"C07 programs={len(programs)} runs={len(cases)} kernel_runs={n_kernel_runs} "
          f"verifier_rejected={len(rejected)} refused_by_generator={len(refused)} "
          f"failing_runs={sum(tally.values())} tally={tally} unexplained={unexplained} "
          f"by_kind={ctx.extra.get('failures_by_statement_kind', {})}")


def replay(ctx, case):
    """re-run one recorded failing case: same program shape, same packet, same other variable"""
    s = shape(case["acc"], case["guard"], case["n"], case["fmt"], case["op"], case["p"], case["k"],
              case["ofmt"], case["okind"], case["o"], case["rel"], case["rhs"], case["ka"], case["kc"])
    runs = [(list(bytes.fromhex(case["pkt"])),
             list(bytes.fromhex(case["other"])) if case["okind"] == "map" else None)]
    cases, meta, _, refused, _ = build_runs([(s, runs, False)], kernel.available())
    judge(ctx, cases, meta)
