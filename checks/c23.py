"""C23 - processes sharing an interface coordinate the dispatcher safely.

Spec: spec/Parallel.tla - the shared state (lock directory and its ethertype files, temporary
directories, the pinned `programs` file, the attached dispatcher and its table, the mailbox lock
file, the FMMU bitmap and its lockf holder, the holder of the interface mutex), per participant
what it believes (phase, installing, ethertype, FMMU window, table handle), the four property
invariants (OneInstaller, DispatcherUp, EthDistinct, WindowsDistinct) and a model of the protocol
of ParallelEtherCat.run / LockFile / FMMULock, one step per system call in the order the code
performs them, optional crash.  Switches: Mutex (start and stop block under interface_lock()),
LockedInit (the bitmap's creator allocates under the lock), Bare (FMMULock on its own).
NEW = the repaired protocol (Mutex, LockedInit); OLD = the protocols before the repairs, kept as
adversaries.

 1 DESIGN VERIFICATION  TLC checks the four invariants on the NEW protocol exhaustively, in an
   environment where a participant may crash and where one kernel-facing call of a start-up
   (connect, create_map, attach, obj_pin, obj_get) may fail: 2 participants with a crash and a
   failing call, 3 participants with a failing call (thorough: also a crash), all interleavings;
   the bare FMMULock protocol with 3 participants and a crash.  Also:
   Mutex with the OLD bitmap initialisation satisfies the invariants (that regression is invisible
   through run(), hence the bare part).
 2 SCHEDULES  (a) in the OLD protocols TLC reports, breadth first, the shortest violating
   interleaving per class <<violated invariants, last step, phase>> and every violating behaviour
   with few preemptions - the windows a regression would reopen; (b) every behaviour of the NEW
   protocol with at most k preemptions (also with one crash, also with one failing start-up call),
   the shortest behaviour ending in a failing start-up call per <<call, what the others are doing>>
   for 3 participants (MC_Parallel: NewFault), random NEW behaviours (-simulate), seeded random
   interleavings (with occasional failing calls); the same for the bare FMMULock protocol.
   (c) code-driven: a participant vanishes - SIGKILL, or CancelledError raised inside the connect /
   attach / detach it awaits - at EVERY boundary between two calls the real code makes (its call
   sequence is learned from two probe runs, not taken from the model), as first participant or
   joiner starting, as last leaver or leaver with company.
   After a schedule, whoever is starting or stopping finishes (error handlers included), the
   remaining participants join, then the running ones leave one by one.
 3 REPLAY  every schedule runs on the REAL ParallelEtherCat.run() / LockFile / FMMULock (bare
   part: the real FMMULock(path) ... remove()) in one real OS process per participant, one gated
   system call at a time (harness/parworker; crash = SIGKILL).  A participant that would wait in
   flock / lockf reports "blocked" and the controller moves on with the schedule (no timeouts);
   calls the schedule does not know are passed on the way to the call it names.
 4 VERDICT  TLC binds the state to what was observed after every call and evaluates the invariants
   on it (ParallelTrace: VSpec / Observe).
 5 CONFORMANCE  (ParallelTrace: CSpec, NEW protocol) every observed step must be the step the
   model predicts with the same successor state; reported as a percentage, not a verdict.
"""
import itertools
import json
import os
import re
import shutil

from harness import tlc as T

PROPERTY = "C23"
LEVEL = "model_checking"

INVS = ("OneInstaller", "DispatcherUp", "EthDistinct", "WindowsDistinct")
CONSTS = {2: dict(reth="{12289}", addrs="{1, 2}"),
          3: dict(reth="{12289, 12290}", addrs="{1, 2, 3}")}


NEW = dict(name="new", mutex=True, locked=True, bare=False)
OLD = dict(name="old", mutex=False, locked=False, bare=False)
NOMUTEX = dict(name="no-mutex", mutex=False, locked=True, bare=False)
OLDINIT = dict(name="mutex+old-init", mutex=True, locked=False, bare=False)
BARE_NEW = dict(name="bare-new", mutex=False, locked=True, bare=True)
BARE_OLD = dict(name="bare-old", mutex=False, locked=False, bare=True)
TF = {True: "TRUE", False: "FALSE"}


_WD = itertools.count()


def unique_workdir(ctx):
    """TLC runs are started from several threads: harness.tlc.workdir names a directory by pid and
    millisecond, so every call here gets its own tag"""
    return ctx.workdir(f"C23-{next(_WD)}")


def env_of(crash):
    """the environment argument of the TLC jobs: n crashes, or (crashes, failing start-up calls)"""
    return crash if isinstance(crash, tuple) else (crash, 0)


def cfg_text(spec, proto, nprocs, crash, pre, body, addrs=None):
    k = CONSTS[nprocs]
    crash, fault = env_of(crash)
    procs = ", ".join('"p%d"' % i for i in range(1, nprocs + 1))
    return f"""SPECIFICATION {spec}
CONSTANTS Procs = {{{procs}}}
          REth = {k['reth']}
          Addrs = {addrs or k['addrs']}
          MaxCrash = {crash}
          MaxFault = {fault}
          MaxPre {'<- Unbounded' if pre is None else '= %d' % pre}
          Mutex = {TF[proto['mutex']]}
          LockedInit = {TF[proto['locked']]}
          Bare = {TF[proto['bare']]}
{body}
CHECK_DEADLOCK FALSE
"""


def label(proto, nprocs, crash, pre):
    crash, fault = env_of(crash)
    return f"{proto['name']} {nprocs}p" + ("+crash" if crash else "") + ("+fault" if fault else "") + \
        ("" if pre is None else f"/pre{pre}")


def mode_of(proto):
    return "fmmu" if proto["bare"] else "run"


def depth_of(res):
    m = re.findall(r"depth of the complete state graph search is (\d+)", res.out)
    return int(m[-1]) if m else 0


# ---- TLC runs -----------------------------------------------------------------------------
def tlc_mc(ctx, proto, nprocs, crash, pre, design, workers=4):
    """the whole protocol model with its structural invariants; design: also the property"""
    wd = unique_workdir(ctx)
    invs = "TypeOK LockSound MutexSound" + (" Property" if design else "")
    T.write_cfg(wd, "mc.cfg", cfg_text("PSpec", proto, nprocs, crash, pre, "INVARIANTS " + invs))
    res = T.require_clean(T.run(wd, "MC_Parallel", "mc.cfg", workers=workers, timeout=2400), "MC_Parallel")
    if not res.ok or "Model checking completed" not in res.out:
        raise T.MachineryError(f"Parallel.tla ({label(proto, nprocs, crash, pre)}) violates "
                               f"{'the property / ' if design else ''}its structural invariants:\n"
                               + res.counterexample()[:6000])
    return ("design " if design else "mc_full ") + label(proto, nprocs, crash, pre), res, []


def parse_classes(out, inv="NewClass"):
    """error traces of a -continue run printed through Alias -> [(violated names, schedule, phase)]"""
    found = []
    for block in out.split(f"Error: Invariant {inv} is violated.")[1:]:
        block = block.split("Error: Invariant")[0]
        steps, viol, ph = [], [], "-"
        for m in re.finditer(r"^/\\ (last|viol|ph) = (.*)$", block, re.M):
            v = T.parse_value(m.group(2))
            if m.group(1) == "last":
                steps.append(v)
            elif m.group(1) == "viol":
                viol = v
            else:
                ph = v
        sched = [dict(p=s["p"], a=s["a"], c=s["c"], f=bool(s.get("f", False))) for s in steps if s["p"] != "none"]
        if not sched or (not viol and inv == "NewClass"):
            raise T.MachineryError("cannot read a counterexample of MC_Parallel:\n" + block[:1500])
        found.append((sorted(viol), sched, ph))
    return found


def tlc_classes(ctx, proto, nprocs, crash, pre, workers=1):
    """shortest violating interleaving per <<violated invariants, last step>>"""
    wd = unique_workdir(ctx)
    T.write_cfg(wd, "k.cfg", cfg_text("CutSpec", proto, nprocs, crash, pre, "INVARIANT NewClass\nALIAS Alias"
                                      + ("\nCONSTRAINT StartOrder" if nprocs > 2 else "")))
    res = T.require_clean(T.run(wd, "MC_Parallel", "k.cfg", workers=workers, timeout=3000, extra=("-continue",)),
                          "MC_Parallel")
    if "Model checking completed" not in res.out and not res.finished:
        raise T.MachineryError("MC_Parallel (classes) did not finish:\n" + res.out[-2000:])
    src = "mc-class " + label(proto, nprocs, crash, pre)
    best = {}                                    # several workers may each report a class: keep the shortest
    for v, s, ph in parse_classes(res.out):
        k = (tuple(v), s[-1]["a"], ph)
        if k not in best or len(s) < len(best[k][1]):
            best[k] = (v, s)
    return src, res, [dict(source=src, nprocs=nprocs, mode=mode_of(proto), predicted=v, schedule=s, cls=list(k[1:]))
                      for k, (v, s) in sorted(best.items())]


def tlc_faultcover(ctx, proto, nprocs, crash, pre, workers=4):
    """shortest behaviour ending with a failing start-up call, per <<call, what the others are doing>>"""
    wd = unique_workdir(ctx)
    T.write_cfg(wd, "f.cfg", cfg_text("PSpec", proto, nprocs, crash, pre, "INVARIANT NewFault\nALIAS Alias"
                                      + ("\nCONSTRAINT StartOrder" if nprocs > 2 else "")))
    res = T.require_clean(T.run(wd, "MC_Parallel", "f.cfg", workers=workers, timeout=3000, extra=("-continue",)),
                          "MC_Parallel")
    if "Model checking completed" not in res.out and not res.finished:
        raise T.MachineryError("MC_Parallel (failing calls) did not finish:\n" + res.out[-2000:])
    src = "fault-cover " + label(proto, nprocs, crash, pre)
    best = {}
    for _, sch, _ in parse_classes(res.out, "NewFault"):
        running = {}                             # who is inside its context when the call fails
        for st in sch[:-1]:
            if st["a"] == "close:mutex":
                running[st["p"]] = running.get(st["p"], 0) + 1
        k = (sch[-1]["a"], tuple(sorted(running.values())), len({st["p"] for st in sch}))
        if k not in best or len(sch) < len(best[k]):
            best[k] = sch
    found = [dict(source=src, nprocs=nprocs, mode=mode_of(proto), predicted=[], schedule=sch)
             for _, sch in sorted(best.items())]
    if not found:
        raise T.MachineryError("no behaviour with a failing start-up call found:\n" + res.out[-1500:])
    return src, res, found


def tlc_scripts(ctx, proto, nprocs, crash, pre, addrs=None, simulate=None, seed=None):
    wd = unique_workdir(ctx)
    T.write_cfg(wd, "s.cfg", cfg_text("SSpec", proto, nprocs, crash, pre, "INVARIANT Emit", addrs=addrs))
    res = T.require_clean(T.run(wd, "ParallelScripts", "s.cfg", workers=1, timeout=1500,
                                simulate=simulate, depth=250 if simulate else None, seed=seed),
                          "ParallelScripts")
    src = ("simulate " if simulate else "bounded ") + label(proto, nprocs, crash, pre)
    md = mode_of(proto)
    out = [dict(source=src, nprocs=nprocs, mode=md, predicted=[], schedule=r[0])
           for r in T.printed_records(res, "SCHEDULE")]
    out += [dict(source=src, nprocs=nprocs, mode=md, predicted=sorted(r[0]), schedule=r[1])
            for r in T.printed_records(res, "VIOL")]
    out.sort(key=lambda s: json.dumps(s["schedule"]))
    if not out:
        raise T.MachineryError("no schedules enumerated by ParallelScripts")
    return src, res, out


def random_schedules(ctx, n, mode="run"):
    """extra seed-dependent cases: random interleavings (the gate is whatever the code does next)"""
    out = []
    for _ in range(n):
        k = ctx.rng.choice([2, 3, 3])
        procs = ["p1", "p2", "p3"][:k]
        sched = []
        burst = ctx.rng.choice([1, 2, 5])
        while len(sched) < (60 if mode == "run" else 20) * k:
            p = ctx.rng.choice(procs)
            for _ in range(ctx.rng.randrange(1, burst + 1)):
                sched.append(dict(p=p, a=None, c=0, f=mode == "run" and ctx.rng.random() < 0.04))
        if ctx.rng.random() < 0.3:
            sched.insert(ctx.rng.randrange(5, len(sched)), dict(p=ctx.rng.choice(procs), a="crash", c=0))
        out.append(dict(source="random " + mode, nprocs=k, mode=mode, predicted=[], schedule=sched, random=True))
    return out


def vanish_schedules(ctx):
    """A participant VANISHES - it is killed, or its task is cancelled inside an awaited call - at
    every boundary between two calls the code under test REALLY makes (learned from two probe runs
    of the real code, not from the model's order of calls), in every role: the first participant
    during its start, a joiner during its start, the last leaver and a leaver with company during
    their stop; afterwards the remaining participants join, then everybody leaves."""
    from harness import parworker
    probes = replay_schedules(ctx, [dict(schedule=[], nprocs=1), dict(schedule=[], nprocs=2)], controllers=1)
    solo, duo = probes[0]["ev"], probes[1]["ev"]

    def calls(ev, p, upto_running):
        out = []
        for e in ev:
            if e["p"] == p:
                out.append(e["a"])
                if upto_running and e["st"][p]["ph"] == "running":
                    break
        return out
    first_start = calls(solo, "p1", True)
    first_life = calls(solo, "p1", False)
    joiner_start = calls(duo, "p2", True)
    with_company = calls(duo, "p1", False)[len(first_start):]      # p1 leaves while p2 runs
    if not first_start or not joiner_start or len(first_life) <= len(first_start):
        raise T.MachineryError(f"probe runs of the real code are incomplete: {text(solo)} / {text(duo)}")
    go = lambda p, n: [dict(p=p, a=None, c=0)] * n
    out = []

    def add(role, prefix, p, seq, nprocs):
        for i in range(1, len(seq) + 1):
            out.append(dict(source=f"vanish {role}", nprocs=nprocs, mode="run", predicted=[],
                            schedule=prefix + go(p, i) + [dict(p=p, a="crash", c=0)],
                            vanish=dict(role=role, how="crash", after=seq[i - 1])))
        for i, a in enumerate(seq):
            if a in parworker.AWAITED:
                out.append(dict(source=f"vanish {role}", nprocs=nprocs, mode="run", predicted=[],
                                schedule=prefix + go(p, i) + [dict(p=p, a="cancel", c=0)],
                                vanish=dict(role=role, how="cancel", inside=a)))
    add("first participant starting", [], "p1", first_start, 3)
    add("joiner starting", go("p1", len(first_start)), "p2", joiner_start, 3)
    add("last participant leaving", go("p1", len(first_start)), "p1", first_life[len(first_start):], 2)
    add("participant leaving with company", go("p1", len(first_start)) + go("p2", len(joiner_start)), "p1",
        with_company, 3)
    return out, dict(first_start=first_start, joiner_start=joiner_start,
                     last_leave=first_life[len(first_start):], leave_with_company=with_company)


def interfere_schedules(ctx):
    """Bare FMMULock, code-driven: one participant is stopped at every boundary between two calls
    its allocation / its remove() REALLY makes (learned from probe runs of the real code) while a
    second one runs a whole allocation or a whole remove() in between; then the first goes on, a
    third joins, everybody leaves.  The model's order of calls cannot produce these interleavings
    for a protocol that differs from the model's (a read in front of the lock, say)."""
    probes = replay_schedules(ctx, [dict(schedule=[], nprocs=1, mode="fmmu"),
                                    dict(schedule=[], nprocs=2, mode="fmmu")], controllers=1)
    solo, duo = probes[0]["ev"], probes[1]["ev"]

    def calls(ev, p, upto_running):
        out = []
        for e in ev:
            if e["p"] == p:
                out.append(e["a"])
                if upto_running and e["st"][p]["ph"] == "running":
                    break
        return out
    start1, life1 = calls(solo, "p1", True), calls(solo, "p1", False)
    start2, life2 = calls(duo, "p2", True), calls(duo, "p2", False)
    leave1, leave2 = life1[len(start1):], life2[len(start2):]
    if not start1 or not start2 or not leave1 or not leave2:
        raise T.MachineryError(f"bare probe runs of the real code are incomplete: {text(solo)} / {text(duo)}")
    go = lambda p, n: [dict(p=p, a=None, c=0)] * n
    out = []
    for i in range(len(start1) + 1):             # p1 allocating, p2 allocates in between
        out.append(dict(source="interfere alloc/alloc", nprocs=3, mode="fmmu", predicted=[], random=True,
                        schedule=go("p1", i) + go("p2", len(start2)) + go("p1", len(start1) - i)))
    for i in range(len(leave1) + 1):             # p1 removing, p2 allocates in between
        out.append(dict(source="interfere remove/alloc", nprocs=3, mode="fmmu", predicted=[], random=True,
                        schedule=go("p1", len(start1) + i) + go("p2", len(start2)) + go("p1", len(leave1) - i)
                        # the newcomer is handed the second participant's window number first (the draw
                        # is adversarial): taken while the bitmap still says so, a duplicate if it does not
                        + [dict(p="p3", a=None, c=2)] * len(start2)))
    for i in range(len(leave1) + 1):             # p1 removing, p2 removes in between
        out.append(dict(source="interfere remove/remove", nprocs=3, mode="fmmu", predicted=[], random=True,
                        schedule=go("p1", len(start1)) + go("p2", len(start2)) + go("p3", len(start2))
                        + go("p1", i) + go("p2", len(leave2)) + go("p1", len(leave1) - i)))
    return out, dict(alloc=start1, alloc_joiner=start2, remove=leave1)


# ---- replay on the real code -----------------------------------------------------------------
def _replay_chunk(args):
    """one controller process: replays its share of the schedules, reusing its worker processes"""
    repo, base, items = args
    from harness import parworker
    pool, out = [], []
    try:
        retries = 3
        for k, sched, mode, procs in items:
            tr = parworker.replay(repo, base, sched, tag=f"s{k}", pool=pool, mode=mode, timeout=60.0, procs=procs)
            if tr["hang"] and retries:           # a process that does not answer within a minute on a
                retries -= 1                     # crowded machine: a real hang shows again
                tr = parworker.replay(repo, base, sched, tag=f"s{k}", pool=pool, mode=mode, timeout=120.0,
                                      procs=procs)
            out.append((k, tr))
    finally:
        for w in pool:
            w.stop()
    return out


def replay_schedules(ctx, scheds, controllers=6):
    import multiprocessing
    from concurrent.futures import ProcessPoolExecutor
    from harness import core
    import ebpfcat.ebpfcat                       # imported before forking: all processes inherit it
    base = os.path.join(T.WORK, f"c23par-{os.getpid()}")
    os.makedirs(base, exist_ok=True)
    items = [(k, sc["schedule"], sc.get("mode", "run"), ["p1", "p2", "p3"][:sc.get("nprocs", 0)])
             for k, sc in enumerate(scheds)]
    n = max(1, min(controllers, len(items) // 4))
    out = [None] * len(items)
    try:
        if n == 1:
            done = [_replay_chunk((core.REPO, base, items))]
        else:
            with ProcessPoolExecutor(max_workers=n, mp_context=multiprocessing.get_context("fork")) as ex:
                done = list(ex.map(_replay_chunk, [(core.REPO, base, items[i::n]) for i in range(n)]))
        for part in done:
            for k, tr in part:
                out[k] = tr
    finally:
        shutil.rmtree(base, ignore_errors=True)
    return out


def executed(ev):
    return [[e["p"], e["a"], e["c"], e.get("res", "")] for e in ev]


def text(ev):
    """1.attach! = participant 1's attach fails (environment); =n the value randrange handed out"""
    return " ".join(f"{e['p'][1:]}.{e['a']}" + (f"={e['c']}" if e["c"] else "") + ("!" if e.get("f") else "")
                    for e in ev)


# ---- TLC judges ----------------------------------------------------------------------------
def validate(ctx, traces, spec, bare=False, chunk=1500):
    """batched run of ParallelTrace; returns per trace (matched, length, {event: names}, [handle events])"""
    wd = unique_workdir(ctx)
    body = "CONSTRAINT Progress\nPOSTCONDITION Post" + ("\nINVARIANT Observe" if spec == "VSpec" else "")
    T.write_cfg(wd, "t.cfg", f"""SPECIFICATION {spec}
CONSTANTS Procs = {{"p1", "p2", "p3"}}
          REth = {{12289, 12290, 12291, 12292}}
          Addrs = {{1, 2, 3, 4, 9}}
          MaxCrash = 0
          MaxFault = 0
          MaxPre = 0
          Mutex = TRUE
          LockedInit = TRUE
          Bare = {TF[bare]}
{body}
CHECK_DEADLOCK FALSE
""")
    results = []
    for start in range(0, len(traces), chunk):
        part = [dict(ev=[dict(p=e["p"], a=e["a"], c=e["c"], f=bool(e.get("f", False)), obs=e["obs"], st=e["st"])
                         for e in t["ev"]])
                for t in traces[start:start + chunk]]
        path = os.path.join(wd, f"traces_{spec}_{int(bare)}_{start}.json")
        with open(path, "w") as f:
            json.dump(part, f)
        res = T.run(wd, "ParallelTrace", "t.cfg", workers=1, timeout=1500, deadlock=False,
                    env={"TRACE_FILE": path})
        if res.error or res.invariant_violated:
            raise T.MachineryError(f"trace validation ParallelTrace/{spec} failed:\n{res.error}\n{res.out[-2000:]}")
        ctx.tlc_stats(res)
        recs = {r[0]: (r[1], r[2]) for r in T.printed_records(res, "RESULT")}
        if len(recs) != len(part):
            raise T.MachineryError(f"ParallelTrace/{spec}: {len(recs)} results for {len(part)} traces\n"
                                   + res.out[-2000:])
        verd = {}
        for tid, step, names in T.printed_records(res, "VERDICT"):
            verd.setdefault(tid, {})[step] = sorted(names)
        hand = {}
        for tid, step in T.printed_records(res, "HANDLE"):
            hand.setdefault(tid, []).append(step)
        for i in range(1, len(part) + 1):
            results.append(recs[i] + (verd.get(i, {}), sorted(hand.get(i, []))))
        os.remove(path)
    return results


# ---- facts about a run (data for the finding predicates; they judge nothing) -------------------
def facts(ev, upto):
    """what happened in ev[0:upto] (upto = number of events up to and including the violating one)"""
    part = ev[:upto]
    ok = lambda e: e.get("res") == "ok"
    late = []          # teardown calls of a leaver made after another participant took the directory
    for i, e in enumerate(part):
        if e["a"] == "rmdir" and ok(e):
            took = None
            for j in range(i + 1, len(part)):
                f = part[j]
                if f["p"] != e["p"] and f["a"] == "rename" and ok(f):
                    took = f["p"]
                if took and f["p"] == e["p"] and f["a"] in ("detach", "remove:pin"):
                    late.append(dict(leaver=e["p"], call=f["a"], step=j + 1, installer=took))
    window = []        # calls on the bitmap by others between its creation and its initialisation
    for i, e in enumerate(part):
        if e["a"] == "open_x:fmmu" and ok(e):
            for j in range(i + 1, len(part)):
                f = part[j]
                if f["p"] == e["p"]:
                    if f["a"] in ("write:fmmu", "trunc:fmmu", "crash"):
                        break
                    continue
                if f["a"].endswith(":fmmu") and f["a"] not in ("open_x:fmmu", "open:fmmu"):
                    window.append(dict(creator=e["p"], other=f["p"], call=f["a"], step=j + 1))
    last = part[-1]
    running = sorted(p for p, s in last["st"].items() if s["ph"] == "running")
    stale = sorted(p for p in running if last["st"][p]["tab"] != last["obs"]["att"]["t"])
    joined_old = []    # obj_get handed out a table while another participant was installing a new one
    for i, e in enumerate(part):
        if e["a"] == "obj_get" and ok(e):
            inst = [p for p, s in e["st"].items() if p != e["p"] and (s["inst"] or (
                s["ph"] == "starting" and s["tab"] == "none" and
                any(f["p"] == p and f["a"] == "rename" and ok(f) for f in part[:i])))]
            if inst:
                joined_old.append(dict(joiner=e["p"], table=e["st"][e["p"]]["tab"], installing=inst, step=i + 1))
    return dict(late_teardown=late, creator_window=window, running=running, stale_handle=stale,
                joined_during_install=joined_old, crashed=sorted({e["p"] for e in part if e["a"] == "crash"}),
                failed_calls=[[e["p"], e["a"]] for e in part if e.get("f")],
                removed_lockdir=[[e["p"], e["a"]] for i, e in enumerate(part) if i and e["a"] != "rmdir"
                                 and part[i - 1]["obs"]["lockdir"]["ex"] and not e["obs"]["lockdir"]["ex"]],
                last_call=[last["p"], last["a"]], att=last["obs"]["att"], pin=last["obs"]["pin"],
                windows={p: last["st"][p]["win"] for p in running},
                ethertypes={p: last["st"][p]["eth"] for p in running})


def overlapping(ev):
    first, lastix = {}, {}
    for i, e in enumerate(ev):
        first.setdefault(e["p"], i)
        lastix[e["p"]] = i
    ps = list(first)
    return any(first[q] < lastix[p] and first[p] < lastix[q] for p in ps for q in ps if p < q)


def judge(ctx, sc, tr, v, c):
    ev = tr["ev"]
    ctx.traces += 1
    ctx.evaluated(("run", text(ev)), nontrivial=overlapping(ev))
    vm, vlen, verdicts, handle = v
    cm, clen, _, _ = c
    conforms = cm == clen
    common = dict(source=sc["source"], nprocs=sc["nprocs"], mode=sc.get("mode", "run"), planned=sc["schedule"],
                  predicted=sc["predicted"], vanish=sc.get("vanish"),
                  conforms_to_model=conforms, exceptions=tr["exc"])
    if tr["hang"] or vm != vlen:
        ctx.case_failed(dict(common, inv="no-verdict", hang=tr["hang"], bound=vm, events=vlen,
                             executed=executed(ev)),
                        f"no verdict: {tr['hang'] or 'observation not bound'} after [{text(ev)}]")
        return conforms
    seen = set()
    for step in sorted(verdicts):
        for inv in verdicts[step]:
            if inv in seen:
                continue
            seen.add(inv)
            f = facts(ev, step)
            case = dict(common, inv=inv, step=step, executed=executed(ev[:step]), **f)
            ctx.case_failed(case, f"{inv} violated on the real code after step {step} "
                                  f"({ev[step - 1]['p']}.{ev[step - 1]['a']}) of [{text(ev[:step])}]: running "
                                  f"{f['running']}, attached {f['att']}, pin {f['pin']}, windows {f['windows']}, "
                                  f"ethertypes {f['ethertypes']}")
    return conforms


def run(ctx):
    from concurrent.futures import ThreadPoolExecutor
    import time
    quick = ctx.quick
    # (heavy runs first so that they overlap)
    jobs = [
        # 1 design verification of the NEW protocol (and of what run() cannot show)
        # 2a the windows of the OLD protocols
        (tlc_classes, (ctx, OLD, 3, 0, 2 if quick else None, 4)),
        (tlc_classes, (ctx, BARE_OLD, 3, 0 if quick else 1, None, 4)),
        (tlc_mc, (ctx, BARE_NEW, 3, 1, None, True)),
        (tlc_mc, (ctx, NEW, 2, (1, 1), None, True, 2)),
        (tlc_mc, (ctx, NEW, 3, (0, 1), None, True) if quick else (ctx, NEW, 3, (1, 1), None, True)),
        (tlc_mc, (ctx, OLDINIT, 2 if quick else 3, 1, None, True, 2 if quick else 4)),
        (tlc_classes, (ctx, OLD, 2, 0, None)),
        (tlc_classes, (ctx, NOMUTEX, 2, 0, None)),
        (tlc_scripts, (ctx, OLD, 2, 0, 1 if quick else 2, "{1, 2, 9}")),
        (tlc_scripts, (ctx, BARE_OLD, 2, 0, 2)),
        # 2b behaviours of the NEW protocol
        (tlc_scripts, (ctx, NEW, 2, 0, 1, None if quick else "{1, 2, 9}")),
        (tlc_scripts, (ctx, NEW, 2, 1, 0 if quick else 1)),
        # ... in an environment where a start-up call fails (connect, create_map, attach, pin, obj_get)
        (tlc_scripts, (ctx, NEW, 2, (0, 1), 1)),
        (tlc_faultcover, (ctx, NEW, 3, (0, 1), 1 if quick else None)),
        (tlc_scripts, (ctx, NEW, 3, 0, None, None, "num=%d" % (50 if quick else 600), 23)),
        (tlc_scripts, (ctx, BARE_NEW, 2, 0, 2)),
        ]
    if not quick:                                # (quick: the runs with a failing call subsume these)
        jobs = [(tlc_mc, (ctx, NEW, 3, 1, None, True)),
                (tlc_mc, (ctx, NEW, 3, 0, None, True)),
                (tlc_mc, (ctx, NEW, 2, 0, None, True, 2)),
                (tlc_scripts, (ctx, BARE_NEW, 3, 0, 1)),
                (tlc_classes, (ctx, OLD, 2, 1, None)),
                (tlc_scripts, (ctx, BARE_NEW, 3, 1, None, None, "num=300", 25)),
                (tlc_classes, (ctx, NOMUTEX, 3, 0, 2, 4)),
                (tlc_classes, (ctx, OLD, 3, 1, 2, 4))] + jobs + [
                (tlc_mc, (ctx, OLD, 2, 0, None, False)),
                (tlc_scripts, (ctx, NEW, 3, 1, None, None, "num=300", 24))]
    with ThreadPoolExecutor(max_workers=8 if quick else 5) as ex:
        done = [f.result() for f in [ex.submit(f, *a) for f, a in jobs]]
    scheds = []
    design = {}
    for name, res, found in done:
        ctx.tlc_stats(res)
        info = dict(distinct=res.distinct, generated=res.generated, wall=round(res.wall, 1))
        if name.startswith("design") or name.startswith("mc_full"):
            info.update(diameter=depth_of(res), checked="TypeOK LockSound MutexSound" +
                        (" + the four property invariants: hold" if name.startswith("design") else ""))
            design[name] = info
            continue
        info["schedules"] = len(found)
        ctx.extra[name] = info
        if name.startswith("bounded") and "+fault" in name:
            # the fault-free behaviours are covered above: keep those with a failing call and,
            # of these, the ones in which somebody else is inside its context at that moment
            found = [s for s in found if any(st.get("f") for st in s["schedule"])]
            info["with_failing_call"] = len(found)
            limit = 100 if quick else 900
            found = found[::max(1, -(-len(found) // limit))]
            info["replayed"] = len(found)
        elif name.startswith("bounded"):        # keep every predicted violation, stride the others
            keep = [s for s in found if s["predicted"]]
            rest = [s for s in found if not s["predicted"]]
            limit = (50 if "old" in name else 40 if "crash" in name else 60 if "3p" in name else 100) if quick else \
                (300 if "old" in name else 700)
            found = keep[::max(1, len(keep) // (40 if quick else 200))] + rest[::max(1, -(-len(rest) // limit))]
            info["replayed"] = len(found)
        scheds += found
    ctx.extra["design_verification"] = design
    vs, learned = vanish_schedules(ctx)
    ctx.extra["vanish_code_driven"] = dict(schedules=len(vs), calls_of_the_real_code=learned)
    scheds += vs
    its, learned_bare = interfere_schedules(ctx)
    ctx.extra["interfere_code_driven_bare"] = dict(schedules=len(its), calls_of_the_real_code=learned_bare)
    scheds += its
    scheds += random_schedules(ctx, 15 if quick else 150) + random_schedules(ctx, 8 if quick else 60, "fmmu")
    t0 = time.time()
    traces = replay_schedules(ctx, scheds)
    ctx.extra["replay_wall"] = round(time.time() - t0, 1)
    idx = {False: [i for i, sc in enumerate(scheds) if sc.get("mode", "run") == "run"],
           True: [i for i, sc in enumerate(scheds) if sc.get("mode") == "fmmu"]}
    rv, rc = [None] * len(scheds), [None] * len(scheds)
    with ThreadPoolExecutor(max_workers=4) as ex:
        futs = [(spec, bare, ex.submit(validate, ctx, [traces[i] for i in idx[bare]], spec, bare))
                for spec in ("VSpec", "CSpec") for bare in (False, True) if idx[bare]]
        for spec, bare, f in futs:
            for i, r in zip(idx[bare], f.result()):
                (rv if spec == "VSpec" else rc)[i] = r
    conform = {"run": [0, 0], "fmmu": [0, 0]}
    handle_only = 0
    blocked = 0
    nonconf = []
    for sc, tr, v, c in zip(scheds, traces, rv, rc):
        ok = judge(ctx, sc, tr, v, c)
        md = sc.get("mode", "run")
        conform[md][0] += ok
        conform[md][1] += 1
        blocked += tr.get("blocked", 0)
        if not ok and len(nonconf) < 5:
            ev = tr["ev"]
            nonconf.append(dict(source=sc["source"], at=c[0], event=executed(ev)[c[0]] if c[0] < len(ev) else None,
                                before=text(ev[:c[0]])[-300:]))
        if v[3] and not v[2]:
            handle_only += 1
    predicted = [i for i, sc in enumerate(scheds) if sc["predicted"]]
    reopened = [i for i in predicted if any(set(n) & set(scheds[i]["predicted"]) for n in rv[i][2].values())]
    tally = {}
    unexplained = []
    for case, reason in ctx.failures:
        names = [f.__name__ for f in CLASSES if f(case, reason)]
        key = f"{case.get('inv')}: " + ("+".join(names) if names else "NOT EXPLAINED")
        tally[key] = tally.get(key, 0) + 1
        if not names and len(unexplained) < 3:
            unexplained.append(reason[:700])
    total = sum(v[1] for v in conform.values())
    good = sum(v[0] for v in conform.values())
    by_source = {}
    for case, _ in ctx.failures:
        by_source[case.get("source", "?")] = by_source.get(case.get("source", "?"), 0) + 1
    ctx.extra.update(
        schedules=len(scheds), schedules_run=len(idx[False]), schedules_bare_fmmu=len(idx[True]),
        model_conformance=dict(conforming=good, total=total, percent=round(100.0 * good / max(1, total), 2),
                               run=conform["run"], bare_fmmu=conform["fmmu"]),
        nonconforming_samples=nonconf,
        old_protocol_windows=dict(schedules=len(predicted), reopened_on_this_code=len(reopened)),
        steps_blocked_in_flock_or_lockf=blocked, failure_tally=tally, failures_by_source=by_source,
        unexplained_samples=unexplained, stale_handle_without_violation=handle_only,
        participants_ending_with_exception=sum(1 for t in traces if t["exc"]))
    print("C23 design:", json.dumps({k: [v["distinct"], v["diameter"]] for k, v in design.items()}))
    print(f"C23 conformance: {good}/{total}; old-protocol windows replayed: {len(predicted)}, "
          f"reopened: {len(reopened)}; failures by class:", json.dumps(tally, sort_keys=True))
    ctx.sample(dict(schedule=text(traces[0]["ev"]), exceptions=traces[0]["exc"]))
    for i in predicted[:2]:
        ctx.sample(dict(source=scheds[i]["source"], window_of=scheds[i]["predicted"], run=text(traces[i]["ev"])))
    ctx.exhaustive = False
    ctx.rule = ("one case = one schedule replayed on the real ParallelEtherCat.run()/LockFile/FMMULock (bare part: "
                "the real FMMULock alone) in real processes and judged by TLC: (a) from the OLD protocols the "
                "shortest model counterexample per <<violated invariants, last step, phase>> (2 participants all "
                "interleavings, also with a crash and with only the mutex missing; 3 participants <= 2 preemptions "
                "in quick, all in thorough; bare FMMULock 3 participants with a crash) and the violating behaviours "
                "with <= 1 (thorough 2) preemptions; (b) from the NEW protocol every behaviour of 2 participants "
                "with <= 1 (thorough 2) preemptions, with one crash <= 1, with one failing start-up call (connect, "
                "create_map, attach, obj_pin, obj_get) <= 1 (strided to the stated limits), for 3 participants the "
                "shortest behaviour ending in a failing start-up call per <<call, what the others are doing>>; "
                "(c) a participant killed, or cancelled inside an awaited connect/attach/detach, at every boundary "
                "of the calls the real code makes (learned from probe runs) in each role (first participant / joiner "
                "starting, last leaver / leaver with company), followed by newcomers; random "
                "3-participant behaviours (-simulate, fixed seed), bounded and simulated behaviours of 3 bare "
                "FMMULock users, seeded random interleavings; non-trivial = the steps of at least two participants "
                "interleave")
    ctx.assumptions += [
        "file-system semantics (rename onto an empty directory, rmdir, O_EXCL, lockf, flock) are those of the "
        "sandbox kernel on the private directory; bpf map/pin/get and XDP attach/detach are recorders with the "
        "kernel's documented semantics (pin: EEXIST, get: ENOENT, attach replaces, detach removes whatever is attached)",
        "interleaving granularity is the system call; local steps between two gated calls are atomic",
        "environment failures are injected into the kernel-facing calls of the start-up only (OSError from connect, "
        "create_map, attach, obj_pin, obj_get), at most one per schedule; failing calls of the stop sequence and "
        "failing file-system calls are not injected",
        "the design verification is exhaustive for the stated numbers of participants and one crash; the replay "
        "shows the real code follows the verified protocol on the replayed schedules (conformance percentage)"]


def replay(ctx, case):
    sc = dict(source=case.get("source", "replay"), nprocs=case.get("nprocs", 3), mode=case.get("mode", "run"),
              predicted=case.get("predicted", []), schedule=case["planned"])
    tr = replay_schedules(ctx, [sc])[0]
    v = validate(ctx, [tr], "VSpec", sc["mode"] == "fmmu")[0]
    c = validate(ctx, [tr], "CSpec", sc["mode"] == "fmmu")[0]
    for k, e in enumerate(tr["ev"], start=1):
        print(f"  {k:3} {e['p']}.{e['a']} c={e['c']} res={e.get('res')} -> lockdir={e['obs']['lockdir']} "
              f"pin={e['obs']['pin']} att={e['obs']['att']} fm={e['obs']['fm']} "
              f"st={ {p: (s['ph'], s['eth'], s['win'], s['tab']) for p, s in e['st'].items() if s['ph'] != 'idle'} }")
    print("TLC verdicts", v[2], "model conformance", c[0], "of", c[1])
    judge(ctx, sc, tr, v, c)


# ---- findings on the unchanged tree -------------------------------------------------------------
def is_f19a_late_teardown(case, reason=None):
    """a leaver whose os.rmdir(lockdir) succeeded calls detach / os.remove(programs) after another
    participant has taken the directory (its os.rename succeeded) - the new participant's
    dispatcher or pin is torn down while it runs (ebpfcat.py:693-694)"""
    return case.get("inv") == "DispatcherUp" and bool(case.get("late_teardown"))


def is_f19b_bitmap_window(case, reason=None):
    """FMMULock: the creator initialises the bitmap after open(O_EXCL) without the lock (lock.py:128);
    a participant working on the file in that window gets the creator's window, or loses its bit so
    that a later participant is given the same window"""
    return case.get("inv") == "WindowsDistinct" and bool(case.get("creator_window"))


def is_f19c_join_during_install(case, reason=None):
    """a joiner's obj_get(programs) succeeds on the previous generation's pin while a new installer
    (directory taken, nothing pinned yet) is still installing: the joiner runs while the installer
    removes the pin / replaces the dispatcher (ebpfcat.py:653 vs 667-675)"""
    return (case.get("inv") == "DispatcherUp" and not case.get("late_teardown")
            and any(j["joiner"] in case.get("running", []) for j in case.get("joined_during_install", [])))


CLASSES = (is_f19a_late_teardown, is_f19b_bitmap_window, is_f19c_join_during_install)
