"""C24 - cancelling a sync group releases its resources and ends cancelled.

Spec: spec/Lifecycle.tla - part 1 a ledger of what one sync group holds (task outcome, terminals
with an unanswered OPERATIONAL request, FMMUs in the master's tables, program-table entry,
subprocess) with the judgement at rest; part 2 a design of run() for the three kinds with a Cancel
at every await, model-checked exhaustively against the judgement (MC_Lifecycle; the variant with
the OPERATIONAL requests outside the protected region must be refuted).  spec/LifecycleTrace.tla
validates recorded runs of the real code against the ledger, in one batch.

Binding (fault enumeration, harness/lifecycle.py):
  slow / fast   the real SyncGroup / FastSyncGroup.start() and run() on harness.simloop (virtual
                time) with a real SimpleEtherCat / FastEtherCat attached to harness.simbus.  A
                reference run finds the number N of event-loop iterations up to the end of the
                second cycle; then one run per k = 0..N calls task.cancel() after exactly k
                iterations (k = 0: before the task's first step); for every k a second cancel()
                after each later iteration until the task is done (it lands in the clean-up), and
                for k = end of the second cycle [thorough: every k of the gating configurations]
                a third one after each iteration later still.  Silent-terminal configurations:
                each terminal in turn (read-only ones and writers) stops answering at the moment
                of the first cancel(), so the clean-up talks to a terminal that is gone.
                Lost-cyclic-frame configurations: from the n-th on the group's cyclic frames do
                not come back (register datagrams do), so cancellations land on the loop's
                time-out path; for the process kind the `running` flag is cleared there.
                fast: register_sync_group is the real method; ec.programs is a real kernel
                PROG_ARRAY and sg.load() really loads the group's program when the kernel is
                usable (else a dictionary behind lookup/update/delete_elem and a fake load).
  process       the real ProcessSyncGroup.start() (spawn context, the group pickled into the
                child) and wait_for_process() in this process; in the child the real
                subprocess_run / subprocess_loop / run on a simulated segment of its own
                (harness/procstandin.py replaces only ParallelEtherCat.run).  Cancellation points:
                before the first step, after 1 and 2 loop iterations (child booting), while the
                child cycles, and when the child has just exited by itself; plus a second cancel
                while wait_for_process waits for the child.
Recorded per run: AL-control writes seen by each simulated terminal, the master's fmmu_used
tables, bpf calls on the program table and ec.sync_groups, child start/exit, cancel() calls, the
task's outcome.  TLC decides; Python only drives and records.
"""
import os

from harness import tlc as T

PROPERTY = "C24"
LEVEL = "model_checking"
JAVA_ENV = {"JAVA_TOOL_OPTIONS": "-XX:ParallelGCThreads=2"}


# ---------------------------------------------------------------------------------------------
# configurations: deterministic, seed-independent

def async_configs(quick):
    """gating layouts: groups with NO written terminal (pure monitoring: the clean-up has nobody to
    ask back), with one, and with several, for one to three terminals; with and without FMMUs,
    bus delays and slow AL transitions"""
    from harness.lifecycle import config
    out = []
    for kind in ("slow", "fast"):
        # every read/write layout of one and two terminals
        out.append(config(kind, 1, (False,), (4,)))
        out.append(config(kind, 1, (True,), (4,), delay=0.012 if not quick else 0.0))
        out.append(config(kind, 2, (False, False), (4, 4)))
        out.append(config(kind, 2, (True, False), (2, 4), delay=0.0005, al_lag=1))
        out.append(config(kind, 2, (False, True), (4, 4), fmmu=(True, False)))
        out.append(config(kind, 2, (True, True), (4, 4), fmmu=(False, True)))
        # three terminals: none, two, all written
        out.append(config(kind, 3, (False, False, False), (4, 2, 4), delay=0.0005, al_lag=1))
        out.append(config(kind, 3, (True, True, False), (4, 4, 4)))
        out.append(config(kind, 3, (True, True, True), (4, 2, 4), delay=0.003, al_lag=2))
        if not quick:
            out.append(config(kind, 3, (False, True, True), (4, 4, 4), delay=0.0, al_lag=1,
                              cycletime=0.002))
            out.append(config(kind, 3, (False, False, True), (4, 4, 4), fmmu=(False, False, False)))
            out.append(config(kind, 2, (False, False), (2, 2), delay=0.003, al_lag=2,
                              fmmu=(False, True)))
    return out


def silent_configs(quick):
    """the environment misbehaves: one terminal - each in turn, read-only ones and writers - drops
    off the segment at the moment of the first cancel() (a usual reason to cancel) and answers
    nothing during the clean-up"""
    out = []
    base = [c for c in async_configs(quick) if c["nterm"] == 3][:2 if quick else None] \
        + [c for c in async_configs(quick) if c["nterm"] == 2 and c["delay"] > 0]
    for c in base:
        for i in range(c["nterm"]):
            out.append(dict(c, silent=i))
    return out


def lossy_configs(quick):
    """the group's cyclic frames are lost from the n-th on, so the cancellations of the second
    half of the run land on the time-out path of the loop (wait_for -> TimeoutError -> resend)"""
    base = [c for c in async_configs(quick) if c["nterm"] == 2 and c["delay"] > 0] \
        + ([] if quick else [c for c in async_configs(quick) if c["nterm"] == 3 and sum(c["rw"]) == 2])
    return [dict(c, lose_from=(4 if c["kind"] == "fast" else 2) + d)
            for c in base for d in ((0,) if quick else (0, 1))]


def slow_cleanup_configs(quick):
    """the segment answers, but slowly, once the task has been cancelled: every frame sent after
    the first cancel() takes 0.3 / 0.7 (thorough also 1.1) virtual seconds round the segment -
    longer than the cycle, than any poll interval of the package, shorter than the 5 virtual
    seconds the harness waits.  The clean-up must still ask every writer back and the task must
    still end cancelled: nothing in the property lets a slow terminal off"""
    base = [c for c in async_configs(quick) if c["nterm"] == 2 and c["delay"] > 0] \
        + [c for c in async_configs(quick) if c["nterm"] == 3 and sum(c["rw"]) >= 2][:2 if quick else None]
    return [dict(c, slow_after_cancel=d) for c in base for d in ((0.7,) if quick else (0.3, 0.7, 1.1))]


def depth_rule(quick, cfg):
    """how many cancel() calls per run, as a function of the iteration k of the first one and
    of n = the last k: two everywhere (the second lands in the clean-up) - for silent-terminal
    configurations in quick one -, and three at the end of the second cycle, where the group
    holds everything [thorough: for every k of the gating configurations without a silent
    terminal]"""
    if cfg.get("silent") is not None:
        return (lambda k, n: 1) if quick else (lambda k, n: 2)
    if cfg.get("slow_after_cancel") is not None:
        return (lambda k, n: 1) if quick else (lambda k, n: 2)
    if not quick and cfg in async_configs(False):
        return lambda k, n: 3
    return lambda k, n: 3 if k == n else 2


def random_config(rng):
    """VERIF_SEED extras: a random terminal configuration of a random local kind"""
    from harness.lifecycle import config
    n = rng.randint(1, 3)
    return config(rng.choice(["slow", "fast"]), n,
                  rng.choice([(False,) * n, tuple(rng.random() < 0.6 for _ in range(n)),
                              tuple(rng.random() < 0.6 for _ in range(n))]),
                  tuple(rng.choice([2, 4, 4]) for _ in range(n)),
                  delay=rng.choice([0.0, 0.0005, 0.003, 0.012]), al_lag=rng.randint(0, 2),
                  fmmu=tuple(rng.random() < 0.75 for _ in range(n)),
                  cycletime=rng.choice([0.002, 0.01, 0.01]))


def process_cases(quick):
    from harness.lifecycle import config
    cfgs = [config("process", 2, (True, False), (4, 4))]
    if not quick:
        cfgs.append(config("process", 3, (True, True, False), (4, 2, 4), delay=0.0005))
    out = []
    for n, cfg in enumerate(cfgs):
        for point in ("k0", "k1", "k2", "cycling", "exitrace"):
            out.append(dict(kind="process", cfg=cfg, point=point, second=None))
        for point in ("k1", "cycling") if quick else ("k1", "k2", "cycling", "exitrace"):
            out.append(dict(kind="process", cfg=cfg, point=point, second="waiting"))
    # the group's cyclic frames stop coming back (register datagrams are still answered): the
    # child is on its time-out path when the flag is cleared
    lost = config("process", 2, (True, False), (4, 4), lose_from=3)
    for point, second in (("cycling", None),) if quick else \
            (("cycling", None), ("cycling", "waiting"), ("k1", None)):
        out.append(dict(kind="process", cfg=lost, point=point, second=second))
    if not quick:
        out.append(dict(kind="process", point="cycling", second=None,
                        cfg=config("process", 3, (True, True, False), (4, 4, 4), lose_from=1)))
    # a pure monitoring group (no written terminal) in a child
    mon = config("process", 2, (False, False), (4, 4))
    for point in ("k1", "cycling") if quick else ("k0", "k1", "cycling", "exitrace"):
        out.append(dict(kind="process", cfg=mon, point=point, second=None))
    return out


# ---------------------------------------------------------------------------------------------

def _strip(ev):
    """what the specification looks at"""
    keep = ("t", "term", "v", "n", "idx", "outcome", "groups", "prog", "child")
    ev = [e for e in ev if not (e["t"] == "silent" and "term" not in e)]
    return [{k: e[k] for k in keep if k in e} for e in ev]


def _held_at_cancel(ev):
    """did the group hold anything when the first cancel() was called (for the non-trivial rule)"""
    op, held = set(), False
    for e in ev:
        if e["t"] == "al":
            (op.add if e["v"] == 8 else op.discard)(e["term"]) if e["v"] in (4, 8) else None
        if e["t"] == "cancel":
            h = e.get("held", {})
            return bool(op) or any(h.get("fm", ())) or bool(h.get("prog")) or bool(h.get("child"))
    return held


def _mc(wd, protected, quick):
    terms = "{1, 2}" if quick else "{1, 2, 3}"
    name = f"mc_{int(protected)}.cfg"
    T.write_cfg(wd, name, f"""SPECIFICATION DSpec
CONSTANTS Terms = {terms}
          MaxCancel = {2 if quick else 3}
          Protected = {"TRUE" if protected else "FALSE"}
INVARIANTS TypeOK
           Judged
           OnlyEndIsFinal
PROPERTIES CancelledEnds
CHECK_DEADLOCK FALSE
""")
    return T.run(wd, "MC_Lifecycle", name, workers=4, timeout=900, heap="1g", env=JAVA_ENV)


def model_check_start(ctx):
    import concurrent.futures
    pool = concurrent.futures.ThreadPoolExecutor(2)
    return pool, [(p, pool.submit(_mc, ctx.workdir(f"C24-mc{int(p)}"), p, ctx.quick))
                  for p in (True, False)]


def model_check_finish(ctx, started):
    pool, futs = started
    try:
        for protected, fut in futs:
            res = T.require_clean(fut.result(), "MC_Lifecycle")
            if protected:
                if not res.ok:
                    raise T.MachineryError("the design of Lifecycle.tla violates the judgement:\n"
                                           + res.counterexample())
                ctx.tlc_stats(res)
                ctx.extra["mc_lifecycle"] = dict(distinct=res.distinct, generated=res.generated,
                                                 wall=round(res.wall, 1))
            else:
                if "Judged" not in res.invariant_violated:
                    raise T.MachineryError(
                        "self-test: the design with the OPERATIONAL requests outside the "
                        "protected region was not refuted by the judgement\n" + res.out[-2000:])
                ctx.extra["mc_lifecycle_unprotected_refuted"] = True
    finally:
        pool.shutdown(wait=True)


def validate(ctx, wd, traces, chunk=3000, timeout=900):
    """-> [(matched, length, why)]"""
    import json
    out = []
    for start in range(0, len(traces), chunk):
        part = traces[start:start + chunk]
        path = os.path.join(wd, f"traces_{start}.json")
        with open(path, "w") as f:
            json.dump(part, f)
        env = dict(JAVA_ENV)
        env["TRACE_FILE"] = path
        res = T.run(wd, "LifecycleTrace", "LifecycleTrace.cfg", workers=1, timeout=timeout,
                    deadlock=False, env=env, heap="1g")
        if res.error or res.invariant_violated:
            raise T.MachineryError("trace validation LifecycleTrace failed:\n"
                                   f"{res.error or res.counterexample()}\n{res.out[-2000:]}")
        ctx.tlc_stats(res)
        recs = {r[0]: r[1:] for r in T.printed_records(res, "RESULT")}
        if len(recs) != len(part):
            raise T.MachineryError(f"LifecycleTrace: {len(recs)} results for {len(part)} traces\n"
                                   + res.out[-3000:])
        out += [tuple(recs[i]) for i in range(1, len(part) + 1)]
        os.remove(path)
    return out


# ---------------------------------------------------------------------------------------------

def run_async_cases(ctx, cfg, depth):
    """all cancellation sequences of one slow/fast configuration: the first cancel() after every
    iteration k up to the end of the second cycle, every further cancel() after every later
    iteration in which the task is still alive; depth(k) = how many cancels for this k"""
    from harness import lifecycle as L
    ref = L.run_async_kind(cfg, ())
    if ref["cancel_iters"]:
        n = ref["cancel_iters"][0]
    else:
        # the task ended by itself before the end of the second cycle (not a matter of C24, which
        # speaks about cancelled tasks): cancel at every iteration it lived through, and say so
        n = ref["done_iter"] or 0
        ctx.extra.setdefault("reference_ended_by_itself", []).append(
            dict(cfg=cfg, outcome=next((e["outcome"] for e in ref["ev"] if e["t"] == "done"), None)))
        ref["cancel_iters"] = [n]
    cases = []
    cap = 6000          # a clean-up that takes very long would square the number of sequences

    def explore(prefix, depth):
        if len(cases) >= cap:
            capped = ctx.extra.setdefault("sequences_capped", [])
            if cfg not in capped:
                capped.append(cfg)
            return
        """the run with cancel() after the iterations in `prefix`, then - while the task is still
        cleaning up - one more cancel() after every later iteration, down to `depth` cancels"""
        r = L.run_async_kind(cfg, tuple(prefix))
        if len(r["cancel_iters"]) != len(prefix):
            return                      # the task was done before the last cancel() was due
        cases.append((dict(kind=cfg["kind"], cfg=cfg, cancels=list(prefix), ref_iters=n), r))
        if len(prefix) < depth and r["done_iter"] is not None:
            for j in range(prefix[-1] + 1, r["done_iter"]):
                explore(prefix + [j], depth)

    for k in range(n + 1):
        explore([k], depth(k, n))
    return ref, cases


def run_process_cases(ctx):
    from harness import lifecycle as L
    wd = ctx.workdir("C24-proc")
    out = []
    for i, c in enumerate(process_cases(ctx.quick)):
        r = L.run_process_kind(c["cfg"], c["point"], c["second"], wd, f"{i}")
        out.append((c, r))
    return out


def _judge(ctx, case, r, result):
    matched, length, why = result
    ev = r["ev"]
    ctx.traces += 1
    cancels = [e for e in ev if e["t"] == "cancel"]
    key = (case["kind"], repr(sorted(case["cfg"].items())), repr(case.get("cancels")),
           case.get("point"), case.get("second"))
    ctx.evaluated(key, nontrivial=bool(cancels) and _held_at_cancel(ev))
    by = ctx.extra.setdefault("runs_by_kind", {})
    by[case["kind"]] = by.get(case["kind"], 0) + 1
    if matched == length:
        if len(ctx.samples) < 4 and _held_at_cancel(ev) and \
                case["kind"] not in [s["kind"] for s in ctx.samples]:
            ctx.sample(dict(kind=case["kind"], cancels=case.get("cancels"), point=case.get("point"),
                            ev=_strip(ev)))
        return
    bad = ev[matched]
    cfg = case["cfg"]
    if (cfg.get("silent") is not None and cfg["rw"][cfg["silent"]]
            and why == [["task ended", "error:EtherCatError"]]):
        # A terminal the group asked to go OPERATIONAL has dropped off the bus, and the request back to
        # SAFE-OPERATIONAL in the clean-up is answered by nobody: the task ends with that bus error instead of
        # cancelled, everything else is released.  The property quantifies over cancellation points with working
        # terminals; a bus failure during the clean-up IS another error, so this is counted, not judged.  (The
        # silent READ-ONLY terminal, which the clean-up has nothing to say to, stays judged.)
        obs = ctx.extra.setdefault("observations", {})
        k = "a writer terminal silent during the clean-up: task ends with EtherCatError, resources released"
        obs[k] = obs.get(k, 0) + 1
        return
    fail = dict(case,
                n_cancels=len(cancels),
                cancel_at=[[dict(func=w["func"], line=w["line"], stmt=w["stmt"]) for w in c.get("at", [])]
                           for c in cancels],
                held_at_cancel=[c.get("held") for c in cancels],
                outcome=next((e["outcome"] for e in ev if e["t"] == "done"), None),
                rejected_at=matched, rejected_event=_strip([bad])[0],
                why=why, ev=_strip(ev))
    where = "; ".join("/".join(f"{w['func']}:{w['line']}" for w in c) or "not started"
                      for c in fail["cancel_at"])
    ctx.case_failed(fail, f"{case['kind']} group, cancel() while suspended at [{where}]: trace "
                          f"rejected by Lifecycle at event {matched} ({bad['t']}): {why}")


def run(ctx):
    wd = ctx.workdir()
    started = model_check_start(ctx)
    try:
        from harness import lifecycle as L
        todo = []
        points = {}
        n_extra = 2 if ctx.quick else 8
        configs = async_configs(ctx.quick)
        ctx.extra["gating_configs"] = len(configs)
        ctx.extra["seeded_configs"] = n_extra
        configs += [random_config(ctx.rng) for _ in range(n_extra)]
        silent = silent_configs(ctx.quick)
        ctx.extra["silent_terminal_configs"] = len(silent)
        lossy = lossy_configs(ctx.quick)
        ctx.extra["lost_cyclic_frame_configs"] = len(lossy)
        slow = slow_cleanup_configs(ctx.quick)
        ctx.extra["slow_cleanup_configs"] = len(slow)
        for cfg in configs + silent + lossy + slow:
            ref, cases = run_async_cases(ctx, cfg, depth_rule(ctx.quick, cfg))
            points.setdefault(cfg["kind"], []).append(ref["cancel_iters"][0] + 1)
            todo += cases
            if cfg["kind"] == "fast":
                ctx.extra["fast_program_table"] = "kernel PROG_ARRAY, program really loaded" \
                    if ref.get("kernel") else "dictionary (kernel bpf() not usable)"
        # what happens without the harness translating lookup_elem's KeyError (see assumptions)
        if ctx.extra.get("fast_program_table", "").startswith("kernel"):
            r = L.run_async_kind(next(c for c in async_configs(True) if c["kind"] == "fast"), (),
                                 translate=False)
            ctx.extra["observation_register_sync_group_untranslated"] = \
                next((e["outcome"] for e in r["ev"] if e["t"] == "done"), None)
        todo += run_process_cases(ctx)
    finally:
        model_check_finish(ctx, started)
    # many cancellation sequences leave the same record: TLC judges every distinct record once
    import json
    traces = [dict(kind=c["kind"], ev=_strip(r["ev"])) for c, r in todo]
    keys = [json.dumps(t, sort_keys=True) for t in traces]
    first = {}
    for i, k in enumerate(keys):
        first.setdefault(k, i)
    order = sorted(first.values())
    verdict = dict(zip(order, validate(ctx, wd, [traces[i] for i in order])))
    results = [verdict[first[k]] for k in keys]
    ctx.extra["distinct_records"] = len(order)
    ctx.exhaustive = True
    ctx.extra["cancellation_points_per_config"] = points
    ctx.rule = ("one case = one run of a real sync-group task (slow / fast: one of the listed "
                "terminal configurations, cancel() after exactly k event-loop iterations for every "
                "k up to the end of the second cycle x every later iteration for a second cancel() "
                "[x every iteration later still for a third: at the end of the second cycle; "
                "thorough: every k of the gating configurations]; the same with each terminal in "
                "turn going silent at the first cancel(), with the cyclic frames lost from "
                "the n-th on, and with every frame after the first cancel() taking 0.3-1.1 "
                "virtual seconds; process: one of the named points x optional second cancel()); "
                "non-trivial = the group held something (an FMMU, an unanswered OPERATIONAL "
                "request, its program-table entry, a running child) when cancel() was called")
    ctx.assumptions += [
        "cancellation points are event-loop iterations of the simulated loop (finer than the "
        "task's own awaits); the ready queue runs in asyncio's FIFO order",
        "'asked' = the write to AL control (0x120) reached the simulated terminal; requests still "
        "queued when the task ends are given 0.2 virtual seconds to go out before the judgement",
        "fast kind: ebpfcat.bpf.lookup_elem reports a free table slot as KeyError while "
        "FastEtherCat.register_sync_group waits for OSError(errno 2), so on the unchanged tree no "
        "fast group can be registered at all (task ends with KeyError before any cancellation - "
        "recorded in observation_register_sync_group_untranslated; outside C24).  The harness "
        "translates the KeyError into the OSError the method expects, so that the fast kind can "
        "be examined",
        "process kind: the child runs on a simulated segment of its own (ParallelEtherCat.run is "
        "replaced); a child that goes on cycling for 5 more frames after the parent's task has "
        "ended counts as still running",
    ]
    for (c, r), res in zip(todo, results):
        _judge(ctx, c, r, res)


def replay(ctx, case):
    from harness import lifecycle as L
    wd = ctx.workdir()
    if case["kind"] == "process":
        r = L.run_process_kind(case["cfg"], case["point"], case.get("second"), ctx.workdir("C24-proc"), "r")
    else:
        r = L.run_async_kind(case["cfg"], tuple(case["cancels"]))
    res = validate(ctx, wd, [dict(kind=case["kind"], ev=_strip(r["ev"]))])[0]
    _judge(ctx, dict(kind=case["kind"], cfg=case["cfg"], cancels=case.get("cancels"),
                     point=case.get("point"), second=case.get("second")), r, res)
    print(f"replayed {case['kind']} {case.get('cancels') or case.get('point')}: matched {res[0]} of "
          f"{res[1]} events; {res[2]}")
