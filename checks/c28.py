"""C28 - serial channels transfer bytes exactly once, in order.

Spec: spec/Serial.tla (+ MC_Serial exhaustive, SerialScripts behaviour enumeration, SerialTrace).
Binding: TLC enumerates terminal/application behaviours (initialisation delays, state of the
toggle bits, write gaps, accept delays, announce delays, buffer scribbling).  Each is played cycle
by cycle against the real `Serial.update()` on a real SyncGroup frame: a scripted EL6002 channel
reads the output half of the process image (bits and the 23p string at the offsets of the real
EL6002.Channel layout) and writes the input half; the application side writes to / drains the
device's real pipes.  A share of the behaviours is also played with the sync group pickled into a
really spawned child (as ProcessSyncGroup does) and the application on the streams of the real
Serial.connect() in the creating process (harness/serialrig.py).  TLC validates the recorded run step by step against Serial and requires
that it ends with everything transferred."""
import json
import os
import random

from harness import tlc as T

PROPERTY = "C28"
LEVEL = "model_checking"

TX_SIZES = (1, 2, 7, 21, 22, 23, 30, 44, 45, 50)
RX_SIZES = (0, 1, 5, 21, 22)


def payloads(script, rng):
    """add payload bytes to a timing script (deterministic for a given rng state)"""
    tx = [dict(e, data=list(rng.randbytes(rng.choice(TX_SIZES)))) for e in script["tx"]]
    rx = [dict(e, data=list(rng.randbytes(rng.choice(RX_SIZES)))) for e in script["rx"]]
    return dict(script, tx=tx, rx=rx, junk=list(rng.randbytes(rng.choice((0, 3, 22)))))


from harness.serialrig import drive, drive_spawned   # noqa: E402  (re-exported for replay)


def enumerate_scripts(ctx, wd, K, gaps, maxtx, maxrx, full):
    name = f"scripts_{K}_{maxtx}_{maxrx}_{int(full)}.cfg"
    T.write_cfg(wd, name, f"""SPECIFICATION SSpec
CONSTANTS K = {K}
          Gaps = {{{", ".join(map(str, gaps))}}}
          MaxTx = {maxtx}
          MaxRx = {maxrx}
          FullInit = {"TRUE" if full else "FALSE"}
INVARIANT Emit
CHECK_DEADLOCK FALSE
""")
    res = T.require_clean(T.run(wd, "SerialScripts", name, workers=1, timeout=600), "SerialScripts")
    ctx.tlc_stats(res)
    scripts = [r[0] for r in T.printed_records(res, "SCRIPT")]
    ninit = 4 * (K + 1) ** 2 if full else 4
    per = len(gaps) * (K + 1)
    ntx = sum(per ** i for i in range(maxtx + 1))
    nrx = 1 + 2 * sum((K + 1) ** i for i in range(1, maxrx + 1))
    if len(scripts) != ninit * ntx * nrx:
        raise T.MachineryError(f"SerialScripts: {len(scripts)} scripts, expected {ninit * ntx * nrx}")
    for s in scripts:       # ToJson turns empty sequences into empty arrays; be safe
        s["tx"] = list(s["tx"] or [])
        s["rx"] = list(s["rx"] or [])
    return scripts


def stats(ev):
    pres = sum(1 for e in ev if e["op"] == "t_accept")
    ann = sum(1 for e in ev if e["op"] == "t_announce")
    return pres, ann


def judge(ctx, wd, runs, chunk=4000):
    results = T.validate_traces(ctx, wd, "SerialTrace", "SerialTrace.cfg",
                                [dict(ev=ev) for _, ev in runs], chunk=chunk)
    for (meta, ev), (matched, length, inv) in zip(runs, results):
        ctx.traces += 1
        pres, ann = stats(ev)
        ctx.evaluated(json.dumps(meta, sort_keys=True), nontrivial=pres >= 1 and ann >= 1)
        if pres >= 2 and ann >= 2 and len(ctx.samples) < 2:
            ctx.sample(dict(script=meta, events=len(ev), chunks_accepted=pres, chunks_announced=ann))
        if matched != length or isinstance(inv, str):
            bad = ev[matched] if 0 <= matched < length else None
            case = dict(meta)
            case.update(ev=ev, rejected_at=matched, rejected_event=bad,
                        chunks_accepted=pres, chunks_announced=ann,
                        write_sizes=[len(w["data"]) for w in meta["script"]["tx"]],
                        announce_sizes=[len(r["data"]) for r in meta["script"]["rx"]])
            why = ("the run does not end with everything transferred" if bad and bad["op"] == "end"
                   else f"step {matched} is not a step of Serial: {json.dumps(bad)[:300]}")
            ctx.case_failed(case, f"run rejected: {why}" if bad else f"run rejected: {inv}")


def run(ctx):
    wd = ctx.workdir()
    # 1. the design: exhaustive model check of Serial, and that the full transfer is reachable
    consts = (f"CONSTANTS MaxChunk = 2\n          MaxBytes = {4 if ctx.quick else 5}\n"
              f"          MaxWrite = 3\n          MaxAnn = {2 if ctx.quick else 3}\n")
    T.write_cfg(wd, "mc.cfg", "SPECIFICATION MCSpec\n" + consts + """INVARIANTS TxExactlyOnce
           TxOneToggle
           RxExactlyOnce
           RxOneToggle
           RxStable
PROPERTY TxKept
CHECK_DEADLOCK FALSE
""")
    res = T.require_clean(T.run(wd, "MC_Serial", "mc.cfg", timeout=900, coverage=True), "MC_Serial")
    if not res.ok:
        raise T.MachineryError("Serial.tla violates its own invariants:\n" + res.counterexample())
    ctx.tlc_stats(res)
    ctx.extra["mc_serial"] = dict(distinct=res.distinct, generated=res.generated)
    T.write_cfg(wd, "reach.cfg", "SPECIFICATION MCSpec\n" + consts.replace("MaxBytes = 5", "MaxBytes = 4")
                .replace("MaxAnn = 3", "MaxAnn = 2") + "INVARIANT NotAllDone\nCHECK_DEADLOCK FALSE\n")
    res = T.require_clean(T.run(wd, "MC_Serial", "reach.cfg", timeout=600), "MC_Serial reach")
    if "NotAllDone" not in res.invariant_violated:
        raise T.MachineryError("Serial.tla is vacuous: the complete transfer is not reachable")
    # 2. behaviours from TLC
    if ctx.quick:
        grids = [dict(K=1, gaps=(0, 1), maxtx=1, maxrx=1, full=True),
                 dict(K=1, gaps=(0, 1), maxtx=2, maxrx=2, full=False)]
    else:
        grids = [dict(K=2, gaps=(0, 1, 2), maxtx=1, maxrx=1, full=True),
                 dict(K=2, gaps=(0, 1), maxtx=3, maxrx=2, full=False),
                 dict(K=2, gaps=(0, 2), maxtx=2, maxrx=3, full=False)]
    ctx.extra["grids"] = grids

    # every `stride`-th behaviour of the grids is played a second time with the device in a really
    # spawned child (pickled there, Serial.__getstate__) and the application on Serial.connect()
    stride = 12 if ctx.quick else 40

    def cases():
        det = random.Random(2028)          # payloads of the gating grid do not depend on the seed
        n = 0
        for g in grids:
            for i, s in enumerate(enumerate_scripts(ctx, wd, **g)):
                meta = dict(script=payloads(s, det), ch=1 + i % 2, origin="grid", setup="local")
                yield meta
                n += 1
                if n % stride == 0:
                    yield dict(meta, setup="spawned")
        rng = ctx.rng                      # extra: random behaviours, longer
        for i in range(150 if ctx.quick else 1500):
            K = rng.randint(0, 4)
            s = dict(init=dict(di=rng.randint(0, K), dr=rng.randint(0, K), ta=rng.random() < .5,
                               rr=rng.random() < .5),
                     tx=[dict(gap=rng.randint(0, 3), d=rng.randint(0, K))
                         for _ in range(rng.randint(0, 6))],
                     rx=[dict(gap=rng.randint(0, K)) for _ in range(rng.randint(0, 6))],
                     scribble=rng.random() < .5)
            yield dict(script=payloads(s, rng), ch=rng.choice((1, 2)), origin="random",
                       setup="spawned" if i % 5 == 0 else "local")

    batch, spawned = [], []
    for meta in cases():
        if meta["setup"] == "spawned":
            spawned.append(meta)
            continue
        batch.append((meta, drive(meta["script"], meta["ch"])))
        if len(batch) >= 4000:
            judge(ctx, wd, batch)
            batch = []
    traces = drive_spawned([(m["script"], m["ch"]) for m in spawned])
    batch.extend(zip(spawned, traces))
    ctx.extra["runs_in_spawned_child"] = len(spawned)
    if batch:
        judge(ctx, wd, batch)
    ctx.extra["open_fds_after"] = len(os.listdir("/proc/self/fd"))
    ctx.exhaustive = True
    ctx.rule = ("all terminal/application timing behaviours within "
                + "; ".join(f"[delays 0..{g['K']}, write gaps {set(g['gaps'])}, <= {g['maxtx']} writes, "
                            f"<= {g['maxrx']} announced chunks, {'all' if g['full'] else '4'} init variants]"
                            for g in grids)
                + " (TLC-enumerated), payload sizes drawn from fixed lists incl. 0, 1, 22, 23..50 "
                  "bytes, plus seeded random longer behaviours; every " + str(stride) + "th grid behaviour "
                  "and every 5th random one also with the device pickled into a spawned child and "
                  "the application on Serial.connect(); non-trivial = at least one chunk "
                  "accepted by the terminal and one announced by it")


def replay_case(case):
    if case.get("setup") == "spawned":
        return drive_spawned([(case["script"], case.get("ch", 1))])[0]
    return drive(case["script"], case.get("ch", 1))


def replay(ctx, case):
    """./check C28 --replay <file>: run the case again and let TLC judge it"""
    meta = dict(script=case["script"], ch=case.get("ch", 1), origin=case.get("origin", "replay"),
                setup=case.get("setup", "local"))
    judge(ctx, ctx.workdir(), [(meta, replay_case(case))])
