"""C28 - serial channels transfer bytes exactly once, in order.

Spec: spec/Serial.tla (+ MC_Serial exhaustive, SerialScripts behaviour enumeration, SerialTrace).
Binding: TLC enumerates terminal/application behaviours (initialisation delays, state of the
toggle bits, write gaps, accept delays, announce delays, buffer scribbling).  Each is played cycle
by cycle against the real `Serial.update()` on a real SyncGroup frame: a scripted EL6002 channel
reads the output half of the process image (bits and the 23p string at the offsets of the real
EL6002.Channel layout) and writes the input half; the application side writes to / drains the
device's real pipes.  TLC validates the recorded run step by step against Serial and requires
that it ends with everything transferred."""
import json
import os
import random

from harness import tlc as T

PROPERTY = "C28"
LEVEL = "model_checking"

TX_SIZES = (1, 2, 7, 21, 22, 23, 30, 44, 45, 50)
RX_SIZES = (0, 1, 5, 21, 22)
IDLE_END = 3          # quiet cycles after which a run is considered finished
SLACK = 12            # cycles granted beyond what the script's delays add up to


def payloads(script, rng):
    """add payload bytes to a timing script (deterministic for a given rng state)"""
    tx = [dict(e, data=list(rng.randbytes(rng.choice(TX_SIZES)))) for e in script["tx"]]
    rx = [dict(e, data=list(rng.randbytes(rng.choice(RX_SIZES)))) for e in script["rx"]]
    return dict(script, tx=tx, rx=rx, junk=list(rng.randbytes(rng.choice((0, 3, 22)))))


class Rig:
    """a real Serial device on channel `ch` of a real EL6002 in a real SyncGroup"""

    def __init__(self, ch):
        from ebpfcat.ebpfcat import SimpleEtherCat, SyncGroup
        from ebpfcat.ethercat import SyncManager
        from ebpfcat.serial import Serial
        from ebpfcat.terminals import EL6002
        self.fds = []
        ec = SimpleEtherCat("x")
        term = EL6002(ec)
        term.position = 5
        term.pdo_in_sz = term.pdo_out_sz = 48
        dev = Serial(term.channel1 if ch == 1 else term.channel2)
        self.fds = [dev.in_read, dev.in_write, dev.out_read, dev.out_write]
        self.dev = dev
        sg = SyncGroup(ec, [dev])
        sg.allocate()
        sg.wkc_errors = 0
        sg.asm_packet = sg.packet.assemble(1000, ec.ethertype)
        sg.current_data = bytearray(sg.asm_packet)
        self.sg = sg
        off = 24 * (ch - 1)
        self.i0 = sg.pdo_assign[term][SyncManager.IN] + off      # status byte, then 23p string
        self.o0 = sg.pdo_assign[term][SyncManager.OUT] + off     # control byte, then 23p string
        self.inb = bytearray(24)                                 # the terminal's input half

    def close(self):
        for fd in self.fds:
            try:
                os.close(fd)
            except OSError:
                pass
        self.fds = []

    # the output half as the terminal sees it
    def out(self):
        d = self.sg.current_data
        c = d[self.o0]
        n = d[self.o0 + 1]
        return dict(TR=bool(c & 1), RA=bool(c & 2), IR=bool(c & 4), n=n,
                    outStr=list(d[self.o0 + 2:self.o0 + 2 + min(n, 22)]))

    def set_bits(self, TA=None, RR=None, IA=None):
        for bit, v in ((1, TA), (2, RR), (4, IA)):
            if v is True:
                self.inb[0] |= bit
            elif v is False:
                self.inb[0] &= ~bit & 0xff

    def bit(self, b):
        return bool(self.inb[0] & b)

    def set_string(self, data):
        self.inb[1] = len(data)
        self.inb[2:24] = bytes(data) + bytes(22 - len(data))

    def cycle(self):
        """one bus round trip: the frame comes back with the input half and the counters"""
        fr = bytearray(self.sg.current_data)
        fr[self.i0:self.i0 + 24] = self.inb
        for pos, cnt in self.sg.packet.counters.items():
            fr[pos] = cnt & 0xff
            fr[pos + 1] = cnt >> 8
        self.sg.update_devices(fr)

    def drain(self):
        got = b""
        while True:
            try:
                b = os.read(self.dev.in_read, 4096)
            except BlockingIOError:
                return list(got)
            if not b:
                return list(got)
            got += b


def drive(script, ch=1):
    """play one behaviour; returns the recorded trace (list of events)"""
    rig = Rig(ch)
    try:
        return _drive(rig, script)
    finally:
        rig.close()


def _drive(rig, sc):
    ini = sc["init"]
    ev = []
    # application schedule: absolute cycles of the writes
    at, writes = 0, []
    for w in sc["tx"]:
        at += w["gap"]
        writes.append((at, w["data"]))
    budget = (SLACK + ini["di"] + ini["dr"] + sum(w["gap"] for w in sc["tx"])
              + sum(1 + w["d"] for w in sc["tx"]) * 4 + sum(2 + r["gap"] for r in sc["rx"]))
    # terminal state
    inited = ready = False
    wait_init, wait_ready = ini["di"], ini["dr"]
    seen_tr = False
    n_acc = 0
    wait_acc = None
    rx = list(sc["rx"])
    awaiting, t_ra, wait_ann, scribbled = False, False, None, True
    quiet = 0
    dead = False
    for cyc in range(budget):
        busy = False
        for a, data in writes:
            if a == cyc:
                os.write(rig.dev.out_write, bytes(data))
                ev.append(dict(op="write", data=data))
                busy = True
        o = rig.out()
        # --- the terminal looks at the output half and acts
        if not inited:
            if o["IR"]:
                if wait_init > 0:
                    wait_init -= 1
                else:
                    inited = True
                    rig.set_bits(TA=ini["ta"], RR=ini["rr"], IA=True)
                    seen_tr = o["TR"]
                    ev.append(dict(op="t_initack", TA=ini["ta"], RR=ini["rr"]))
                busy = True
        elif not ready:
            busy = True
            if not o["IR"]:
                if wait_ready > 0:
                    wait_ready -= 1
                else:
                    ready = True
                    rig.set_bits(IA=False)
                    ev.append(dict(op="t_ready"))
        if ready:
            if o["TR"] != seen_tr:
                busy = True
                if wait_acc is None:
                    wait_acc = sc["tx"][n_acc]["d"] if n_acc < len(sc["tx"]) else 0
                if wait_acc > 0:
                    wait_acc -= 1
                else:
                    wait_acc = None
                    n_acc += 1
                    seen_tr = o["TR"]
                    rig.set_bits(TA=not rig.bit(1))
                    ev.append(dict(op="t_accept", took=o["outStr"]))
            free = not awaiting or o["RA"] != t_ra
            if free and awaiting and not scribbled:
                scribbled = True
                if sc["scribble"]:
                    rig.set_string(sc["junk"])
                    ev.append(dict(op="t_scribble", data=sc["junk"]))
            if free and rx:
                busy = True
                if wait_ann is None:
                    wait_ann = rx[0]["gap"]
                if wait_ann > 0:
                    wait_ann -= 1
                else:
                    wait_ann = None
                    data = rx.pop(0)["data"]
                    rig.set_string(data)
                    rig.set_bits(RR=not rig.bit(2))
                    awaiting, t_ra, scribbled = True, o["RA"], False
                    ev.append(dict(op="t_announce", data=data))
            elif not free:
                busy = True
        # --- the bus cycle: the real device updates
        before = o
        try:
            rig.cycle()
        except Exception as e:      # a case result: Serial has no step for it
            ev.append(dict(op="update", res="raise:" + type(e).__name__, TR=False, RA=False,
                           IR=False, outStr=[], got=[]))
            dead = True
            break
        o = rig.out()
        got = rig.drain()
        ev.append(dict(op="update", res="ok" if o["n"] <= 22 else "overlong", TR=o["TR"],
                       RA=o["RA"], IR=o["IR"], outStr=o["outStr"], got=got))
        if (o["TR"], o["RA"], o["IR"]) != (before["TR"], before["RA"], before["IR"]) or got:
            busy = True
        if any(a > cyc for a, _ in writes):
            busy = True
        quiet = 0 if busy else quiet + 1
        if quiet >= IDLE_END:
            break
    if not dead:
        ev.append(dict(op="end", left=len(rx)))     # chunks the terminal never got to announce
    return ev


def enumerate_scripts(ctx, wd, K, gaps, maxtx, maxrx, full):
    name = f"scripts_{K}_{maxtx}_{maxrx}_{int(full)}.cfg"
    T.write_cfg(wd, name, f"""SPECIFICATION SSpec
CONSTANTS K = {K}
          Gaps = {{{", ".join(map(str, gaps))}}}
          MaxTx = {maxtx}
          MaxRx = {maxrx}
          FullInit = {"TRUE" if full else "FALSE"}
INVARIANT Emit
CHECK_DEADLOCK FALSE
""")
    res = T.require_clean(T.run(wd, "SerialScripts", name, workers=1, timeout=600), "SerialScripts")
    ctx.tlc_stats(res)
    scripts = [r[0] for r in T.printed_records(res, "SCRIPT")]
    ninit = 4 * (K + 1) ** 2 if full else 4
    per = len(gaps) * (K + 1)
    ntx = sum(per ** i for i in range(maxtx + 1))
    nrx = 1 + 2 * sum((K + 1) ** i for i in range(1, maxrx + 1))
    if len(scripts) != ninit * ntx * nrx:
        raise T.MachineryError(f"SerialScripts: {len(scripts)} scripts, expected {ninit * ntx * nrx}")
    for s in scripts:       # ToJson turns empty sequences into empty arrays; be safe
        s["tx"] = list(s["tx"] or [])
        s["rx"] = list(s["rx"] or [])
    return scripts


def stats(ev):
    pres = sum(1 for e in ev if e["op"] == "t_accept")
    ann = sum(1 for e in ev if e["op"] == "t_announce")
    return pres, ann


def judge(ctx, wd, runs, chunk=4000):
    results = T.validate_traces(ctx, wd, "SerialTrace", "SerialTrace.cfg",
                                [dict(ev=ev) for _, ev in runs], chunk=chunk)
    for (meta, ev), (matched, length, inv) in zip(runs, results):
        ctx.traces += 1
        pres, ann = stats(ev)
        ctx.evaluated(json.dumps(meta, sort_keys=True), nontrivial=pres >= 1 and ann >= 1)
        if pres >= 2 and ann >= 2 and len(ctx.samples) < 2:
            ctx.sample(dict(script=meta, events=len(ev), chunks_accepted=pres, chunks_announced=ann))
        if matched != length or isinstance(inv, str):
            bad = ev[matched] if 0 <= matched < length else None
            case = dict(meta)
            case.update(ev=ev, rejected_at=matched, rejected_event=bad,
                        chunks_accepted=pres, chunks_announced=ann,
                        write_sizes=[len(w["data"]) for w in meta["script"]["tx"]],
                        announce_sizes=[len(r["data"]) for r in meta["script"]["rx"]])
            why = ("the run does not end with everything transferred" if bad and bad["op"] == "end"
                   else f"step {matched} is not a step of Serial: {json.dumps(bad)[:300]}")
            ctx.case_failed(case, f"run rejected: {why}" if bad else f"run rejected: {inv}")


def run(ctx):
    wd = ctx.workdir()
    # 1. the design: exhaustive model check of Serial, and that the full transfer is reachable
    consts = (f"CONSTANTS MaxChunk = 2\n          MaxBytes = {4 if ctx.quick else 5}\n"
              f"          MaxWrite = 3\n          MaxAnn = {2 if ctx.quick else 3}\n")
    T.write_cfg(wd, "mc.cfg", "SPECIFICATION MCSpec\n" + consts + """INVARIANTS TxExactlyOnce
           TxOneToggle
           RxExactlyOnce
           RxOneToggle
           RxStable
PROPERTY TxKept
CHECK_DEADLOCK FALSE
""")
    res = T.require_clean(T.run(wd, "MC_Serial", "mc.cfg", timeout=900, coverage=True), "MC_Serial")
    if not res.ok:
        raise T.MachineryError("Serial.tla violates its own invariants:\n" + res.counterexample())
    ctx.tlc_stats(res)
    ctx.extra["mc_serial"] = dict(distinct=res.distinct, generated=res.generated)
    T.write_cfg(wd, "reach.cfg", "SPECIFICATION MCSpec\n" + consts.replace("MaxBytes = 5", "MaxBytes = 4")
                .replace("MaxAnn = 3", "MaxAnn = 2") + "INVARIANT NotAllDone\nCHECK_DEADLOCK FALSE\n")
    res = T.require_clean(T.run(wd, "MC_Serial", "reach.cfg", timeout=600), "MC_Serial reach")
    if "NotAllDone" not in res.invariant_violated:
        raise T.MachineryError("Serial.tla is vacuous: the complete transfer is not reachable")
    # 2. behaviours from TLC
    if ctx.quick:
        grids = [dict(K=1, gaps=(0, 1), maxtx=1, maxrx=1, full=True),
                 dict(K=1, gaps=(0, 1), maxtx=2, maxrx=2, full=False)]
    else:
        grids = [dict(K=2, gaps=(0, 1, 2), maxtx=1, maxrx=1, full=True),
                 dict(K=2, gaps=(0, 1), maxtx=3, maxrx=2, full=False),
                 dict(K=2, gaps=(0, 2), maxtx=2, maxrx=3, full=False)]
    ctx.extra["grids"] = grids

    def cases():
        det = random.Random(2028)          # payloads of the gating grid do not depend on the seed
        for g in grids:
            for i, s in enumerate(enumerate_scripts(ctx, wd, **g)):
                yield dict(script=payloads(s, det), ch=1 + i % 2, origin="grid")
        rng = ctx.rng                      # extra: random behaviours, longer
        for i in range(150 if ctx.quick else 1500):
            K = rng.randint(0, 4)
            s = dict(init=dict(di=rng.randint(0, K), dr=rng.randint(0, K), ta=rng.random() < .5,
                               rr=rng.random() < .5),
                     tx=[dict(gap=rng.randint(0, 3), d=rng.randint(0, K))
                         for _ in range(rng.randint(0, 6))],
                     rx=[dict(gap=rng.randint(0, K)) for _ in range(rng.randint(0, 6))],
                     scribble=rng.random() < .5)
            yield dict(script=payloads(s, rng), ch=rng.choice((1, 2)), origin="random")

    batch = []
    for meta in cases():
        batch.append((meta, drive(meta["script"], meta["ch"])))
        if len(batch) >= 4000:
            judge(ctx, wd, batch)
            batch = []
    if batch:
        judge(ctx, wd, batch)
    ctx.extra["open_fds_after"] = len(os.listdir("/proc/self/fd"))
    ctx.exhaustive = True
    ctx.rule = ("all terminal/application timing behaviours within "
                + "; ".join(f"[delays 0..{g['K']}, write gaps {set(g['gaps'])}, <= {g['maxtx']} writes, "
                            f"<= {g['maxrx']} announced chunks, {'all' if g['full'] else '4'} init variants]"
                            for g in grids)
                + " (TLC-enumerated), payload sizes drawn from fixed lists incl. 0, 1, 22, 23..50 "
                  "bytes, plus seeded random longer behaviours; non-trivial = at least one chunk "
                  "accepted by the terminal and one announced by it")


def replay_case(case):
    return drive(case["script"], case.get("ch", 1))


def replay(ctx, case):
    """./check C28 --replay <file>: run the case again and let TLC judge it"""
    meta = dict(script=case["script"], ch=case.get("ch", 1), origin=case.get("origin", "replay"))
    judge(ctx, ctx.workdir(), [(meta, replay_case(case))])
