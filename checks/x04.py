"""X04 - loading, attaching and detaching XDP programs: ebpfcat.xdp XDRFD / XDP._netlink / attach /
detach / run / XDPFlags and ebpfcat.ebpf EBPF.load / close / assemble (+ bpf.prog_load, bpf()).

Spec: spec/XdpLink.tla (the RTM_SETLINK request and the kernel's replies byte by byte, the kernel's
interface state machine KSet, one action per step of the library with the requirements R1..R11
and their sources), MC_XdpLink (exhaustive: a reference client built from guarded XdpLink actions
against every environment - refusals, unrelated messages, failures of prog_load / socket / sendto,
cancellation at any point; no deadlock = the requirements can be met together), XdpLinkScripts /
XdpLinkMsgs (TLC enumerates call sequences x reply kinds x cancellation points, and the
single-call sessions over interface indices and descriptor numbers), XdpLinkTrace (trace
validation, recognises the observations).

Binding: every script is replayed on the REAL XDP object (real XDRFD protocol, real _netlink,
attach, detach, run, EBPF.load / close / assemble, real bpf.prog_load on the real kernel when it is
usable) against harness/xdplink's fake datagram endpoint and fake rtnetlink kernel in virtual time.
Every message sent and delivered, every descriptor opened and closed, every return is a trace
event; TLC validates each trace against XdpLink (the fake kernel is judged by KSet too).
Optional part (skipped when it cannot be set up): harness/xdpreal runs plain scripts over REAL
netlink in a private network namespace (lo + a veth pair); the kernel's verdicts and the interface
state read back with `ip -d link show` are validated by the same specification, i.e. KSet is
compared with the kernel.
Python only drives the real code and records; all judgements are TLC's."""
import json
import os
import subprocess
import sys

from harness import tlc as T

PROPERTY = "X04"
LEVEL = "model_checking"

CHUNK = 300
REPLIES = ("err16", "err1", "stale_ok", "stale_err", "newlink", "noop", "multi", "noise_err", "openfail",
           "sendfail", "loadfail")
QUICK_REPLIES = ("err16", "stale_ok", "stale_err", "newlink", "multi", "noise_err", "openfail", "sendfail",
                 "loadfail")
IFX_PAIRS = ((2, 70000), (255, 256), (65535, 65536), (1, 2147483647), (16777216, 4660))
FD_BASES = (0, 255, 256, 4660)
LOADING = ("load", "attach", "enter")

OBSERVATIONS = {
    "errno_sign": "the OSError raised for a refused request carries the NEGATIVE errno of the netlink "
                  "acknowledgement (e.errno == -16, not errno.EBUSY; `except PermissionError` never matches): "
                  "xdp.py:102-103 OSError(errno, os.strerror(-errno))",
    "anyack": "datagram_received never compares the sequence number and takes ANY message for the outcome: a "
              "message that is not NLMSG_ERROR/DONE completes the call successfully, a stale NLMSG_ERROR decides "
              "it - while the kernel's real answer (possibly a refusal) is never read: xdp.py:95-107",
    "left_attached": "consequence of anyack inside run(): entry raised although the kernel attached the program "
                     "(nothing detaches it), or exit returned although the kernel refused to detach",
    "cancel_enter": "run(): a cancellation while the attach request is under way (it is sent by "
                    "connection_made even when the task is cancelled before) ends the entry with CancelledError "
                    "and the program stays attached for good: xdp.py:291-294 has no detach on that path",
    "reassemble": "EBPF.assemble() runs program() again on every call and APPENDS to self.opcodes: the second "
                  "load()/attach()/run() of one object hands the kernel the program twice over, which the verifier "
                  "refuses (EINVAL, unreachable instructions): ebpf.py:1459; load(log_level=1) followed by "
                  "attach(), or two run() contexts of one object, cannot work",
    "reload": "(latent, seen with prog_load stubbed) EBPF.load() overwrites file_descriptor without closing the "
              "descriptor it holds: ebpf.py:1473",
    "cb_raise": "when the acknowledgement arrives in the same loop iteration after the call was cancelled, "
                "datagram_received calls set_result on the cancelled future and its handler calls set_exception "
                "on it again: InvalidStateError escapes into the event loop's exception handler: xdp.py:106,112",
}


# ---- what TLC enumerates -------------------------------------------------------------------
def tset(xs):
    return "{" + ", ".join(T.tla(x) for x in xs) + "}"


ALL_OPS = ("load", "attach", "detach", "enter", "exit")


def enum_scripts(ctx, maxlen, maxodd, replies=REPLIES, cancels=("1", "2", "3"),
                 slow=("0", "3", "4", "rb", "ra"), targets=(("a", 2), ("b", 4)), oddops=ALL_OPS):
    wd = ctx.workdir()
    with open(f"{wd}/XdpLinkScriptsC.tla", "w") as f:
        f.write("---- MODULE XdpLinkScriptsC ----\nEXTENDS XdpLinkScripts\n"
                f"TargetsD == {tset(targets)}\nRepliesD == {tset(replies)}\nCancelsD == {tset(cancels)}\n"
                f"SlowD == {tset(slow)}\nOddOpsD == {tset(oddops)}\n====\n")
    T.write_cfg(wd, "s.cfg", f"""SPECIFICATION SSpec
CONSTANTS MaxLen = {maxlen}
          MaxOdd = {maxodd}
          Targets <- TargetsD
          Replies <- RepliesD
          Cancels <- CancelsD
          SlowCancels <- SlowD
          OddOps <- OddOpsD
INVARIANT Emit
CHECK_DEADLOCK FALSE
""")
    res = T.require_clean(T.run(wd, "XdpLinkScriptsC", "s.cfg", workers=1, timeout=900), "XdpLinkScripts")
    scripts = [r[0] for r in T.printed_records(res, "SCRIPT")]
    scripts = sorted((s for s in scripts if len(s) == maxlen), key=json.dumps)   # shorter ones are prefixes
    if not scripts:
        raise T.MachineryError("no scripts enumerated")
    return res, scripts


def enum_msgs(ctx):
    wd = ctx.workdir()
    pairs = IFX_PAIRS[:3] if ctx.quick else IFX_PAIRS
    with open(f"{wd}/XdpLinkMsgsC.tla", "w") as f:
        f.write("---- MODULE XdpLinkMsgsC ----\nEXTENDS XdpLinkMsgs\n"
                f"TargetsD == {tset((('a', 2), ('b', 4)))}\nPairsD == {tset(pairs)}\n====\n")
    T.write_cfg(wd, "m.cfg", f"""SPECIFICATION MSpec
CONSTANTS Targets <- TargetsD
          IfxPairs <- PairsD
          FdBases = {tset(FD_BASES)}
INVARIANT EmitMsg
CHECK_DEADLOCK FALSE
""")
    res = T.require_clean(T.run(wd, "XdpLinkMsgsC", "m.cfg", workers=1, timeout=300), "XdpLinkMsgs")
    msgs = sorted((r[0] for r in T.printed_records(res, "MSG")), key=json.dumps)
    if not msgs:
        raise T.MachineryError("no message sessions enumerated")
    return res, msgs


def model_check(ctx):
    wd = ctx.workdir()
    c = dict(MaxCalls=2, Noise=("stale_err",)) if ctx.quick else \
        dict(MaxCalls=3, Noise=("newlink", "stale_err", "noop"))
    T.write_cfg(wd, "mc.cfg", f"""SPECIFICATION MCSpec
CONSTANTS MaxCalls = {c['MaxCalls']}
          NMaps = 1
          Cfg <- CfgD
          Targets <- TargetsD
          FdPool = {{5, 6}}
          Forced = {{16}}
          Noise = {tset(c['Noise'])}
          EnvFail = {{24}}
INVARIANTS OneMode AttachedKnown FdtOk QuietSockets DesignClean TypeOK
""")
    res = T.require_clean(T.run(wd, "MC_XdpLink", "mc.cfg", workers=4, timeout=1500), "MC_XdpLink")
    if not res.ok:
        raise T.MachineryError("XdpLink's reference client violates the specification:\n" + res.counterexample())
    return res, dict(c, distinct=res.distinct, generated=res.generated, FdPool=[5, 6], Forced=[16], EnvFail=[24],
                     interfaces=[[2, False], [70000, True]], targets=[[2, 2], [70000, 4], [2, 4]])


# ---- sessions --------------------------------------------------------------------------------
def cfg_for(pair):
    return [dict(net="a", ifx=pair[0], native=False), dict(net="b", ifx=pair[1], native=True)]


def odd(c):
    return (c["reply"], c["cancel"]) != ("ack", "0")


def build_sessions(ctx, scripts, msgs, scripts3):
    out = []
    # a second load of one object is refused by the real kernel (observation `reassemble`): scripts
    # with two loading calls run with prog_load stubbed, so that what follows the second load is
    # exercised; the plain ones among them run on the real kernel as well (below)
    def loads(s):
        return sum(1 for c in s if c["op"] in LOADING)
    for n, s in enumerate(scripts):
        out.append(dict(kind="script", calls=s, cfg=cfg_for(IFX_PAIRS[n % len(IFX_PAIRS)]),
                        fdbase=FD_BASES[(n // 7) % len(FD_BASES)], stub=loads(s) >= 2))
    for s in scripts3:
        out.append(dict(kind="script3", calls=s, cfg=cfg_for(IFX_PAIRS[0]), fdbase=0, stub=loads(s) >= 2))
    for m in msgs:
        out.append(dict(kind="msg", calls=[dict(op=m["op"], net=m["net"], flags=m["flags"], how="none", reply="ack",
                                                cancel="0")],
                        cfg=cfg_for((m["a"], m["b"])), fdbase=m["fdbase"], stub=False))
    for s in scripts:
        if loads(s) >= 2 and not any(odd(c) for c in s):
            out.append(dict(kind="twoloads", calls=s, cfg=cfg_for(IFX_PAIRS[0]), fdbase=0, stub=False))
    # extra random sessions (not gating the enumeration; judged like the others)
    rng = ctx.rng
    for _ in range(30 if ctx.quick else 400):
        calls, on = [], False
        for _k in range(rng.randint(3, 5)):
            ops = ["load", "close", "attach", "detach"] + (["exit"] if on else ["enter"])
            op = rng.choice(ops)
            c = dict(op=op, net="", flags=0, how="none", reply="ack", cancel="0")
            if op in ("attach", "detach", "enter"):
                c.update(net=rng.choice("ab"), flags=rng.choice((2, 4)))
            if op == "exit":
                c["how"] = rng.choice(("normal", "raise", "cancelled"))
            if op not in ("load", "close") and rng.random() < 0.4:
                r = rng.choice(("reply", "cancel", "slow"))
                if r == "reply":
                    c["reply"] = rng.choice([x for x in REPLIES if x != "loadfail" or op in ("attach", "enter")])
                elif r == "cancel":
                    c["cancel"] = rng.choice(("1", "2", "3"))
                else:
                    c.update(reply="slow", cancel=rng.choice(("0", "3", "4", "rb", "ra")))
            on = op == "enter" or (on and op != "exit")
            calls.append(c)
        out.append(dict(kind="random", calls=calls, stub=rng.random() < 0.5, fdbase=rng.choice((0, 0, 300, 1000)),
                        cfg=cfg_for((rng.choice((1, 2, 3, 300, 65535)), rng.choice((70000, 4, 1 << 24, 2 ** 31 - 1))))))
    return out


def run_session(sess):
    from harness import xdplink as L
    tr = L.run_session(dict(cfg=sess["cfg"], calls=sess["calls"], fdbase=sess["fdbase"]),
                       use_kernel=False if sess["stub"] else None)
    return tr


def validate(ctx, traces):
    """-> [(matched, length)], {trace index: {(event index, class)}}"""
    from concurrent.futures import ThreadPoolExecutor
    parts = [traces[k:k + CHUNK] for k in range(0, len(traces), CHUNK)]
    wds = [ctx.workdir() for _ in parts]

    def one(wd, part):
        path = os.path.join(wd, "traces.json")
        with open(path, "w") as f:
            json.dump([dict(cfg=t["cfg"], nmaps=t["nmaps"], ev=t["ev"]) for t in part], f)
        res = T.run(wd, "XdpLinkTrace", "XdpLinkTrace.cfg", workers=1, timeout=1200, deadlock=False,
                    env={"TRACE_FILE": path})
        if res.error:
            raise T.MachineryError(f"trace validation XdpLinkTrace failed:\n{res.error}\n{res.out[-2000:]}")
        if res.invariant_violated:
            raise T.MachineryError("an invariant of XdpLink fails on a validated trace (the specification "
                                   "contradicts itself):\n" + res.counterexample())
        recs = {r[0]: (r[1], r[2]) for r in T.printed_records(res, "RESULT")}
        if len(recs) != len(part):
            raise T.MachineryError(f"XdpLinkTrace: {len(recs)} results for {len(part)} traces\n{res.out[-3000:]}")
        o = {}
        for i, l, cls in T.printed_records(res, "OBS"):
            o.setdefault(i, set()).add((l, cls))
        return res, [recs[i] for i in range(1, len(part) + 1)], o

    results, obs = [], {}
    with ThreadPoolExecutor(max_workers=5) as ex:
        futs = [ex.submit(one, w, p) for w, p in zip(wds, parts)]
        base = 0
        for f, p in zip(futs, parts):
            res, rs, o = f.result()
            ctx.tlc_stats(res)
            results.extend(rs)
            for i, s in o.items():
                # an observation printed on a path that TLC later abandoned does not count:
                # only those at events the trace actually got past
                obs[base + i - 1] = {(l, c) for l, c in s if l <= rs[i - 1][0]}
            base += len(p)
    return results, obs


# ---- judging ---------------------------------------------------------------------------------
def brief(e):
    if e is None:
        return None
    e = dict(e)
    if "b" in e:
        e["b"] = bytes(x & 255 for x in e["b"]).hex()
    return e


def facts(sess, tr):
    rets = [e["out"] for e in tr["ev"] if e["e"] == "ret"]
    return dict(requests=tr.get("requests", 0), skipped=tr.get("skipped", 0),
                outcomes=[o["res"] + (f":{o['errno']}" if o["res"] == "oserror" else "") for o in rets],
                odd=[[c["op"], c["reply"], c["cancel"]] for c in sess["calls"] if odd(c)])


def judge(ctx, sess, tr, result, obs, tally):
    matched, length = result
    f = facts(sess, tr)
    ctx.traces += 1
    key = (sess["kind"], json.dumps(sess["calls"], sort_keys=True), json.dumps(sess["cfg"]), sess["fdbase"],
           sess["stub"])
    ctx.evaluated(key, nontrivial=f["requests"] >= 1 and (bool(f["odd"]) or len(sess["calls"]) >= 2
                                                           or sess["kind"] == "msg"))
    classes = sorted({c for _, c in obs})
    for c in classes:
        tally["observations"][c] = tally["observations"].get(c, 0) + 1
    k = sess["kind"]
    if matched == length:
        tally["accepted"][k] = tally["accepted"].get(k, 0) + 1
        return True
    tally["rejected"][k] = tally["rejected"].get(k, 0) + 1
    bad = tr["ev"][matched]
    case = dict(kind=k, calls=sess["calls"], cfg=sess["cfg"], fdbase=sess["fdbase"], stub=sess["stub"],
                rejected_at=matched, rejected_kind=bad["e"], rejected_event=brief(bad), observations=classes,
                events=[brief(e) for e in tr["ev"][max(0, matched - 8):matched + 1]], **f)
    what = dict(send="a datagram that is not the well-formed RTM_SETLINK request this call must send (index, "
                     "descriptor, flags, lengths), or sent when none is due, or the fake kernel strayed from KSet",
                recv="the fake kernel delivered something it does not owe (harness)",
                ret="the call's outcome / the object's attributes / what is left open or attached is not what "
                    "the kernel's answer requires",
                load="a load that is not due here", loadfail="a load that is not due here",
                mapload="a map's load() called twice or before the program was loaded",
                open="a socket that is not due here (nothing may be sent after a failed load; AF_NETLINK / "
                     "NETLINK_ROUTE)",
                close="os.close on a descriptor that is not an open program descriptor of the object",
                closenone="os.close(None) while a descriptor is open",
                cberr="an exception escaped from a protocol callback into the event loop",
                sclose="a socket closed twice", call="harness: call while another is in progress",
                cancel="harness").get(bad["e"], bad["e"])
    ctx.case_failed(case, f"{k} session {[(c['op'], c['net'], c['flags'], c['how'], c['reply'], c['cancel']) for c in sess['calls']]} "
                          f"(interfaces {[(c['ifx'], c['native']) for c in sess['cfg']]}, fdbase {sess['fdbase']}"
                          f"{', prog_load stubbed' if sess['stub'] else ''}): event {matched} of {length} rejected: "
                          f"{what}: {brief(bad)}"[:1200])
    return False


# ---- the optional part over real netlink -------------------------------------------------------
def real_part(ctx):
    """-> (traces or None, note)"""
    from harness import core
    env = dict(os.environ, VERIF_XDPREAL_REPO=core.REPO)
    try:
        p = subprocess.run([sys.executable, "-m", "harness.xdpreal"], cwd=T.VERIF, env=env, stdout=subprocess.PIPE,
                           stderr=subprocess.PIPE, text=True, timeout=120)
    except (OSError, subprocess.TimeoutExpired) as e:
        return None, f"not run: {e}"
    if p.returncode != 0:
        return None, "skipped: " + (p.stderr.strip().splitlines() or ["?"])[-1][:200]
    try:
        data = json.loads(p.stdout)
    except ValueError:
        return None, "skipped: unreadable output"
    return data["sessions"], data["note"]


def run(ctx):
    import time
    from concurrent.futures import ThreadPoolExecutor
    t0 = time.time()
    timing = ctx.extra.setdefault("timing_s", {})

    def lap(name):
        timing[name] = round(time.time() - t0, 1)
    with ThreadPoolExecutor(max_workers=5) as ex:
        f_mc = ex.submit(model_check, ctx)
        f_real = ex.submit(real_part, ctx)
        red = (QUICK_REPLIES, ("1", "2"), ("0", "rb", "ra"))
        three = ("attach", "enter", "exit")
        if ctx.quick:
            jobs = [ex.submit(enum_scripts, ctx, 2, 1, *red, oddops=("enter", "exit")),
                    ex.submit(enum_scripts, ctx, 1, 1)]          # single calls: every odd kind, every op
            plain = [ex.submit(enum_scripts, ctx, 3, 0, (), (), (), targets=(("a", 2),))]
        else:
            jobs = [ex.submit(enum_scripts, ctx, 2, 1),                                  # every odd kind, every op
                    ex.submit(enum_scripts, ctx, 2, 2, *red, oddops=three),              # two odd calls
                    ex.submit(enum_scripts, ctx, 3, 1, *red, targets=(("b", 4),), oddops=three)]
            # longer, plain replies only: descriptor reuse, a context between other calls
            plain = [ex.submit(enum_scripts, ctx, 3, 0, (), (), ()),
                     ex.submit(enum_scripts, ctx, 4, 0, (), (), (), targets=(("a", 2),))]
        f_m = ex.submit(enum_msgs, ctx)
        scripts, scripts3, seen = [], [], set()
        for js, dst in ((jobs, scripts), (plain, scripts3)):
            for f in js:
                r, ss = f.result()
                ctx.tlc_stats(r)
                for x in ss:
                    k = json.dumps(x, sort_keys=True)
                    if k not in seen:
                        seen.add(k)
                        dst.append(x)
        r_m, msgs = f_m.result()
        ctx.tlc_stats(r_m)
        lap("enumerated")
        sessions = build_sessions(ctx, scripts, msgs, scripts3)
        traces = [run_session(s) for s in sessions]
        lap("replayed")
        real, note = f_real.result()
        lap("real_netlink")
        if real:
            for r in real:
                sessions.append(dict(kind="real", calls=r["calls"], cfg=r["cfgnames"], fdbase=0, stub=False))
                traces.append(r["trace"])
        results, obs = validate(ctx, traces)
        lap("validated")
        r_mc, info = f_mc.result()
        lap("model_checked")
    ctx.tlc_stats(r_mc)
    ctx.extra["mc_xdplink"] = info
    ctx.extra["real_netlink"] = dict(note=note, sessions=len(real or ()))
    tally = dict(accepted={}, rejected={}, observations={})
    for i, (s, tr, r) in enumerate(zip(sessions, traces, results)):
        good = judge(ctx, s, tr, r, obs.get(i, ()), tally)
        if good and len(ctx.samples) < 4 and s["kind"] in ("script", "real") and \
                (s["kind"] == "real" or any(odd(c) for c in s["calls"])) and i % 97 in (0, 5):
            ctx.sample(dict(kind=s["kind"], calls=s["calls"], events=[brief(e) for e in tr["ev"]][:14],
                            observations=sorted({c for _, c in obs.get(i, ())})))
    ctx.exhaustive = True
    ctx.extra["sessions"] = dict(accepted=tally["accepted"], rejected=tally["rejected"])
    ctx.extra["observations"] = {k: dict(sessions=v, what=OBSERVATIONS.get(k, "?")) for k, v in
                                 sorted(tally["observations"].items())}
    ctx.extra["enumerated"] = dict(scripts=len(scripts), plain_longer_scripts=len(scripts3), message_sessions=len(msgs))
    for k, v in sorted(tally["observations"].items()):
        print(f"OBSERVATION property=X04 {k}: {OBSERVATIONS.get(k, '?')} ({v} sessions)")
    space = ("all call sequences of length 2 (load / close / attach / detach / enter / exit x 2 targets) with at most one "
             "enter / exit answered oddly (9 reply kinds, cancellation after loop iteration 1-2, delayed reply "
             "with cancellation before / after its arrival in the same iteration), all single calls with every odd "
             "kind (11 reply kinds, cancellation after iteration 1-3, delayed reply with 5 cancellation points), all "
             "plain sequences of length 3 on one target") if ctx.quick else \
            ("all call sequences of length 2 with at most one call answered oddly (11 reply kinds, cancellation after "
             "loop iteration 1-3, delayed reply with cancellation while waiting / before / after its arrival), all of "
             "length 2 with up to two odd calls and all of length 3 on one target with one odd call (9 kinds, attach / "
             "enter / exit), all plain sequences of length 3 (two targets) and 4 (one target)")
    ctx.rule = ("sessions of one real XDP object against the fake rtnetlink endpoint: " + space + "; single calls over "
                "interface indices x descriptor numbers; sequences with two loads with prog_load stubbed (the plain "
                "ones on the real kernel too); random longer sessions; plain sessions over real netlink when "
                "available; non-trivial = a request reached the kernel and the session has an odd call, two or more "
                "calls, or is a message session")
    ctx.assumptions.append("one XDP object per session; XDP flag words other than SKB_MODE / DRV_MODE, hardware offload, "
                           "bpf links and several programs on one interface from different objects are outside KSet; "
                           "the fake transport follows asyncio's _SelectorDatagramTransport (Python 3.12) in what it "
                           "schedules when; truncated or corrupt netlink messages are not injected; exhaustive refers "
                           "to the enumerated script space")


def replay(ctx, case):
    sess = dict(kind=case.get("kind", "script"), calls=case["calls"], cfg=case["cfg"], fdbase=case.get("fdbase", 0),
                stub=case.get("stub", False))
    tr = run_session(sess)
    results, obs = validate(ctx, [tr])
    for e in tr["ev"]:
        print("  ", brief(e))
    print("TLC matched", results[0][0], "of", results[0][1], "observations", sorted(obs.get(0, ())))
    judge(ctx, sess, tr, results[0], obs.get(0, ()), dict(accepted={}, rejected={}, observations={}))
