"""X01 - terminal initialisation: what Terminal.initialize / gentle_initialize / apply_eeprom /
write_pdo_sm / set_watchdog and the chain EBPFTerminal.initialize leave in the slave controller.

Spec: spec/EscInit.tla (the ESC's register semantics, the requirements R1-R9 with their sources,
the observations O1-O4), MC_EscInit (a reference master over the ESC, exhaustive), EscInitScripts
(TLC enumerates EEPROM sync-manager categories x call sequences), EscInitTrace (trace validation).

Binding: every script is replayed with the REAL EtherCat / Terminal / EBPFTerminal objects on a
simulated two-terminal segment (harness/simbus + harness/escsim in harness/simloop's virtual time).
Every write access that reaches a terminal is a trace event, every return carries the register file
and the object's attributes; TLC validates each trace against EscInit (post-condition of every
call, frame condition on every write, simulator == specification's register file).  A rejected
trace is validated again under every non-empty subset of the relaxations (O1..O4) whose predicate
TLC computed from the EEPROM (EscInit!Applicable): the smallest accepted subset names the
OBSERVATION (counted in ctx.extra["observations"], exit stays 0); no accepted subset = a violation.
Python only builds images, drives the real code and records; all judgements are TLC's."""
import asyncio
import itertools
import json
import os
import random
import struct
import time

from harness import tlc as T
from harness import simbus, simloop, escsim

PROPERTY = "X01"
LEVEL = "model_checking"

ABS = 20                # the address of ethercat.rst's example: initialize(-1, 20)
STALE_STATION = 0x0123
OTHER_STATION = 0x0777
UNSET = -2
VIEW_FIELDS = ("mbx_out_off", "mbx_out_sz", "mbx_in_off", "mbx_in_sz", "pdo_out_off", "pdo_out_sz",
               "pdo_out_addr", "pdo_in_off", "pdo_in_sz", "pdo_in_addr")


# ---------------------------------------------------------------------------------------------
# from a script to bytes

def concrete_entries(sms, rng=None):
    """abstract entries [type, lenz, en] -> (start, length, control, status, enable, type)"""
    out = []
    for i, e in enumerate(sms):
        t = e["type"]
        if t == 0:
            out.append((0, 0, 0, 0, 0, 0))
            continue
        start = 0x1000 + 0x80 * i
        if rng is not None:
            start = 0x1000 + 0x100 * i + 2 * rng.randrange(0, 32)
        ln = 0
        if e["lenz"]:
            ln = 0x80 if t in (1, 2) else 2 + i
            if rng is not None:
                ln = rng.choice([48, 64, 128]) if t in (1, 2) else rng.randrange(1, 200)
        ctl = {1: 0x26, 2: 0x22, 3: 0x64 if i % 2 else 0x24, 4: 0x20 if i % 2 else 0x00}[t]
        out.append((start, ln, ctl, 0, e["en"], t))
    return out


def category41(entries):
    return b"".join(struct.pack("<HHBBBB", *e) for e in entries)


def pdo_category(base, nbits):
    """one PDO with nbits one-bit entries (category 50 / 51 layout, see spec/SiiImage.tla)"""
    if not nbits:
        return b""
    data = struct.pack("<HBBBBH", base, nbits, 0, 0, 0, 0)
    for k in range(nbits):
        data += struct.pack("<HBBBBH", (0x7000 if base == 0x1600 else 0x6000) + 16 * (k // 8),
                            1 + k % 8, 0, 1, 1, 0)
    return data


def build_image(script, entries):
    head = bytearray(128)
    struct.pack_into("<IIII", head, 16, 2, 0x1b813052, 0x100034, 0)
    cats = [(10, b"\x01\x02X1")]
    if script["has41"]:
        cats.append((41, category41(entries)))
    # the PDO categories are only read by the EBPFTerminal chain (parse_pdos)
    chain = any(c["op"] == "ebpf_initialize" for c in script.get("calls", []))
    if chain and script["outbits"]:
        cats.append((51, pdo_category(0x1600, script["outbits"])))
    if chain and script["inbits"]:
        cats.append((50, pdo_category(0x1a00, script["inbits"])))
    img = bytes(head)
    for t, body in cats:
        body = body + b"\0" * (len(body) % 2)
        img += struct.pack("<HH", t, len(body) // 2) + body
    return img + b"\xff\xff"


def coe_server(script):
    """expedited SDO upload of the PDO assignment (0x1c12 / 0x1c13) and one mapping object each,
    with as many one-bit entries as the script says (the sizes the specification expects)"""
    objs = {}
    for index, base, nbits in ((0x1c12, 0x1600, script["outbits"]), (0x1c13, 0x1a00, script["inbits"])):
        objs[index, 0] = struct.pack("B", 1 if nbits else 0)
        if nbits:
            objs[index, 1] = struct.pack("<H", base)
            objs[base, 0] = struct.pack("B", nbits)
            for k in range(nbits):
                objs[base, k + 1] = struct.pack("<BBH", 1, 1 + k % 8,
                                                (0x7000 if base == 0x1600 else 0x6000) + 16 * (k // 8))
    cnt = [0]

    def server(term, mail):
        ln, addr, chan, typ = struct.unpack_from("<HHBB", mail, 0)
        if typ & 0xf != 3:
            return
        coe, cmd, index, sub = struct.unpack_from("<HBHB", mail, 6)
        cnt[0] = cnt[0] % 7 + 1
        if coe >> 12 == 2 and cmd & 0xe0 == 0x40 and (index, sub) in objs:
            v = objs[index, sub]
            body = struct.pack("<HBHB", 3 << 12, 0x43 | ((4 - len(v)) << 2), index, sub) + v.ljust(4, b"\0")
        else:
            body = struct.pack("<HBHBI", 2 << 12, 0x80, index, sub, 0x06020000)
        term.mbx_post(struct.pack("<HHBB", len(body), 0, 0, 3 | (cnt[0] << 4)) + body)
    return server


def apply_prior(st, prior, rng):
    """the state in which the terminal is found (environment; written straight into the ESC)"""
    struct.pack_into("<H", st.mem, 0x400, 0x09c2)          # the ESC's watchdog defaults
    struct.pack_into("<H", st.mem, 0x410, 1000)
    struct.pack_into("<H", st.mem, 0x420, 1000)
    if prior["station"]:
        struct.pack_into("<H", st.mem, 0x10, STALE_STATION)
    st.al_state = prior["al"]
    if prior["junk"]:
        # sync managers 0 and 1 active with somebody's old configuration (an active sync manager
        # keeps start / length / control when it is overwritten), 2, 3 and 9 configured but off
        for n in (0, 1, 2, 3, 9):
            struct.pack_into("<HHBBBB", st.mem, 0x800 + 8 * n, 0x1800 + 0x40 * n + rng.randrange(8),
                             7 + n, (0x26, 0x22, 0x24, 0x20)[n % 4], 0x30, 1 if n < 2 else 0, 0)
        for i in range(st.mem[4]):
            struct.pack_into("<IHBBHBBB", st.mem, 0x600 + 16 * i, 0x10000 * (i + 1), 4 + i, 0, 7,
                             0x1100 + i, 0, 1 + i % 2, 1)


# ---------------------------------------------------------------------------------------------
# driving the real code

def _exc(e):
    return f"{type(e).__name__}: {e}"[:200]


def _view_int(v):
    if v is None:
        return -1
    if isinstance(v, int) and not isinstance(v, bool) and 0 <= v < 2 ** 31:
        return v
    return -3


def snap_view(t):
    v = {f: (_view_int(getattr(t, f)) if hasattr(t, f) else UNSET) for f in VIEW_FIELDS}
    v["position"] = _view_int(getattr(t, "position")) if hasattr(t, "position") else UNSET
    fu = getattr(t, "fmmu_used", None)
    v["nfmmu"] = len(fu) if isinstance(fu, list) else UNSET
    return v


def drive(script, rng=None, budget=60000):
    """replay one script on the real code; returns the trace for EscInitTrace (+ bookkeeping)"""
    from ebpfcat.ethercat import EtherCat, Terminal
    from ebpfcat.ebpfcat import EBPFTerminal
    prng = random.Random("X01/prior/" + json.dumps(script, sort_keys=True))
    random.seed("X01/free/" + json.dumps(script, sort_keys=True))    # find_free_address uses randint
    entries = script.get("entries") or concrete_entries(script["sms"], rng)
    image = build_image(script, entries)
    journal = []
    st = escsim.EscTerminal("T", fmmus=script["nf"], station=0, journal=journal)
    st.eeprom = image
    other = escsim.EscTerminal("O", fmmus=2, station=OTHER_STATION, journal=journal)
    other.eeprom = build_image(dict(has41=False, outbits=0, inbits=0), [])
    apply_prior(st, script["prior"], prng)
    st.mbx_server = coe_server(script)
    pos = script["pos"]
    terms = [other, st] if pos == 1 else [st, other]
    bus = simbus.SimBus(terms)
    mbx_areas = [(e[0], e[1]) for e in entries if e[5] in (1, 2)]
    ev = []
    trace = dict(ee=dict(has41=script["has41"], d=list(category41(entries)) if script["has41"] else [],
                         outbits=script["outbits"], inbits=script["inbits"], other=OTHER_STATION),
                 relax=[], nf=script["nf"], init=dict(regs=st.regs(), al=st.al_state), ev=ev)
    base_other = other.baseline()
    other_al = other.al_state

    def flush():
        for name, off, data in journal:
            ev.append(dict(k="w", t=0 if name == "T" else 1, ado=off, data=list(data)))
        del journal[:]

    async def main():
        ec = EtherCat('x')
        _, sender = simbus.attach(ec, bus)
        try:
            await calls(ec)
        finally:
            sender.cancel()
            await asyncio.gather(sender, return_exceptions=True)

    async def calls(ec):
        t = Terminal(ec)
        for c in script["calls"]:
            op = c["op"]
            if op == "env_al":
                st.al_state = c["a"]
                ev.append(dict(k="env", what="al", al=c["a"]))
                continue
            if op == "newobj":
                t = Terminal(ec)
                ev.append(dict(k="env", what="newobj", al=0))
                continue
            rel = -pos if c["rel"] else None
            absolute = None
            if c["abs"]:
                absolute = ABS if c["rel"] else st.station
            call = dict(k="call", op=op, has_rel=bool(c["rel"]), has_abs=bool(c["abs"]),
                        abs=absolute if absolute is not None else 0, a=c["a"], b=c["b"])
            ev.append(call)
            base = st.baseline()
            ok, exc = True, None
            try:
                if op == "initialize":
                    await t.initialize(rel, absolute)
                elif op == "gentle":
                    await t.gentle_initialize(rel, absolute)
                elif op == "ebpf_initialize":
                    t = EBPFTerminal(ec)
                    await t.initialize(rel, absolute)
                elif op == "apply_eeprom":
                    await t.apply_eeprom()
                elif op == "write_pdo_sm":
                    t.pdo_out_sz, t.pdo_in_sz = c["a"], c["b"]      # as EBPFTerminal.apply_eeprom does
                    await t.write_pdo_sm()
                elif op == "set_watchdog":
                    await t.set_watchdog(c["a"], c["b"])
                else:
                    raise T.MachineryError(f"unknown op {op}")
            except T.MachineryError:
                raise
            except Exception as e:
                ok, exc = False, _exc(e)
            flush()
            changed = st.untracked_changes(base, ignore=mbx_areas)
            changed += [0x10000 + a for a in range(len(base_other)) if other.mem[a] != base_other[a]] \
                if other.mem != base_other else []
            if other.al_state != other_al:
                changed.append(0x10120)
            r = dict(k="ret", ok=ok, view=snap_view(t), regs=st.regs(), al=st.al_state,
                     other=changed[:20])
            if exc:
                r["exc"] = exc
            ev.append(r)
            if not ok:
                break       # the object is in no defined state any more

    try:
        simloop.run(main, budget=budget)
    except simloop.StallError as e:
        flush()
        ev.append(dict(k="ret", ok=False, view=snap_view(object()), regs=st.regs(), al=st.al_state,
                       other=[], exc="stall: " + str(e)))
    return trace


# ---------------------------------------------------------------------------------------------
# TLC

def enumerate_scripts(ctx, wd, maxsm, maxodd, odd, maxcalls, ncanon, priors, part="both"):
    """-> (scripts of part "eeprom", scripts of part "calls"), each sorted (seed independent)"""
    T.write_cfg(wd, "scripts.cfg", f"""SPECIFICATION SSpec
CONSTANTS Part = "{part}"
          MaxSm = {maxsm}
          MaxOdd = {maxodd}
          Odd = {{{", ".join(map(str, odd))}}}
          MaxCalls = {maxcalls}
          NCanon = {ncanon}
          PriorSel = {{{", ".join(json.dumps(p) for p in priors)}}}
INVARIANT Emit
CHECK_DEADLOCK FALSE
""")
    res = T.require_clean(T.run(wd, "EscInitScripts", "scripts.cfg", workers=1, timeout=600),
                          "EscInitScripts")
    ctx.tlc_stats(res)
    parts = {"eeprom": {}, "calls": {}}
    for part, s in T.printed_records(res, "SCRIPT"):
        parts[part][json.dumps(s, sort_keys=True)] = s
    if any(not parts[p] for p in parts if part in (p, "both")):
        raise T.MachineryError("EscInitScripts printed no script")
    return tuple([parts[p][k] for k in sorted(parts[p])] for p in ("eeprom", "calls"))


def validate(ctx, wd, traces, jobs=4, timeout=1500):
    """-> [(matched, length, applicable observations)] per trace, by EscInitTrace.  The traces are
    split over `jobs` TLC processes (one worker each: the progress registers are per worker)."""
    from concurrent.futures import ThreadPoolExecutor
    if not traces:
        return []
    size = max(50, -(-len(traces) // jobs))
    parts = [(start, traces[start:start + size]) for start in range(0, len(traces), size)]
    stamp = time.time_ns()

    def one(arg):
        start, part = arg
        path = os.path.join(wd, f"traces_{stamp}_{start}.json")
        with open(path, "w") as f:
            json.dump(part, f)
        # operator arguments are re-evaluated instead of cached: TLC validates a cached argument by
        # comparing whole states, which costs far more than these arguments do
        res = T.run(wd, "EscInitTrace", "EscInitTrace.cfg", workers=1, timeout=timeout, deadlock=False,
                    env={"TRACE_FILE": path,
                         "JAVA_TOOL_OPTIONS": "-Dtlc2.value.impl.LazyValue.off=true"
                                              + (" -XX:TieredStopAtLevel=1" if len(part) < 1500 else "")})
        os.remove(path)
        return res

    with ThreadPoolExecutor(max_workers=jobs) as ex:
        ress = list(ex.map(one, parts))
    out = []
    for (start, part), res in zip(parts, ress):
        if res.error or not res.ok:
            raise T.MachineryError(f"EscInitTrace failed:\n{res.error}\n{res.out[-3000:]}")
        ctx.tlc_stats(res)
        recs = {r[0]: r[1:] for r in T.printed_records(res, "RESULT")}
        if len(recs) != len(part):
            raise T.MachineryError(f"EscInitTrace: {len(recs)} results for {len(part)} traces\n"
                                   + res.out[-3000:])
        for i in range(1, len(part) + 1):
            matched, length, appl = recs[i]
            out.append((matched, length, sorted(appl)))
    return out


def model_check(wd):
    """the design: a reference master (one register write per step) against the ESC semantics, from
    every prior state: each call's post-condition and frame condition hold (MC_EscInit)"""
    return T.require_clean(T.run(wd, "MC_EscInit", "mc_escinit.cfg", workers=4, timeout=900), "MC_EscInit")


def script_key(s):
    return json.dumps(s, sort_keys=True)


def sm_blocks(regs):
    """the sync-manager blocks of a register dump that are not all zero, for messages"""
    out = {}
    for n in range(16):
        b = bytes(regs["sm"][n])
        if any(b):
            start, ln, ctl, status, act, pdi = struct.unpack("<HHBBBB", b)
            out[n] = f"{start:#x}+{ln} ctl={ctl:#x} act={act}"
    return out


def describe(trace, matched):
    ev = trace["ev"]
    if matched >= len(ev):
        return "accepted"
    e = ev[matched]
    calls = [x["op"] for x in ev[:matched + 1] if x["k"] == "call"]
    cur = calls[-1] if calls else "?"
    if e["k"] == "w":
        return (f"write of {len(e['data'])} bytes at {e['ado']:#x} to terminal {e['t']} during {cur} "
                f"is outside the registers {cur} may write")
    if e["k"] == "ret":
        if not e["ok"]:
            return f"{cur} failed: {e.get('exc')}"
        return (f"state after {cur} rejected: view={e['view']} other_changed={e['other']} "
                f"al={e['al']} sm={sm_blocks(e['regs'])}")
    return f"event {e} rejected"


def run(ctx):
    wd = ctx.workdir()
    q = ctx.quick
    tm = ctx.extra["phase_wall_s"] = {}
    t0 = [time.time()]

    def lap(name):
        tm[name] = round(time.time() - t0[0], 1)
        t0[0] = time.time()
    # the exhaustive model check of the design runs beside the conformance part
    import threading
    mc = {}
    nent, ncalls, rich = (1, 2, "FALSE") if q else (2, 2, "TRUE")
    T.write_cfg(wd, "mc_escinit.cfg", f"""SPECIFICATION MCSpec
CONSTANTS NSm = 3
          MaxEnt = {nent}
          MaxCalls = {ncalls}
          Rich = {rich}
INVARIANTS RefMeetsPost
           RefInFrame
           MCTypeOK
CHECK_DEADLOCK FALSE
""")

    def mc_run():
        try:
            mc["res"] = model_check(wd)
        except BaseException as e:          # re-raised in the main thread
            mc["exc"] = e
    mc_thread = threading.Thread(target=mc_run)
    mc_thread.start()
    # scripts: EEPROM variety x fixed call sequences, call-sequence variety x canonical EEPROMs
    if q:
        sa, sb = enumerate_scripts(ctx, wd, 2, 1, [1], 2, 2, ["stale8"])
    else:
        sa, sb = enumerate_scripts(ctx, wd, 4, 1, [0, 1, 2], 3, 6, ["stale8"])
        sb += enumerate_scripts(ctx, wd, 4, 1, [0, 1, 2], 2, 6, ["fresh", "stale1", "stale8"], part="calls")[1]
    lap("scripts")
    scripts = [dict(s, part="eeprom") for s in sa] + [dict(s, part="calls") for s in sb]
    ctx.extra["scripts"] = dict(eeprom=len(sa), calls=len(sb))
    cases = [(s, None) for s in scripts]
    # extra cases: random concrete values (addresses, lengths) for randomly chosen scripts
    for i in range(20 if q else 400):
        s = ctx.rng.choice(scripts)
        tag = f"X01/extra/{ctx.seed}/{i}/{ctx.rng.randrange(10 ** 9)}"
        cases.append((dict(s, extra=tag), random.Random(tag)))
    traces = []
    for s, rng in cases:
        sc = {k: v for k, v in s.items() if k not in ("part", "extra")}
        traces.append(drive(sc, rng))
    lap("drive")
    results = validate(ctx, wd, traces, jobs=4 if q else 6)
    lap("validate")
    # second pass: each rejected trace again under every non-empty subset of the relaxations whose
    # predicate holds for its EEPROM; the smallest accepted subset names the observation
    variants = []
    for i, (m, ln, appl) in enumerate(results):
        if m != ln and appl:
            for k in range(1, len(appl) + 1):
                for sub in itertools.combinations(appl, k):
                    variants.append((i, list(sub)))
    res2 = validate(ctx, wd, [dict(traces[i], relax=sub) for i, sub in variants], jobs=4 if q else 6)
    lap("validate_relaxed")
    mc_thread.join()
    lap("mc_escinit_join")
    if "exc" in mc:
        raise mc["exc"]
    if not mc["res"].ok:
        raise T.MachineryError("EscInit.tla: the reference master violates the requirements:\n"
                               + mc["res"].counterexample())
    ctx.tlc_stats(mc["res"])
    ctx.extra["mc_escinit"] = dict(distinct=mc["res"].distinct, generated=mc["res"].generated,
                                   wall_s=round(mc["res"].wall, 1), NSm=3, MaxEnt=nent,
                                   MaxCalls=ncalls, Rich=rich)
    accepted, closest = {}, {}
    for (i, sub), (m2, ln2, _) in zip(variants, res2):
        if m2 == ln2:
            accepted.setdefault(i, sub)         # variants are ordered by size
        elif i not in closest or m2 > closest[i][1]:
            closest[i] = (sub, m2)
    obs = {}
    ctx.rule = ("one evaluation = one script (EEPROM sync-manager category, prior ESC state, call "
                "sequence) replayed on the real Terminal / EBPFTerminal and validated by TLC against "
                "EscInit; non-trivial = the terminal is found with an old active configuration or the "
                "script has at least two calls of the methods under test")
    ctx.exhaustive = True
    for i, ((s, rng), tr, (m, ln, appl)) in enumerate(zip(cases, traces, results)):
        ctx.traces += 1
        ncalls = sum(1 for e in tr["ev"] if e["k"] == "call")
        ctx.evaluated(script_key(s), nontrivial=s["prior"]["junk"] or ncalls >= 2)
        if m == ln:
            continue
        entries = [list(e) for e in concrete_entries(s["sms"], random.Random(s["extra"]) if rng else None)]
        if i in accepted:
            key = "+".join(accepted[i])
            o = obs.setdefault(key, dict(n=0, example=None))
            o["n"] += 1
            if o["example"] is None:
                o["example"] = dict(sms=s["sms"], entries=entries, has41=s["has41"], prior=s["prior"],
                                    calls=[c["op"] for c in s["calls"]], why=describe(tr, m))
            continue
        case = dict(script=s, entries=entries, applicable=appl, rejected_at=m,
                    rejected_event=tr["ev"][m] if m < ln else None, sms=s["sms"], has41=s["has41"],
                    prior=s["prior"], calls=[c["op"] for c in s["calls"]])
        why = describe(tr, m)
        if i in closest:
            sub, m2 = closest[i]
            why += f"; no relaxation among {appl} explains it (with {sub}: rejected at event {m2}: " \
                   + describe(tr, m2) + ")"
        ctx.case_failed(case, why)
    ctx.extra["observations"] = obs
    ctx.extra["bounds"] = dict(
        eeprom_part="categories of <= %d entries, non-zero types distinct, <= 1 entry deviating from "
                    "(length non-zero, enabled), 3 call sequences each" % (2 if q else 4),
        calls_part="all call sequences of length %s over %d canonical categories" % ("2" if q else "3 and 2",
                                                                                 2 if q else 6),
        extra_random_cases=20 if q else 400)
    for tr in traces[:2]:
        ctx.sample(dict(ee=tr["ee"], nf=tr["nf"], init_al=tr["init"]["al"],
                        ev=[e if e["k"] != "w" else dict(e, data=e["data"][:12]) for e in tr["ev"]][:12]))
    ctx.assumptions += [
        "harness/escsim.py is the slave controller (its register file after every call is compared "
        "with the specification's own EscWrite result)",
        "every AL state request is granted at once; the EEPROM interface is never busy (C17 covers it)",
        "EEPROM categories with distinct non-zero sync-manager types; the enable byte is 0 or 1",
    ]


def replay(ctx, case):
    s = {k: v for k, v in case["script"].items() if k not in ("part", "extra")}
    extra = case["script"].get("extra")
    tr = drive(s, random.Random(extra) if extra else None)
    for e in tr["ev"]:
        print(json.dumps(e if e["k"] != "w" else dict(e, data=e["data"][:16]))[:600])
