"""X10 (beyond the listed properties) - how faithful is the verifier model to the real Linux eBPF verifier?

Requirement: SOUNDNESS of the model relative to the kernel on the instruction subset the generator emits:
    the model accepts a program  =>  the running kernel's verifier accepts it.
The converse (model rejects, kernel accepts) is imprecision: counted and classified by the model's rule.

Method: differential testing on single-edit MUTANTS of real generator output.  The C05 corpus (programs built with
the real ebpfcat classes) is the seed set; harness/vmutate.py derives instruction-level mutants that sit near the
verifier's rules (a removed NULL check / packet guard / initialisation / spill, load and store widths and offsets at
the edges, registers exchanged or replaced, re-targeted jumps, other helpers, other ALU operations, LD_IMM64 pseudo
sources, ...), deduplicated by bytecode.  Every mutant gets
    the kernel's verdict   BPF_PROG_LOAD with the verifier log (the judge),
    the model's verdict    spec/Verifier2.tla explored by TLC over all paths, one batched run, rule and pc of every
                           rejected path,
    a machine run          spec/Ebpf.tla on a share of the mutants both accept (a dynamic fault there is reported).
A KERNEL-ONLY REJECT (the model accepts what the kernel refuses) is a VIOLATION line.  The whole unmutated corpus
must stay accepted by the model (no false reject bought by a correction); a false reject there is a VIOLATION too.

spec/Verifier2.tla is spec/Verifier.tla (the model C05 uses, not edited here) plus the corrections found with this
check, each marked `\\* X10:`.  The thorough tier (or X10_MODELS=VerifierT,Verifier2) tabulates the original model as
well, never gating: spec/VerifierT.tla is Verifier.tla with a verdict "no verdict" where it cannot be evaluated;
X10_SCALE=<factor> multiplies the number of mutants per program (hunting runs beyond the tiers);
X10_SPEC_OVERRIDE=<file> replaces Verifier2.tla by a scratch copy (self-test of the check: weakenings of the model
must show up as kernel-only rejects)."""
import collections
import json
import os
import random
import re
import shutil
from concurrent.futures import ThreadPoolExecutor

from harness import tlc as T, kernel, vmutate

PROPERTY = "X10"
LEVEL = "model_checking"
GATE = "Verifier2"
MAPTYPE = dict(hash=1, array=2, prog=3, percpu=6)


def note(ctx, msg):
    if os.environ.get("X10_VERBOSE"):
        import sys
        import time
        print(f"[x10 {time.time() - ctx.t0:6.1f}s] {msg}", file=sys.stderr, flush=True)


# ---- the kernel ------------------------------------------------------------------------------------------

class Maps:
    """real maps for a program's map table, shared between programs with the same table"""
    def __init__(self):
        self.cache = {}

    def fds(self, maps):
        out = []
        for n, m in enumerate(maps):
            k = (n, m["type"], m["ks"], m["vs"], m["max"])
            if k not in self.cache:
                self.cache[k] = kernel.map_create(MAPTYPE[m["type"]], m["ks"], m["vs"], m["max"])
            out.append(self.cache[k])
        return out

    def close(self):
        for fd in self.cache.values():
            try:
                os.close(fd)
            except OSError:
                pass


def kernel_verdict(insns, fds):
    """None = loads; otherwise the verifier's message (the log line before the statistics)"""
    try:
        os.close(kernel.prog_load(vmutate.encode(insns, fds)))
        return None
    except kernel.VerifierReject as e:
        lines = [l for l in e.log.strip().splitlines() if l.strip()]
        while lines and re.match(r"(processed \d+ insns|verification time|stack depth|mark_precise|max_states)", lines[-1]):
            lines.pop()
        loop = [l for l in lines if "infinite loop detected" in l or "back-edge" in l]
        return (loop[-1] if loop else lines[-1] if lines else f"errno {e.errno} (no log)")[:200]


def kernel_class(line):
    """the kernel's message without its numbers, for tabulation"""
    return re.sub(r"-?\b(0x[0-9a-f]+|\d+)\b", "N", re.sub(r"^\d+: \([0-9a-f]{2}\).*", "<insn>", line))[:90]


# ---- the model --------------------------------------------------------------------------------------------

def run_model(ctx, wd, module, cases, tag, workers=2, parallel=8):
    """-> ({case number: sorted [(rule, pc)] ([] = accepted)}, {case number: TLC evaluation error}).
    A case on which the model cannot be evaluated (TLC error) is isolated: recorded and the batch re-run without it."""
    verdict, errors = {}, {}
    # measured: TLC gains little from more than 2-3 workers on these short behaviours; several processes do
    chunk = max(300, -(-len(cases) // parallel))

    def one(start):
        part = list(range(start, min(start + chunk, len(cases))))
        out, err = {}, {}
        for attempt in range(40):
            path = os.path.join(wd, f"{tag}-{module}-{start}-{attempt}.json")
            json.dump([cases[k] for k in part], open(path, "w"))
            try:
                res = T.run(wd, module, module + ".cfg", timeout=1500, deadlock=False, workers=workers,
                            env={"TRACE_FILE": path})
                text, msg = res.out, res.error
            except T.MachineryError as e:                 # harness.tlc raises on some evaluation errors
                if "timed out" in str(e) or "Parsing or semantic" in str(e):
                    raise
                text = msg = str(e)
            os.remove(path)
            if msg:
                note(ctx, f"{module} batch {start} attempt {attempt}: evaluation error")
                m = re.findall(r"\bcid = (\d+)", text)
                if not m:
                    raise T.MachineryError(f"{module} failed:\n" + msg[:3000])
                bad = part[int(m[-1]) - 1]
                why = re.search(r"(Attempted[^\n]*(\n[^\n]*){0,3}|overflow[^\n]*|java\.lang[^\n]*)", text)
                err[bad] = re.sub(r"\s+", " ", why.group(0) if why else msg)[:300]
                part = [k for k in part if k != bad]
                continue
            seen = {}
            for cid, v, why, pc in T.printed_records(res, "VPATH"):
                seen.setdefault(part[cid - 1], set())
                if v == "reject":
                    seen[part[cid - 1]].add((why, pc))
            for k in part:
                out[k] = sorted(seen.get(k, ()))          # no finished path and no rejection: nothing refused
            return out, err, res
        raise T.MachineryError(f"{module}: more than 40 cases of one batch cannot be evaluated: {list(err.items())[:3]}")

    with ThreadPoolExecutor(parallel) as ex:
        for out, err, res in ex.map(one, range(0, len(cases), chunk)):
            verdict.update(out)
            errors.update(err)
            ctx.tlc_stats(res)
    note(ctx, f"{module} done")
    return verdict, errors


def run_machine(ctx, wd, picked, tag):
    """one concrete run of each picked (insns, maps) on spec/Ebpf.tla -> list of final status"""
    cases = []
    for insns, maps in picked:
        cases.append(dict(programs=[insns], entry=1, maps=maps,
                          progs=[[0] * m["max"] if m["type"] == "prog" else [] for m in maps],
                          orc=[[7, 0, 0, 0, 0, 0, 0, 0]] * 8, pkt=list(range(1, 101)),
                          arr=[dict(fd=j + 1, bytes=[0] * m["vs"]) for j, m in enumerate(maps)
                               if m["type"] in ("array", "percpu")], hash=[], fuel=4000))
    status = {}
    CH = max(1, (len(cases) + 3) // 4)

    def one(start):
        path = os.path.join(wd, f"{tag}-run{start}.json")
        json.dump(cases[start:start + CH], open(path, "w"))
        res = T.run(wd, "EbpfRun", "EbpfRun.cfg", timeout=1500, deadlock=False, workers=2, env={"TRACE_FILE": path})
        os.remove(path)
        return start, res
    with ThreadPoolExecutor(4) as ex:
        for start, res in ex.map(one, range(0, len(cases), CH)):
            if res.error:
                # the machine itself could not be evaluated on some program: report, do not judge
                m = re.findall(r"\bcid = (\d+)", res.out)
                status[start + int(m[-1]) - 1 if m else start] = ["machine-error", re.sub(r"\s+", " ", res.error)[:200]]
            ctx.tlc_stats(res)
            for cid, r in T.printed_records(res, "RUN"):
                status[start + cid - 1] = r["st"]
    return [status.get(k) for k in range(len(cases))]


# ---- hand-written witnesses ----------------------------------------------------------------------------------

def witnesses():
    """(label, bytecode, kernel accepts?): programs for corrections of Verifier2 that were derived from the kernel's
    rules but are out of reach of a single edit of generator output (the original model accepts all of them)"""
    from harness.fidelity import ins
    exit0 = ins(0xb7, 0, 0, 0, 0) + ins(0x95)
    guard = ins(0x61, 2, 1, 0) + ins(0x61, 3, 1, 4) + ins(0xbf, 4, 2) + ins(0x07, 4, 0, 0, 8) + ins(0x2d, 4, 3, 2, 0)
    return [
        ("packet pointer re-read from the context after the guard", guard + ins(0x61, 5, 1, 0) + ins(0x71, 0, 5, 0) + exit0, False),
        ("copy of the guarded packet pointer (control)", guard + ins(0xbf, 5, 2) + ins(0x71, 0, 5, 0) + exit0, True),
        ("open comparison end > pkt + 0 proves nothing",
         ins(0x61, 2, 1, 0) + ins(0x61, 3, 1, 4) + ins(0x2d, 3, 2, 1, 0) + ins(0x05, 0, 0, 1) + ins(0x71, 0, 2, 0) + exit0, False),
        ("subtraction from the frame pointer", ins(0xbf, 2, 10) + ins(0x17, 2, 0, 0, 8) + ins(0x7a, 2, 0, 0, 0) + exit0, False),
        ("NEG with the register bit", ins(0xb7, 2, 0, 0, 1) + ins(0x8f, 2, 2) + exit0, False),
        ("64-bit byte swap with a direction bit", ins(0xb7, 2, 0, 0, 1) + ins(0xdf, 2, 0, 0, 16) + exit0, False),
        ("read of xdp_md.egress_ifindex", ins(0x61, 0, 1, 20) + ins(0x95), False),
        ("32-bit arithmetic on xdp_md.data_meta", ins(0x61, 2, 1, 8) + ins(0x04, 2, 0, 0, 1) + exit0, False),
        ("unreachable instruction", ins(0xb7, 0, 0, 0, 0) + ins(0x05, 0, 0, 1) + ins(0xb7, 0, 0, 0, 1) + ins(0x95), False),
        ("range of a scalar does not survive a byte swap",
         ins(0x62, 10, 0, -4, 0) + ins(0x18, 1, 1, 0, 1) + ins(0, 0, 0, 0, 0) + ins(0xbf, 2, 10) + ins(0x07, 2, 0, 0, -4)
         + ins(0x85, 0, 0, 0, 1) + ins(0x55, 0, 0, 1, 0) + ins(0x95) + ins(0xb7, 2, 0, 0, 1) + ins(0xdc, 2, 0, 0, 64)
         + ins(0x0f, 0, 2) + ins(0x71, 0, 0, 0) + exit0, False),
        ("map value + bounded register (control)",
         ins(0x62, 10, 0, -4, 0) + ins(0x18, 1, 1, 0, 1) + ins(0, 0, 0, 0, 0) + ins(0xbf, 2, 10) + ins(0x07, 2, 0, 0, -4)
         + ins(0x85, 0, 0, 0, 1) + ins(0x55, 0, 0, 1, 0) + ins(0x95) + ins(0x71, 2, 0, 0) + ins(0x57, 2, 0, 0, 7)
         + ins(0x27, 2, 0, 0, 4) + ins(0x0f, 0, 2) + ins(0x61, 0, 0, 0) + exit0, True),
        ("map value + bounded register, one byte too far",
         ins(0x62, 10, 0, -4, 0) + ins(0x18, 1, 1, 0, 1) + ins(0, 0, 0, 0, 0) + ins(0xbf, 2, 10) + ins(0x07, 2, 0, 0, -4)
         + ins(0x85, 0, 0, 0, 1) + ins(0x55, 0, 0, 1, 0) + ins(0x95) + ins(0x71, 2, 0, 0) + ins(0x57, 2, 0, 0, 7)
         + ins(0x27, 2, 0, 0, 4) + ins(0x0f, 0, 2) + ins(0x61, 0, 0, 1) + exit0, False),
    ]


WITNESS_MAPS = [dict(type="array", ks=4, vs=32, max=1)]


# ---- the check ----------------------------------------------------------------------------------------------

def select(ctx, items):
    """[(item, number of mutants)]: which programs are mutated and how often.  Deterministic; every source is
    represented; the library's programs, the hash / Dict / sub-program / temporaries programs and the long X08 / C04
    programs (packet access, tail calls, several maps, spills around calls) get the larger share."""
    per = dict(library=(1, 48), extra=(1, 24), X08=(4, 16), C04=(3, 16), C03=(8, 10), C01=(12, 8), C07=(12, 8),
               C06=(6, 8), C02=(6, 8))
    out, seen = [], collections.Counter()
    for it in items:
        step, cnt = per.get(it["source"], (5, 12))
        seen[it["source"]] += 1
        if (seen[it["source"]] - 1) % step == 0:
            # the thorough corpus has about 4.5 times the programs; the few library / extra programs get more each
            out.append((it, cnt if ctx.quick else cnt * 8 if step == 1 else cnt * 2))
    scale = float(os.environ.get("X10_SCALE", "1"))             # exploration beyond the tiers (hunting runs)
    return [(it, max(1, int(cnt * scale))) for it, cnt in out]


def run(ctx):
    from checks import c05
    if not kernel.available():
        raise T.MachineryError("X10 compares the model with the kernel's verifier: bpf() is not usable here")
    # the original model (made total: spec/VerifierT.tla) is tabulated beside the gating one in the thorough tier
    models = [m for m in os.environ.get("X10_MODELS", GATE if ctx.quick else "VerifierT," + GATE).split(",") if m]
    if GATE not in models:
        models.append(GATE)
    wd = ctx.workdir()
    over = os.environ.get("X10_SPEC_OVERRIDE")
    if over:
        shutil.copy(over, os.path.join(wd, GATE + ".tla"))
    # 1. the corpus (deduplicated by bytecode), as C05 builds it
    items, seen = [], set()
    for source, label, builder in c05.corpus(ctx):
        try:
            b = builder(False)
        except Exception:
            continue
        maps = b.tla_maps()
        h = vmutate.key(b.insns, maps)
        if h in seen:
            continue
        seen.add(h)
        items.append(dict(source=source, label=label, insns=b.insns, maps=maps, h=h))
    if not items:
        raise T.MachineryError("empty corpus")
    # 2. mutants: a deterministic, seed-independent set plus extra ones drawn with ctx.rng
    progs_ = [dict(kind="original", source=it["source"], label=it["label"], insns=it["insns"], maps=it["maps"],
                   h=it["h"], edit=None, cls=None) for it in items]
    for it, cnt in select(ctx, items):
        fixed = random.Random(int(it["h"][:8], 16))
        got = vmutate.pick(it["insns"], it["maps"], fixed, cnt, seen)
        got += vmutate.pick(it["insns"], it["maps"], ctx.rng, max(1, cnt // 6), seen)
        for cls, what, new in got:
            progs_.append(dict(kind="mutant", source=it["source"], label=it["label"], insns=new, maps=it["maps"],
                               h=vmutate.key(new, it["maps"]), edit=what, cls=cls, of=it["h"]))
    from harness import bpfdecode
    nwit = 0
    for label, code, ok in witnesses():
        insns = bpfdecode.split(code)
        progs_.append(dict(kind="witness", source="witness", label=label, insns=insns, maps=WITNESS_MAPS,
                           h=vmutate.key(insns, WITNESS_MAPS), edit="hand-written", cls="witness", expect=ok))
        nwit += 1
    note(ctx, f"{len(items)} programs, {len(progs_) - len(items) - nwit} mutants, {nwit} witnesses")
    # 3. the kernel's verdict on everything
    mp = Maps()
    try:
        for p in progs_:
            p["kernel"] = kernel_verdict(p["insns"], mp.fds(p["maps"]))
    finally:
        mp.close()
    wrong = [p["label"] for p in progs_ if p["kind"] == "witness" and (p["kernel"] is None) != p["expect"]]
    if wrong:
        raise T.MachineryError(f"the kernel does not judge the hand-written witnesses as recorded: {wrong}")
    note(ctx, "kernel verdicts done")
    # 4. the models, one batched TLC run per chunk
    cases = [dict(programs=[p["insns"]], entry=1, maps=p["maps"]) for p in progs_]
    verdicts = {}
    with ThreadPoolExecutor(len(models)) as ex:
        futs = {m: ex.submit(run_model, ctx, wd, m, cases, "m", 2, 8 if len(models) == 1 else 5) for m in models}
        for m, f in futs.items():
            verdicts[m] = f.result()
    note(ctx, "models done: " + ", ".join(f"{m}: {len(verdicts[m][1])} evaluation errors" for m in models))
    # 5. tabulate
    tables = {}
    for m in models:
        verdict, errors = verdicts[m]
        tab = dict(both_accept=0, both_reject=0, model_only_reject=0, kernel_only_reject=0, model_error=0)
        by_rule, by_class, ko, noverdict = collections.Counter(), {}, [], []
        orig = dict(both_accept=0, both_reject=0, model_only_reject=0, kernel_only_reject=0, model_error=0)
        for k, p in enumerate(progs_):
            t = orig if p["kind"] == "original" else tab
            if k in errors or any(why in ("MODEL-ERROR", "MODEL-LOOP") for why, _ in verdict[k]):
                errors.setdefault(k, "MODEL-LOOP: backward jump, outside the original model's domain (spec/VerifierT.tla)"
                                  if any(why == "MODEL-LOOP" for why, _ in verdict[k]) else
                                  "MODEL-ERROR: the model cannot be evaluated on this program (spec/VerifierT.tla)")
                t["model_error"] += 1
                cat = "model_error"
            else:
                mrej, krej = verdict[k], p["kernel"]
                cat = ("both_accept" if not mrej and krej is None else "both_reject" if mrej and krej is not None
                       else "model_only_reject" if mrej else "kernel_only_reject")
                t[cat] += 1
            if p["kind"] != "original":
                by_class.setdefault(p["cls"], collections.Counter())[cat] += 1
                if cat == "model_only_reject":
                    by_rule[verdict[k][0][0]] += 1
            if m == GATE:
                p["cat"], p["model"] = cat, (errors.get(k) if k in errors else verdict[k])
            if cat == "kernel_only_reject":
                ko.append(k)
            elif cat == "model_error" and p["kernel"] is not None:
                noverdict.append(k)
        tables[m] = dict(mutants=tab, unmutated_corpus=orig, imprecision_by_model_rule=dict(by_rule.most_common()),
                         by_edit_class={c: dict(v) for c, v in sorted(by_class.items())},
                         model_error_kinds=dict(collections.Counter(str(e)[:11] for e in errors.values())),
                         kernel_only_by_kernel_message=dict(collections.Counter(
                             kernel_class(progs_[k]["kernel"]) for k in ko).most_common(40)),
                         kernel_only_by_edit_class=dict(collections.Counter(progs_[k]["cls"] for k in ko).most_common()),
                         no_model_verdict_kernel_rejects_by_kernel_message=dict(collections.Counter(
                             kernel_class(progs_[k]["kernel"]) for k in noverdict).most_common(12)))
        if m != GATE:
            first = {}
            for k in ko:                                   # one example per kernel message
                first.setdefault(kernel_class(progs_[k]["kernel"]), k)
            tables[m]["kernel_only_examples"] = [
                dict(source=progs_[k]["source"], program=progs_[k]["label"][:100], edit=progs_[k]["edit"],
                     kernel=progs_[k]["kernel"]) for k in list(first.values())[:40]]
    # 6. judge with the gating model
    for k, p in enumerate(progs_):
        ctx.traces += 1
        ctx.evaluated(p["h"], nontrivial=len(p["insns"]) > 6)
        if p["cat"] == "kernel_only_reject":
            ctx.case_failed(dict(kind="kernel-only reject", source=p["source"], program=p["label"][:300], edit=p["edit"],
                                 edit_class=p["cls"], kernel=p["kernel"], kernel_class=kernel_class(p["kernel"]),
                                 model="accepts", maps=p["maps"], listing=vmutate.listing(p["insns"])),
                            f"UNSOUND: {GATE} accepts what the kernel rejects: [{p['source']}] {p['label'][:120]} with "
                            f"{p['edit']}: kernel says: {p['kernel']}")
        elif p["cat"] == "model_error":
            ctx.case_failed(dict(kind="model cannot be evaluated", source=p["source"], program=p["label"][:300],
                                 edit=p["edit"], edit_class=p["cls"], kernel=p["kernel"], model=p["model"],
                                 maps=p["maps"], listing=vmutate.listing(p["insns"])),
                            f"{GATE} cannot be evaluated (TLC error) on [{p['source']}] {p['label'][:120]} with "
                            f"{p['edit']}: {p['model']}")
        elif p["cat"] == "model_only_reject" and p["kind"] == "original":
            ctx.case_failed(dict(kind="false reject of a generator program", source=p["source"], program=p["label"][:300],
                                 kernel="accepts", model=[list(x) for x in p["model"]], maps=p["maps"],
                                 listing=vmutate.listing(p["insns"])),
                            f"{GATE} rejects an unmutated generator program the kernel accepts: [{p['source']}] "
                            f"{p['label'][:120]}: {p['model']}")
    # 7. the machine on a share of the mutants both accept
    both = [p for p in progs_ if p["kind"] == "mutant" and p["cat"] == "both_accept"]
    share = both[::max(1, len(both) // (160 if ctx.quick else 2400))]
    st = run_machine(ctx, wd, [(p["insns"], p["maps"]) for p in share], "mach")
    faults = collections.Counter()
    fault_examples = []
    for p, s in zip(share, st):
        if s != ["exit"]:
            kind = json.dumps(s)
            faults[kind] += 1
            if len([1 for e in fault_examples if e["machine"] == s]) < 2:
                fault_examples.append(dict(program=p["label"][:100], edit=p["edit"], machine=s))
    for j in range(0, len(progs_), max(1, len(progs_) // 5)):
        p = progs_[j]
        ctx.sample(dict(kind=p["kind"], source=p["source"], program=p["label"][:120], edit=p["edit"],
                        kernel=p["kernel"] or "accepts", model=p["model"] or "accepts"))
    ctx.exhaustive = False
    ctx.rule = ("the distinct programs of the C05 corpus and single-edit mutants of them (harness/vmutate.py: a "
                "deterministic class-balanced sample per program plus extra ones from VERIF_SEED), deduplicated by "
                "bytecode; each judged by the kernel verifier and by the model over all paths; non-trivial = more than "
                "6 instructions")
    ctx.extra.update(gating_model=GATE if not over else f"{GATE} replaced by {over}", programs=len(items),
                     mutants=len(progs_) - len(items) - nwit, witnesses=nwit,
                     agreement=tables[GATE]["mutants"], imprecision_by_rule=tables[GATE]["imprecision_by_model_rule"],
                     tables=tables,
                     machine=dict(run_on_both_accept_mutants=len(share), exited=len(share) - sum(faults.values()),
                                  other_status=dict(faults), examples=fault_examples[:12]),
                     observations=sum(faults.values()))
    ctx.assumptions += [
        "the running kernel's verifier (root: pointer leaks, uninitialised stack reads and bounded loops allowed) is the "
        "reference; the model is required to be sound relative to it, not complete",
        "mutants keep the encoding well-formed (unused fields zero): reserved-field rules of the kernel are not exercised",
        "maps are created per map table as plain hash / array / prog-array / per-CPU array maps of the recorded sizes"]
