"""X09 - the bundled terminal classes against real device descriptions.

Spec: spec/TermDecl.tla (PDO descriptions of a device from its SII categories 50 / 51 and from its CoE
objects 0x1C12 / 0x1C13 / 0x16xx / 0x1Axx, the layout they imply, what a ProcessDesc / PacketDesc may
resolve to, fit, overlap, sizes, table; requirements R1-R9 with their sources), MC_TermDecl (exhaustive:
consequences T1-T8 of the definitions on all small descriptions, incl. round trips through both
encodings and agreement with the C17 decoder), TermDeclScripts (TLC enumerates PDO assignments a device
offers and probe declarations on every mapped entry), TermDeclEval (TLC decodes the REAL EEPROM images
and dictionary records of ebpfcat/testdata.py and judges every run).

Binding: harness/termsim.py serves each record from a simulated terminal (image through the SII
registers, dictionary through the CoE server) on harness/simbus; the REAL classes of ebpfcat.terminals
run their real initialize (read_eeprom, apply_eeprom, write_pdos, parse_pdos, write_pdo_sm, parse_sdos)
on a real EtherCat object inside harness/simloop, all terminals of a segment concurrently; every
declaration is resolved through the real descriptors.  Families of runs:
  every bundled class x every record (matching pairs are judged in full, a class whose compatibility
  excludes the device must refuse it), Generic with every TLC-enumerated assignment, a probe class of
  TLC-generated declarations per record, Generic on derived no-mailbox variants of the records that carry
  PDO categories (the only way to exercise the SII source on PDO lists with not-assigned PDOs), and for
  every matching pair a REAL slow SyncGroup cycle on the segment with every declared variable linked to a
  device: what it reads from a random input area and what its writes do to the device's output area (R10,
  judged with ProcVar.tla).
Python drives and records; every verdict is printed by TLC."""
import json
import os
import threading
import time

from harness import tlc as T
from harness import termsim as TS

PROPERTY = "X09"
LEVEL = "model_checking"

OBSERVATIONS = {
    "sm255": "Terminal.parse_pdos (ethercat.py:671-681, parse_eeprom) ignores the sync-manager field of an SII PDO: "
             "PDOs that are not assigned (0xFF) are laid out too - offsets, pdo_in_sz / pdo_out_sz and the "
             "sync-manager length are those of all PDOs of the category (only the SII source, i.e. terminals "
             "without mailbox; seen on the no-mailbox variants derived from the EL3164 record)",
    "service-absent": "EL6022.Channel inherits enableRtsCts = ServiceDesc(0x8000, 1) from EL6002.Channel "
                      "(terminals.py:168, 187-190); the recorded EL6022 dictionary has no entry 0x8000:01 / 0x8010:01",
    "bitrel": "ProcessDesc.__get__ (ebpfcat.py:119-122) takes an integer override as bit n of the byte in which the "
              "entry starts; the documentation says 'the position of the bit in the parameter'.  The two differ for "
              "an entry that does not start on a byte boundary (TLC-generated probe declarations on the sub-byte "
              "entries of the records); no bundled class declares an override on such an entry",
}
FIT_ACCEPTED = {"exact", "bit", "narrow", "view", "packet", "partial"}


# ---------------------------------------------------------------------------------------------
def tlc_json(ctx, module, cfg_text, data, tag, timeout=600, workers=1):
    wd = ctx.workdir()
    path = os.path.join(wd, f"{tag}.json")
    with open(path, "w") as f:
        json.dump(data, f)
    T.write_cfg(wd, f"{tag}.cfg", cfg_text)
    res = T.run(wd, module, f"{tag}.cfg", workers=workers, timeout=timeout, deadlock=False,
                env={"TRACE_FILE": path})
    if res.error:
        raise T.MachineryError(f"{module} failed:\n{res.error[:3000]}\n{res.out[-2000:]}")
    return res


def model_check(ctx):
    if ctx.quick:
        consts = dict(MaxPdos=2, MaxEnts=2, Objs="{24576}", Subs="{1}", Widths="{1, 3, 16}")
    else:
        consts = dict(MaxPdos=2, MaxEnts=2, Objs="{24576, 24592}", Subs="{1, 2}", Widths="{1, 3, 8, 16}")
    wd = ctx.workdir()
    T.write_cfg(wd, "mc.cfg", "SPECIFICATION Spec\nCONSTANTS " +
                "\n          ".join(f"{k} = {v}" for k, v in consts.items()) +
                "\nINVARIANTS T1_Contiguous T2_Inside T3_SiiRoundTrip T4_CoERoundTrip T5_AgreesC17 T6_Defaults "
                "T7_BitInside T8_Unassigned LayIsLayout\nCHECK_DEADLOCK FALSE\n")
    res = T.require_clean(T.run(wd, "MC_TermDecl", "mc.cfg", workers=4, timeout=900, deadlock=False), "MC_TermDecl")
    return res, consts


def device_cases(records):
    """the device descriptions: every record, and the no-mailbox variant of every record that has both
    mailboxes and PDO categories"""
    cases, meta = [], []
    for i, rec in enumerate(records):
        cases.append(TS.case_of(rec))
        meta.append(dict(record=i, variant="native", rec=rec))
    for i, rec in enumerate(records):
        cats = dict(TS.categories(rec["eeprom"]))
        sm = cats.get(41, b"")
        modes = {sm[8 * k + 4] & 0xf for k in range(len(sm) // 8)}
        if {2, 6} <= modes and (50 in cats or 51 in cats):
            v = TS.nomailbox_variant(rec)
            cases.append(TS.case_of(v))
            meta.append(dict(record=i, variant="nomailbox", rec=v))
    return cases, meta


def scripts(ctx, cases):
    total = 1 if ctx.quick else 3
    res = tlc_json(ctx, "TermDeclScripts",
                   f"SPECIFICATION Spec\nCONSTANTS MaxTotal = {total}\nINVARIANT Emit\nCHECK_DEADLOCK FALSE\n",
                   dict(cases=[dict(c, runs=[]) for c in cases], classes=[]), "scripts")
    asg = [dict(case=r[0] - 1, out=list(r[2]) if r[1] else None, inp=list(r[4]) if r[3] else None)
           for r in T.printed_records(res, "ASSIGN")]
    probes = {}
    for k, idx, sub, bits, ov in T.printed_records(res, "PROBE"):
        probes.setdefault(k - 1, []).append((idx, sub, dict(k=ov["k"], n=ov["n"], c=list(ov["c"])), bits))
    asg.sort(key=lambda a: json.dumps(a, sort_keys=True))
    for v in probes.values():
        v.sort(key=lambda p: json.dumps(p, sort_keys=True))
    return res, asg, probes, total


def judge(ctx, cases, classes, tag):
    """TLC (TermDeclEval) on the cases with their runs -> (res, {(case, run): verdict}, device remarks, statics)"""
    res = tlc_json(ctx, "TermDeclEval", "SPECIFICATION Spec\nCHECK_DEADLOCK FALSE\n",
                   dict(cases=cases, classes=classes), tag, timeout=1500)
    verdicts = {(c - 1, r - 1): v for c, r, v in T.printed_records(res, "RUN")}
    want = sum(len(c["runs"]) for c in cases)
    if len(verdicts) != want:
        raise T.MachineryError(f"TermDeclEval: {len(verdicts)} verdicts for {want} runs\n{res.out[-2000:]}")
    devices = {c - 1: v for c, v in T.printed_records(res, "DEVICE")}
    statics = [(name, list(v)) for _, name, v in T.printed_records(res, "STATIC")]
    shared = T.printed_records(res, "SHARED")
    return res, verdicts, devices, statics, shared


def chunks(xs, n):
    return [xs[i:i + n] for i in range(0, len(xs), n)]


# ---------------------------------------------------------------------------------------------
def classify(ctx, fam, cm, run, v, tally, remarks):
    """one judged run -> failures / observations.  fam: family of the run, cm: meta of its case"""
    cls = run["cls"]["name"]
    base = dict(family=fam, record=cm["record"], variant=cm["variant"], cls=cls,
                out_pdos=run["outp"]["pdos"] if run["outp"]["set"] else None,
                in_pdos=run["inp"]["pdos"] if run["inp"]["set"] else None,
                init=run["init"], source=v.get("source"))

    def fail(code, what, **kw):
        case = dict(base, code=code, **kw)
        if code in OBSERVATIONS and observation_applies(code, case):
            tally[code] = tally.get(code, 0) + 1
            if code not in remarks["observation_samples"]:
                remarks["observation_samples"][code] = case
            return
        ctx.case_failed(case, f"{cls} on record {cm['record']} ({cm['variant']}): {what}")

    if not v["wf"] and not v["matching"]:
        return          # a class that is not made for this device, on a description its assignment does not fit
    if not v["wf"]:
        raise T.MachineryError(f"TLC calls the description of record {cm['record']} ({cm['variant']}) with the "
                               f"assignment {base['out_pdos']} / {base['in_pdos']} ill-formed")
    if v["init"] not in ("ok", "refused"):
        fail("init-" + v["init"], f"initialize: {v['init']} ({run['init']['exc']})")
    for key in ("table", "sizes", "regs"):
        if v[key] not in ("ok", "n/a"):
            fail("sm255" if v[key] == "sm255" else key + "-bad",
                 f"{key} disagrees with the device's description (expected {v['outbits']} / {v['inbits']} bits; "
                 f"parse_pdos returned {run["bits"]}, sizes {run["sizes"]})", part=key, verdict=v[key],
                 bits=run["bits"], sizes=run["sizes"], expected_bits=[v["outbits"], v["inbits"]])
    if v["assign"] not in ("ok", "n/a"):
        fail("assign-" + v["assign"], f"the assignment {base['out_pdos']} / {base['in_pdos']}: {v['assign']} "
             f"(0x1C12 / 0x1C13 afterwards: {run['assigned']})", assigned=run["assigned"])
    for d, (code, fit), sign in zip(run["decls"], v["decls"], v["signs"]):
        dd = dict(decl=d["name"], kind=d["kind"], index=d["idx"] + d["off"], sub=d["sub"], ov=d["ov"], res=d["res"])
        if code not in ("ok", "free"):
            fail(code if code in ("bitrel", "sm255") else "decl-" + code,
                 f"{d['name']} = {d['kind']}({d['idx'] + d['off']:#x}, {d['sub']:#x}, {d['ov']}) resolved to "
                 f"{d['res']}: {code}", **dd)
        elif code == "ok" and not run["probe"] and fit not in FIT_ACCEPTED:
            fail("fit-" + fit, f"{d['name']} covers more / else than its entry: {fit} ({d['res']})", fit=fit, **dd)
        if code == "ok" and fam == "class":
            remarks["fits"][fit] = remarks["fits"].get(fit, 0) + 1
            if fit in ("view", "partial", "narrow"):
                remarks["views"].add(f"{cls}.{d['name']}:{fit}")
        if sign and not run["probe"]:
            remarks["signed_as_unsigned"].add(f"{cls}.{d['name']}")
    for i, j in sorted(tuple(p) for p in v["overlaps"]):
        a, b = run["decls"][i - 1], run["decls"][j - 1]
        fail("overlap", f"{a['name']} ({a['res']}) and {b['name']} ({b['res']}) share bits, neither contains the other",
             a=a["name"], b=b["name"], ares=a["res"], bres=b["res"])
    if fam == "cycle":
        cy = run["cycle"]
        if not v["cycle"]["done"]:
            fail("cycle-incomplete", f"the sync-group cycle did not complete: {cy['exc']}", exc=cy["exc"])
        for rd, code in zip(cy["reads"], v["cycle"]["reads"]):
            d = run["decls"][rd["k"] - 1]
            remarks["cycle"][code] = remarks["cycle"].get(code, 0) + 1
            if code not in ("ok", "out", "unjudged"):
                fail("read-" + code, f"{d['name']} ({d['res']}) read {rd['val']} from the input area {cy['inimg']}",
                     decl=d["name"], res=d["res"], val=rd["val"], inimg=cy["inimg"])
        for wr, code in zip(cy["writes"], v["cycle"]["writes"]):
            d = run["decls"][wr["k"] - 1]
            remarks["cycle"]["w-" + code] = remarks["cycle"].get("w-" + code, 0) + 1
            if code not in ("ok", "unjudged"):
                fail("write-" + code, f"writing {wr['val']} to {d['name']} ({d['res']}) turned the output area "
                     f"{wr['before']} into {wr['after']} ({wr['status']})", decl=d["name"], res=d["res"], val=wr["val"],
                     before=wr["before"], after=wr["after"], status=wr["status"])
    for s, ok in zip(run["svcs"], v["svcs"]):
        if not ok:
            fail("service-absent", f"{s['name']} = ServiceDesc({s['idx'] + s['off']:#x}, {s['sub']:#x}) is not in the "
                 "device's dictionary", svc=s["name"], index=s["idx"] + s["off"], sub=s["sub"])


def observation_applies(code, case):
    """the exact predicate of each observation"""
    if code == "sm255":
        return case["variant"] == "nomailbox" and case["source"] == "sii" and \
            (case.get("verdict") == "sm255" or "decl" in case)
    if code == "service-absent":
        return case["cls"] == "EL6022" and case["sub"] == 1 and case["index"] in (0x8000, 0x8010)
    if code == "bitrel":
        return case["cls"] == "Probe" and case["ov"]["k"] == "bit" and case["res"]["status"] == "ok" \
            and case["res"]["bit"] == case["ov"]["n"]
    return False


# ---------------------------------------------------------------------------------------------
def run(ctx):
    t00 = time.time()
    tm = ctx.extra["phase_wall_s"] = {}
    records = TS.load_records()
    classes = TS.bundled_classes()
    infos = [TS.class_info(c) for c in classes]
    cases, meta = device_cases(records)
    tally, errors, side = {}, [], {}
    remarks = dict(fits={}, views=set(), signed_as_unsigned=set(), observation_samples={}, cycle={})

    def guarded(fn):
        def w():
            try:
                fn()
            except BaseException as e:
                errors.append(e)
        t = threading.Thread(target=w)
        t.start()
        return t

    # ---- thread 1: the definitions on all small descriptions
    def th_mc():
        t0 = time.time()
        side["mc"] = model_check(ctx)
        tm["mc"] = round(time.time() - t0, 1)

    # ---- thread 2: TLC-generated assignments and probes, replayed, judged
    def th_scripts():
        t0 = time.time()
        res, asg, probes, total = scripts(ctx, cases)
        tm["scripts"] = round(time.time() - t0, 1)
        t0 = time.time()
        from ebpfcat.terminals import Generic
        sc = [dict(c, runs=[]) for c in cases]
        fam = {}
        for part in chunks(asg, 8):
            runs = TS.run_segment([dict(record=meta[a["case"]]["rec"], cls=Generic, out_pdos=a["out"], in_pdos=a["inp"])
                                   for a in part])
            for a, r in zip(part, runs):
                fam[a["case"], len(sc[a["case"]]["runs"])] = "assignment"
                sc[a["case"]]["runs"].append(r)
        items = []
        for k in sorted(probes):
            if meta[k]["variant"] != "native":          # the variants are for the table rule only
                continue
            items.append((k, dict(record=meta[k]["rec"], cls=TS.probe_class([p[:3] for p in probes[k]]), probe=True)))
        for (k, _), r in zip(items, TS.run_segment([it for _, it in items])):
            fam[k, len(sc[k]["runs"])] = "probe"
            sc[k]["runs"].append(r)
        tm["scripts_replay"] = round(time.time() - t0, 1)
        t0 = time.time()
        side["scripts"] = (res, asg, probes, total, sc, fam, judge(ctx, sc, [], "evalB"))
        tm["scripts_judge"] = round(time.time() - t0, 1)

    threads = [guarded(th_mc), guarded(th_scripts)]

    # ---- main: every bundled class on every record, Generic on the variants
    t0 = time.time()
    main = [dict(c, runs=[]) for c in cases]
    fam = {}
    native = [k for k, m in enumerate(meta) if m["variant"] == "native"]
    for cls in classes:
        runs = TS.run_segment([dict(record=meta[k]["rec"], cls=cls) for k in native])
        for k, r in zip(native, runs):
            fam[k, len(main[k]["runs"])] = "class"
            main[k]["runs"].append(r)
    from ebpfcat.terminals import Generic
    variants = [k for k, m in enumerate(meta) if m["variant"] != "native"]
    if variants:
        for k, r in zip(variants, TS.run_segment([dict(record=meta[k]["rec"], cls=Generic) for k in variants])):
            fam[k, len(main[k]["runs"])] = "variant"
            main[k]["runs"].append(r)
    # ---- R10: a real sync-group cycle through every declared variable of every matching pair
    import random
    import struct
    ncyc = 0
    for cls, inf in zip(classes, infos):
        for k in native:
            v, p = struct.unpack_from("<II", meta[k]["rec"]["eeprom"], 16)      # which pairs to drive; TLC decides `matching`
            if not inf["decls"] or not ((v, p) in (cls.compatibility or ()) or inf["named"] == list(struct.pack("<I", p))):
                continue
            seeds = [f"X09/{cls.__name__}/{k}/{j}" for j in range(1 if ctx.quick else 4)]
            rngs = [random.Random(sd) for sd in seeds] + ([ctx.rng] if ctx.quick else [ctx.rng, ctx.rng])
            for rng in rngs:
                fam[k, len(main[k]["runs"])] = "cycle"
                main[k]["runs"].append(TS.run_cycle(dict(record=meta[k]["rec"], cls=cls), rng, rounds=2 if ctx.quick else 4))
                ncyc += 1
    tm["classes_replay"] = round(time.time() - t0, 1)
    t0 = time.time()
    resA, verdictsA, devices, statics, shared = judge(ctx, main, infos, "evalA")
    tm["classes_judge"] = round(time.time() - t0, 1)
    for t in threads:
        t.join()
    if errors:
        raise errors[0]

    # ---- the model check
    mcres, consts = side["mc"]
    ctx.tlc_stats(mcres)
    ctx.extra["mc_termdecl"] = dict(consts, distinct=mcres.distinct, generated=mcres.generated, held=mcres.ok)
    if not mcres.ok:
        ctx.case_failed(dict(code="mc", violated=mcres.invariant_violated),
                        "MC_TermDecl: a stated consequence of the definitions fails:\n" + mcres.counterexample()[:1500])

    # ---- static rules
    for (name, oks), inf in zip(statics, infos):
        for d, ok in zip(inf["decls"], oks):
            ctx.evaluated(("static", name, d["name"]), nontrivial=d["ov"]["k"] != "none")
            if not ok:
                ctx.case_failed(dict(code="static", cls=name, decl=d["name"], ov=d["ov"]),
                                f"{name}.{d['name']}: override {d['ov']} is neither a bit 0..7 nor a struct format")
    for rec in shared:
        for i, j in sorted(tuple(p) for p in rec[0]):
            ctx.case_failed(dict(code="shared-identity", a=infos[i - 1]["name"], b=infos[j - 1]["name"]),
                            f"{infos[i - 1]['name']} and {infos[j - 1]['name']} claim the same (vendor, product code)")

    # ---- the runs
    resS, asg, probes, total, sc, famS, (resB, verdictsB, _, _, _) = side["scripts"]
    for r in (resA, resB, resS):
        ctx.tlc_stats(r)
    matched = {}
    for cs, verdicts, fams in ((main, verdictsA, fam), (sc, verdictsB, famS)):
        for (k, i), v in sorted(verdicts.items()):
            run_ = cs[k]["runs"][i]
            f = fams[k, i]
            ctx.traces += 1
            nd = len(run_["decls"])
            ctx.evaluated((f, k, run_["cls"]["name"], json.dumps([run_["outp"], run_["inp"]])),
                          nontrivial=(v.get("matching") and (nd > 0 or len(run_["table"]) > 1)) or v.get("init") == "refused")
            if f == "class" and v.get("matching") and not run_["cls"]["generic"]:
                matched.setdefault(run_["cls"]["name"], []).append(meta[k]["record"])
                matched.setdefault(("rec", meta[k]["record"]), []).append(run_["cls"]["name"])
            classify(ctx, f, meta[k], run_, v, tally, remarks)

    # ---- reports
    names = [c.__name__ for c in classes if c.__name__ != "Generic"]
    ctx.extra["matching_pairs"] = {n: matched[n] for n in names if n in matched}
    ctx.extra["classes_without_record"] = [n for n in names if n not in matched]
    ctx.extra["classes_not_examined"] = dict(Skip="initialize does nothing by design",
                                             AerotechBase="abstract: the PDO is defined by the user's subclass")
    ctx.extra["records_without_class"] = [i for i in range(len(records)) if ("rec", i) not in matched]
    ctx.extra["device_remarks"] = {
        f"record {meta[k]['record']} ({meta[k]['variant']})":
            dict(only_in_sii=sorted(map(list, d["onlySii"])), only_in_coe=sorted(map(list, d["onlyCoE"])))
        for k, d in sorted(devices.items()) if d.get("both") and (d["onlySii"] or d["onlyCoE"])}
    ctx.extra["fit_classes"] = remarks["fits"]
    ctx.extra["views_and_partials"] = sorted(remarks["views"])
    ctx.extra["signed_entry_read_unsigned"] = sorted(remarks["signed_as_unsigned"])
    ctx.extra["cycle_verdicts"] = remarks["cycle"]
    ctx.extra["runs"] = dict(cycles=ncyc, classes_x_records=sum(1 for f in fam.values() if f == "class"),
                             variants=len(variants), assignments=len(asg), MaxTotal=total,
                             probe_declarations=sum(len(v) for k, v in probes.items() if meta[k]["variant"] == "native"))
    ctx.extra["observations"] = {k: dict(count=v, what=OBSERVATIONS[k], sample=remarks["observation_samples"].get(k))
                                 for k, v in sorted(tally.items())}
    for k, v in sorted(tally.items()):
        print(f"OBSERVATION property=X09 {k}: {OBSERVATIONS[k]} ({v} verdicts)")
    print("X09 matching pairs:", ctx.extra["matching_pairs"])
    print("X09 bundled classes without a record:", ", ".join(ctx.extra["classes_without_record"]))
    print("X09 records matching no bundled class:", ctx.extra["records_without_class"])
    ctx.rule = ("one evaluation = one run of a real terminal class's initialize on a simulated device serving a "
                "testdata record (or one declaration under the static rules), judged by TLC; non-trivial = a matching "
                "class with declarations or a table of more than one entry, or a class that has to refuse the device")
    ctx.exhaustive = False
    k0 = next(k for (k, i), v in sorted(verdictsA.items()) if v.get("matching") and main[k]["runs"][i]["decls"])
    i0 = next(i for (k, i), v in sorted(verdictsA.items()) if k == k0 and v.get("matching") and main[k]["runs"][i]["decls"])
    r0 = main[k0]["runs"][i0]
    ctx.sample(dict(record=meta[k0]["record"], cls=r0["cls"]["name"], sizes=r0["sizes"],
                    decls=[dict(name=d["name"], res={x: d["res"][x] for x in ("sm", "byte", "bit", "fmt")})
                           for d in r0["decls"][:6]], verdict={x: verdictsA[k0, i0][x] for x in
                                                               ("init", "table", "sizes", "regs", "assign")}))
    ctx.assumptions += [
        "a record of ebpfcat/testdata.py is what the real terminal answers: the image through the SII registers "
        "(cells beyond it read 0xFF), the dictionary through SDO uploads; an object recorded without subindex 0 "
        "has as many subindices as are recorded consecutively from 1 (the package's MockTerminal reads them so)",
        "the simulated device accepts any PDO assignment written to 0x1C12 / 0x1C13 (a real one may refuse "
        "combinations) and describes entries the record lacks as empty (SDO information)",
        "the CoE server is harness/odserver (its conformance is the subject of X03), the SII registers harness/simbus (C17)",
        "classes without `compatibility` (EL4104, EK1814) are paired with the record whose product code is the one "
        "Beckhoff derives from the name (number * 65536 + 0x3052 'EL' / 0x2C52 'EK'); the test suite pairs them so",
        "no-mailbox variants are derived images (mailbox sync managers removed, PDO sync-manager fields renumbered), "
        "not devices that exist",
    ]
    tm["total"] = round(time.time() - t00, 1)


def replay(ctx, case):
    records = TS.load_records()
    cases, meta = device_cases(records)
    k = next(i for i, m in enumerate(meta) if m["record"] == case["record"] and m["variant"] == case["variant"])
    cls = next((c for c in TS.bundled_classes() if c.__name__ == case["cls"]), None)
    if cls is None:
        print("not a bundled class (probe): re-run the check")
        return
    r, = TS.run_segment([dict(record=meta[k]["rec"], cls=cls, out_pdos=case.get("out_pdos"), in_pdos=case.get("in_pdos"))])
    c = dict(cases[k], runs=[r])
    _, verdicts, _, _, _ = judge(ctx, [c], [], "replay")
    print(json.dumps(dict(init=r["init"], bits=r["bits"], sizes=r["sizes"],
                          decls=[(d["name"], d["res"]) for d in r["decls"]]), default=repr)[:3000])
    print(verdicts[0, 0])
