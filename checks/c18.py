"""C18 - sync groups give each terminal disjoint, exactly-sized process data.

Spec: spec/Alloc.tla (requirement on an observed allocation + the master's logical windows),
AllocRef / MC_AllocRef (the scheme as designed, model-checked against Alloc), AllocConfigs / AllocBoundary (TLC enumerates the configurations), AllocTrace (TLC judges the
recorded allocations), AllocDiag (TLC names the violated part of the requirement).
Binding: every configuration is built from real EBPFTerminal / AerotechBase objects, Device
subclasses and SyncGroups on one SimpleEtherCat; allocate() is called group by group; what is
recorded is pdo_assign, fmmu_maps and the datagram chain found by walking the assembled cyclic
frame with an independent parser.  Python never judges an allocation."""
import json
import struct
import threading
import zlib
from concurrent.futures import ThreadPoolExecutor

from harness import tlc as T

PROPERTY = "C18"
LEVEL = "model_checking"

LOCK = threading.Lock()
MAXFRAME = 1500
MAXDGRAMS = 15
AEROPAD = 36
CMDS = {0: "NOP", 1: "APRD", 2: "APWR", 3: "APRW", 4: "FPRD", 5: "FPWR", 6: "FPRW", 7: "BRD",
        8: "BWR", 9: "BRW", 10: "LRD", 11: "LWR", 12: "LRW", 13: "ARMW", 14: "FRMW"}


# ---------- the frame, read by a parser that shares nothing with the code under test ----------

def walk_frame(frame):
    """EtherCAT frame (Ethernet payload) -> (length field, datagrams, fault or None)"""
    if len(frame) < 2:
        return 0, [], "frame shorter than its header"
    head, = struct.unpack_from("<H", frame, 0)
    elen = head & 0x7ff
    dgs = []
    pos = 2
    fault = None if head >> 12 == 1 else f"frame type {head >> 12}"
    if elen + 2 > len(frame):
        fault = fault or f"length field {elen} beyond the frame of {len(frame)} bytes"
    # the length field delimits the chain; the "more" flags are reported, not trusted
    while not fault and pos < elen + 2:
        if pos + 12 > elen + 2:
            fault = f"datagram header at {pos} beyond the frame length"
            break
        cmd, idx, adr, lenf, irq = struct.unpack_from("<BBIHH", frame, pos)
        sta, ofs = struct.unpack_from("<HH", frame, pos + 2)
        n = lenf & 0x7ff
        dgs.append(dict(cmd=CMDS.get(cmd, f"cmd{cmd}"), hp=pos, len=n, more=lenf >> 15,
                        adr=adr if adr < 2 ** 31 else -1, pos=sta, ofs=ofs))
        pos += 12 + n
    return elen, dgs, fault


# ---------- driving the real allocator ---------------------------------------------------------

def variant_of(cfg):
    return zlib.crc32(json.dumps([cfg["ts"], cfg["gs"]], sort_keys=True).encode()) % 8


def allocate_real(cfg, ec=None, shift=0):
    """build the configuration from real objects, allocate group by group, record what happened
    (on the master ec when given: a bus with a history)"""
    from ebpfcat.ebpfcat import EBPFTerminal, SyncGroup, SimpleEtherCat, Device
    from ebpfcat.terminals import AerotechBase
    from ebpfcat.ethercat import SyncManager

    class Dev(Device):
        def __init__(self, terms):
            self.terms = dict(terms)

        def get_terminals(self):
            return dict(self.terms)

    ec = ec or SimpleEtherCat("x")
    variant = cfg.get("variant", variant_of(cfg))
    terms = []
    for k, t in enumerate(cfg["ts"], shift % 50):
        if t["mode"] == "A":
            cls = type("Aero%d" % k, (AerotechBase,), dict(in_size=t["din"], out_size=t["dout"]))
            o = cls(ec)
        else:
            o = EBPFTerminal(ec)
            o.use_fmmu = t["mode"] == "F"
        o.position = 5 + 3 * k
        o.pdo_in_sz, o.pdo_out_sz = t["pin"], t["pout"]
        if cfg.get("none_for_zero"):    # a terminal without inputs/outputs has no size at all
            o.pdo_in_sz, o.pdo_out_sz = t["pin"] or None, t["pout"] or None
        o.pdo_out_off = 0x1000 + 0x40 * k
        o.pdo_in_off = 0x1800 + 0x48 * k
        o.name = "t%d" % k
        terms.append(o)
    groups = []
    for g in range(1, max(cfg["gs"]) + 1):
        members = [k for k, x in enumerate(cfg["gs"]) if x == g]
        # how devices share the terminals is free: vary it (the group sees the union of flags)
        if variant & 2:
            devs = [Dev({terms[k]: cfg["ts"][k]["rw"] for k in members})]
        else:
            devs = [Dev({terms[k]: cfg["ts"][k]["rw"]}) for k in members]
        if variant & 4:
            devs += [Dev({terms[k]: False}) for k in members if cfg["ts"][k]["rw"]]
        if variant & 1:
            devs.reverse()
        rec = dict(terms=[dict(cfg["ts"][k], position=terms[k].position, inoff=terms[k].pdo_in_off,
                               outoff=terms[k].pdo_out_off) for k in members],
                   res="ok", exc="", flen=0, elen=0, dg=[], assign=[], lmap=[], fault="")
        groups.append(rec)
        try:
            sg = SyncGroup(ec, devs)
            sg.allocate()
        except OverflowError as e:
            if "too many sync groups" in str(e):
                # not a verdict on this group's frame: the master's share of the address space is used up;
                # nothing was handed out (run_script counts it)
                groups.pop()
                raise
            rec.update(res="overflow", exc=str(e))
            continue
        except Exception as e:
            rec.update(res="error", exc=f"{type(e).__name__}: {e}")
            continue
        try:
            frame = bytes(sg.packet.assemble(1000 + g, ec.ethertype))
            for k in members:
                a = sg.pdo_assign.get(terms[k], {})
                m = sg.fmmu_maps.get(terms[k], {})
                rec["assign"].append(dict(i=int(a.get(SyncManager.IN, -1)),
                                          o=int(a.get(SyncManager.OUT, -1))))
                rec["lmap"].append(dict(i=int(m.get(SyncManager.IN, -1)),
                                        o=int(m.get(SyncManager.OUT, -1))))
        except Exception as e:
            rec.update(res="error", exc=f"after allocate: {type(e).__name__}: {e}")
            continue
        rec["flen"] = len(frame)
        rec["elen"], rec["dg"], fault = walk_frame(frame)
        if fault:
            rec.update(res="error", exc="frame cannot be walked: " + fault)
    return dict(groups=groups, variant=variant)


# ---------- a bus with a history -----------------------------------------------------------------

def bus_masters(kind, lockfile):
    """the masters (one per process) of one bus: {proc: master}; for a parallel bus two real
    ParallelEtherCat objects whose FMMULocks (same lock file) got neighbouring process numbers"""
    import random
    from ebpfcat.ebpfcat import SimpleEtherCat, ParallelEtherCat
    from ebpfcat.lock import FMMULock
    if kind == "simple":
        return {1: SimpleEtherCat("x")}, []
    state = random.getstate()
    random.seed(18)               # FMMULock draws its process number with random.randrange
    locks = {}
    try:
        pair = None
        while pair is None:
            if len(locks) > 300:
                raise T.MachineryError("no two FMMULocks with neighbouring process numbers")
            lk = FMMULock(lockfile)
            no = lk.base_addr >> 22
            locks[no] = lk
            for lo in (no - 1, no):
                if lo in locks and lo + 1 in locks:
                    pair = lo
    finally:
        random.setstate(state)
    masters = {}
    for proc, no in ((1, pair), (2, pair + 1)):
        masters[proc] = ParallelEtherCat("x")
        masters[proc].fmmu_lock_file = locks[no]
    return masters, list(locks.values())


def run_script(script, lockfile):
    """execute a history script of AllocHistory on real masters; the trace holds every group
    that is still live, in the order of allocation"""
    import os
    if os.path.exists(lockfile):
        os.remove(lockfile)
    masters, locks = bus_masters(script["master"], lockfile)
    groups = []
    refused = 0

    def exhausted(e):
        # a master may refuse a further group when its share of the logical address space is used up (the repaired
        # FMMULock does, F46): no window is handed out, so nothing is owed; the history goes on without that group
        return isinstance(e, OverflowError) and "too many sync groups" in str(e)
    try:
        for op in script["ops"]:
            ec = masters[op["proc"]]
            if op["op"] == "churn":
                for _ in range(op["n"]):
                    try:
                        ec.get_fmmu_addr()      # all an allocation does to the master
                    except OverflowError as e:
                        if not exhausted(e):
                            raise
                        refused += 1
                continue
            for _ in range(op["n"] if op["op"] == "crowd" else 1):
                c = dict(ts=op["ts"], gs=[1] * len(op["ts"]), variant=0)
                try:
                    groups += allocate_real(c, ec, shift=len(groups))["groups"]
                except OverflowError as e:
                    if not exhausted(e):
                        raise
                    refused += 1
    finally:
        for lk in locks:
            os.close(lk.fd)
        if os.path.exists(lockfile):
            os.remove(lockfile)
    return dict(groups=groups, variant=0, refused=refused)


# ---------- configurations --------------------------------------------------------------------

def sets(seq):
    return T.Raw("<<" + ", ".join("{" + ", ".join(map(str, s)) + "}" for s in seq) + ">>")


def enumerate_configs(ctx, wd, name, module, inv, modes, ins, outs, maxt, maxg, deltas):
    mc = "MC18_" + name
    defs = dict(mcModes=set(modes), mcIn=sets(ins), mcOut=sets(outs))
    consts = f"""SPECIFICATION CSpec
CONSTANTS Modes <- mcModes
          InSizes <- mcIn
          OutSizes <- mcOut
          MaxT = {maxt}
          MaxG = {maxg}
          AeroPad = {AEROPAD}
"""
    if deltas is not None:
        defs["mcDeltas"] = set(deltas)
        consts += f"""          MaxFrame = {MAXFRAME}
          MaxDgrams = {MAXDGRAMS}
          Deltas <- mcDeltas
"""
    T.write_module(wd, mc, defs, extends=(module,))
    T.write_cfg(wd, mc + ".cfg", consts + f"INVARIANT {inv}\nCHECK_DEADLOCK FALSE\n")
    res = T.require_clean(T.run(wd, mc, mc + ".cfg", workers=1, timeout=900), mc)
    if not res.ok:
        raise T.MachineryError(f"{mc}: TLC did not finish cleanly\n{res.out[-2000:]}")
    with LOCK:
        ctx.tlc_stats(res)
    cfgs = []
    for line in res.out.splitlines():     # one configuration per line (faster than printed_records)
        if line.startswith('<<"CFG", "'):
            cfgs.append(json.loads(json.loads(line[len('<<"CFG", '):-2])))
    if not cfgs:
        raise T.MachineryError(f"{mc}: no configurations enumerated")
    with LOCK:
        ctx.extra.setdefault("families", {})[name] = dict(
            configs=len(cfgs), distinct=res.distinct, modes=modes, maxt=maxt, maxg=maxg,
            in_sizes=[sorted(x) for x in ins[:maxt]], out_sizes=[sorted(x) for x in outs[:maxt]])
    for c in cfgs:
        c["family"] = name
    return cfgs


def random_configs(ctx, n):
    """extra seeded cases: random sizes 0..max, flags, modes, up to 5 terminals in up to 3 groups"""
    out = []
    r = ctx.rng
    for _ in range(n):
        top = r.choice([4, 40, 300, 500, 800, 1480])
        nt = r.randint(1, 5)
        ts = []
        for _ in range(nt):
            mode = r.choice("FFDA")
            i = r.choice([0, r.randint(1, top)])
            o = r.choice([0, r.randint(1, top)])
            pad = AEROPAD if mode == "A" else 0
            ts.append(dict(mode=mode, pin=i + pad if i else 0, pout=o + pad if o else 0,
                           rw=r.random() < 0.6, din=i, dout=o))
        ng = r.randint(1, 3)
        gs = [1]
        for _ in range(nt - 1):
            gs.append(r.randint(1, min(ng, max(gs) + 1)))
        out.append(dict(ts=ts, gs=gs, family="random", variant=r.randrange(8),
                        none_for_zero=r.random() < 0.3))
    return out


def design_check(ctx, wd):
    """the allocation scheme as designed (AllocRef) meets Alloc for every configuration in the bound"""
    q = ctx.quick
    ins, outs = [{0, 8, 1400}, {0, 64, 1400}, {0, 7}], [{0, 700, 1400}, {0, 700, 1400}, {0, 2}]
    maxt, maxg = (2, 2) if q else (3, 3)
    T.write_module(wd, "MC18_ref", dict(qModes=set("FDA"), qIn=sets(ins), qOut=sets(outs)),
                   extends=("MC_AllocRef",))
    T.write_cfg(wd, "MC18_ref.cfg", f"""SPECIFICATION CSpec
CONSTANTS Modes <- qModes
          InSizes <- qIn
          OutSizes <- qOut
          MaxT = {maxt}
          MaxG = {maxg}
          AeroPad = {AEROPAD}
          MaxFrame = {MAXFRAME}
          MaxDgrams = {MAXDGRAMS}
          Stride = 4096
          Half = 2048
INVARIANT RefOK
CHECK_DEADLOCK FALSE
""")
    res = T.require_clean(T.run(wd, "MC18_ref", "MC18_ref.cfg", workers=2 if q else 4, timeout=900),
                          "MC_AllocRef")
    if not res.ok:
        raise T.MachineryError("the designed allocation scheme (AllocRef) does not meet Alloc:\n"
                               + res.counterexample()[:3000])
    with LOCK:
        ctx.tlc_stats(res)
        ctx.extra["mc_allocref"] = dict(distinct=res.distinct, generated=res.generated,
                                        maxt=maxt, maxg=maxg)
    return []


def histories(ctx, wd):
    """buses with a history: TLC enumerates the scripts of AllocHistory"""
    q = ctx.quick
    ks = {8, 10, 12} if q else set(range(4, 19))
    kinds = {"tiny", "wide"} if q else {"tiny", "wide", "aero"}
    crowds = {1100} if q else {1100, 2100}
    T.write_module(wd, "MC18_history", dict(hMasters={"simple", "parallel"}, hKs=ks, hKinds=kinds,
                                            hCrowds=crowds), extends=("AllocHistory",))
    T.write_cfg(wd, "MC18_history.cfg", """SPECIFICATION HSpec
CONSTANTS Masters <- hMasters
          Ks <- hKs
          Kinds <- hKinds
          Crowds <- hCrowds
INVARIANT Emit
CHECK_DEADLOCK FALSE
""")
    res = T.require_clean(T.run(wd, "MC18_history", "MC18_history.cfg", workers=1, timeout=600),
                          "AllocHistory")
    if not res.ok:
        raise T.MachineryError("AllocHistory: TLC did not finish cleanly\n" + res.out[-2000:])
    with LOCK:
        ctx.tlc_stats(res)
    scripts = [r[0] for r in T.printed_records(res, "SCRIPT")]
    if not scripts:
        raise T.MachineryError("AllocHistory: no scripts enumerated")
    scripts.sort(key=lambda x: json.dumps(x, sort_keys=True))
    with LOCK:
      ctx.extra.setdefault("families", {})["history"] = dict(
        scripts=len(scripts), gap_exponents=sorted(ks), kinds=sorted(kinds), crowds=sorted(crowds),
        masters=["simple", "parallel (two processes with neighbouring numbers)"])
    return [dict(script=x, family="history") for x in scripts]


def families(ctx):
    q = ctx.quick
    plan = [
        # layout: every mix of modes / presence / flags in one group, sizes pairwise different
        ("layout", "AllocConfigs", "Emit", "FDA",
         [{0, 1}, {0, 2}, {7} if q else {0, 7}, {64}], [{0, 8}, {0, 7}, {0, 2}, {0, 1}],
         3 if q else 4, 1, None),
        # windows: several groups on one master, sizes up to a full frame (logical windows)
        ("windows", "AllocConfigs", "Emit", "FA",
         [{0, 8, 1400}] * 2, [{0, 700, 1400}] * 2, 2, 2, None),
        ("windows3", "AllocConfigs", "Emit", "F",
         [{0, 1400}] * 3 if q else [{0, 64, 1400}] * 3,
         [{0, 1400}] * 3 if q else [{0, 700, 1400}] * 3, 3, 3, None),
        # limit: one region resized so that the customary layout has MaxFrame + delta bytes
        ("limit", "AllocBoundary", "EmitB", "FDA",
         [{0, 1}, {0, 64}, {0, 7}], [{0, 8}, {0, 700}, {0, 2}], 2 if q else 3, 1,
         (-1, 0, 1) if q else (0, 1)),
    ]
    if not q:
        plan.append(("limit2", "AllocBoundary", "EmitB", "FDA",
                     [{0, 2}, {0, 700}], [{0, 64}, {0, 1}], 2, 1, (-13, -2, -1, 2, 13)))
    wds = [ctx.workdir() for _ in plan]     # T.run keeps its metadir inside the work directory
    with ThreadPoolExecutor(len(plan) + 2) as ex:
        design = ex.submit(design_check, ctx, ctx.workdir())
        hist = ex.submit(histories, ctx, ctx.workdir())
        parts = list(ex.map(lambda a: enumerate_configs(ctx, a[0], *a[1]), zip(wds, plan)))
        design.result()
    return [c for part in parts for c in part] + hist.result()


# ---------- judging ---------------------------------------------------------------------------

def diagnose(ctx, wd, traces):
    """let TLC say which part of the requirement the rejected group violates"""
    path = wd + "/diag.json"
    with open(path, "w") as f:
        json.dump(traces, f)
    res = T.run(wd, "AllocDiag", "AllocDiag.cfg", workers=1, timeout=300, deadlock=False,
                env={"TRACE_FILE": path})
    if res.error:
        raise T.MachineryError("AllocDiag failed:\n" + res.error)
    ctx.tlc_stats(res)
    out = {}
    for r in T.printed_records(res, "DIAG"):
        out.setdefault(r[0], []).append(r[1:])
    return out


class Stats:
    """collects TLC results of one validation thread"""
    def __init__(self):
        self.res = []

    def tlc_stats(self, res):
        self.res.append(res)


def validate(ctx, traces, threads=4):
    """AllocTrace over all traces, in contiguous slices validated by parallel TLC runs"""
    n = max(1, min(threads, len(traces) // 500))
    size = -(-len(traces) // n)
    slices = [traces[i:i + size] for i in range(0, len(traces), size)]
    wds = [ctx.workdir() for _ in slices]
    stats = [Stats() for _ in slices]
    with ThreadPoolExecutor(len(slices)) as ex:
        parts = list(ex.map(lambda a: T.validate_traces(a[0], a[1], "AllocTrace", "AllocTrace.cfg",
                                                        a[2], chunk=8000),
                            zip(stats, wds, slices)))
    for st in stats:
        for res in st.res:
            ctx.tlc_stats(res)
    return [r for part in parts for r in part]


def nontrivial(tr):
    regions = 0
    for g in tr["groups"]:
        if g["res"] != "ok":
            return True
        n = sum(1 for t in g["terms"] if t["pin"] and t["din"]) + \
            sum(1 for t in g["terms"] if t["rw"] and t["pout"] and t["dout"])
        regions = max(regions, n)
    logical = sum(1 for g in tr["groups"] if any(d["cmd"] in ("LRD", "LWR") for d in g["dg"]))
    return regions >= 2 or logical >= 2


def judge(ctx, wd, cfgs, batch=24000):
    for i in range(0, len(cfgs), batch):
        judge_batch(ctx, wd, cfgs[i:i + batch])


def judge_batch(ctx, wd, cfgs):
    lock = wd + "/fmmu.lock"
    traces = [run_script(c["script"], lock) if "script" in c else allocate_real(c) for c in cfgs]
    results = validate(ctx, [dict(groups=t["groups"]) for t in traces])
    bad = [i for i, (m, n, inv) in enumerate(results) if m != n or isinstance(inv, str)]
    diag = {}
    if bad:
        d = diagnose(ctx, wd, [dict(groups=traces[i]["groups"]) for i in bad[:400]])
        diag = {bad[j - 1]: v for j, v in d.items()}
    rejected = accepted = 0
    for i, (c, t, (m, n, inv)) in enumerate(zip(cfgs, traces, results)):
        ctx.traces += 1
        nt = nontrivial(t)
        hist = "script" in c
        ctx.evaluated(json.dumps(c["script"] if hist else [c["ts"], c["gs"]], sort_keys=True),
                      nontrivial=nt)
        rejected += sum(1 for g in t["groups"] if g["res"] == "overflow")
        accepted += sum(1 for g in t["groups"] if g["res"] == "ok")
        if hist and len(t["groups"]) < 4 and i % 41 == 0:
            ctx.sample(dict(script=c["script"], windows=[[(d["cmd"], d["adr"], d["len"]) for d in g["dg"]
                                                          if d["cmd"] in ("LRD", "LWR")]
                                                         for g in t["groups"]]), limit=6)
        if not hist and nt and len(ctx.samples) < 4 and (len(t["groups"]) > 1 or i % 97 == 0):
            ctx.sample(dict(config=c, groups=[dict(res=g["res"], assign=g["assign"], lmap=g["lmap"],
                                                   dg=[(d["cmd"], d["hp"], d["len"]) for d in g["dg"]])
                                              for g in t["groups"]]))
        if m != n or isinstance(inv, str):
            g = t["groups"][m] if m < n else None
            why = "; ".join(" ".join(map(str, x)) for x in diag.get(i, [])) or str(inv)
            if hist:
                ops = c["script"]["ops"]
                config = dict(script=c["script"])
                what = (f"{c['script']['master']} bus, " + ", ".join(
                    f"{o['op']}(proc {o['proc']}" + (f", {o['n']})" if o["op"] != "group" else ")")
                    for o in ops))
                more = dict(master=c["script"]["master"], procs=[o["proc"] for o in ops],
                            allocations=sum(o["n"] if o["op"] != "group" else 1 for o in ops),
                            per_proc={str(p): sum((o["n"] if o["op"] != "group" else 1)
                                                  for o in ops if o["proc"] == p)
                                      for p in sorted({o["proc"] for o in ops})})
            else:
                config = dict(ts=c["ts"], gs=c["gs"], variant=t["variant"],
                              none_for_zero=bool(c.get("none_for_zero")))
                what, more = str(c["gs"]), {}
            case = dict(more, config=config,
                        family=c["family"], group=m + 1, observed=g,
                        res=g["res"] if g else None, exc=g["exc"] if g else None,
                        violated=[x[1] for x in diag.get(i, []) if len(x) > 1])
            ctx.case_failed(case, f"group {m + 1} of {what}: Alloc rejects the observed "
                                  f"allocation ({g['res'] if g else '-'} {g['exc'] if g else ''}): {why}")
    ctx.extra["groups_accepted"] = ctx.extra.get("groups_accepted", 0) + accepted
    ctx.extra["groups_rejected_overflow"] = ctx.extra.get("groups_rejected_overflow", 0) + rejected


def run(ctx):
    wd = ctx.workdir()
    cfgs = families(ctx)
    judge(ctx, wd, cfgs)
    ctx.exhaustive = True
    extra = random_configs(ctx, 600 if ctx.quick else 10000)
    judge(ctx, wd, extra)
    ctx.extra["random_configs"] = len(extra)
    ctx.rule = ("every configuration TLC enumerates in the families layout / windows / limit and "
                "every bus history of AllocHistory (see families) plus seeded random ones; each is allocated by the real code and judged "
                "by TLC; non-trivial = a group with >= 2 required regions, or >= 2 groups with "
                "logical datagrams, or a rejected group")
    ctx.assumptions += [
        "the cyclic frame is the one Packet.assemble produces for the allocated SterilePacket "
        "(SyncGroup.start does exactly that); EtherCAT frame limit 1500 bytes, 15 datagrams",
        "a rejection counts as justified when the customary layout (Alloc!CustomaryBytes) "
        "exceeds the limit; the FMMU length later programmed by map_fmmu is outside C18"]


def replay(ctx, case):
    wd = ctx.workdir()
    c = dict(case["config"], family=case.get("family", "replay"))
    judge(ctx, wd, [c])


def replay_case(case):
    if "script" in case["config"]:
        return run_script(case["config"]["script"], T.workdir("C18r") + "/fmmu.lock")
    return allocate_real(case["config"])
