"""X02 - the EEPROM (SII) access protocol, register by register.

Spec: spec/SiiAccess.tla (the ESC's SII registers 0x0500..0x050F as a state machine; the master's
obligations M1-M3 and the call requirements R1-R6 with their sources; observations O1-O3),
MC_SiiAccess (a reference master against that ESC, exhaustive), SiiAccessScripts (TLC enumerates
image structures x ESC configurations x busy / failure patterns x call sequences), SiiAccessTrace
(trace validation).  SiiImage (C17) says what an image stores.

Binding: every script is replayed with the REAL EtherCat.eeprom_read, Terminal._eeprom_read_one,
Terminal.eeprom_write_one and Terminal.read_eeprom on a real EtherCat object wired to a simulated
terminal whose SII registers are harness/siiesc.py (harness/simbus + harness/simloop: virtual
time, step budget).  Every datagram that reaches the terminal is a trace event, every call and
its outcome (return value / exception / stall) too; TLC validates each trace against SiiAccess:
the simulator showed what the specification's ESC shows, the master kept M1-M3, each call ended
as R1-R6 demand.  In the same run TLC validates it under each relaxation (O1..O3) whose
predicate it computed from the trace: rejected as it is but accepted then = an OBSERVATION (counted, exit stays 0),
still rejected = a violation.  Python builds bytes, drives the real code and records; every
judgement is TLC's."""
import asyncio
import json
import logging
import os
import random
import struct
import time
from concurrent.futures import ThreadPoolExecutor

from harness import tlc as T
from harness import simbus, simloop, siiesc

PROPERTY = "X02"
LEVEL = "model_checking"

STATION = 7
TYPES = [30, 41, 0xfffe, 10, 60, 0x8001, 1, 50]      # category types handed out in order
VALS = [v for v in range(1, 255) if v != siiesc.JUNK]  # neither 0xFF nor the simulator's junk byte
OBSERVATIONS = {
    "O1": "the read functions never look at the error bits 13/14: after a failed read command the "
          "undefined data register is returned as EEPROM contents",
    "O2": "eeprom_write_one repeats the write for ever while status bit 11 or 12 is set "
          "(`while busy & 0xff00`)",
    "O3": "nothing ever writes 0x0500: with the EEPROM assigned to the PDI every command is dropped, "
          "reads return the stale data register, eeprom_write_one returns without having written",
}


# ---------------------------------------------------------------------------------------------
# from a script to bytes

def build_image(s):
    """header of 128 bytes, the categories (lengths from the script), end marker, tail"""
    cnt = [0]

    def nxt(n):
        out = bytes(VALS[(cnt[0] + k) * 7 % len(VALS)] for k in range(n))
        cnt[0] += n
        return out
    img = nxt(128)
    for i, ln in enumerate(s["lens"]):
        img += struct.pack("<HH", TYPES[i % len(TYPES)] + 0x100 * (i // len(TYPES)), ln)
        img += b"\xff" * (2 * ln) if s["fill"] == "ff" else nxt(2 * ln)
    img += b"\xff\xff" + nxt(2 * s["tail"])
    return img


def accesses_needed(s, c):
    """generous bound on the register accesses a correct master needs for call c"""
    per_cmd = 4 + max(s["busy"] + [s["cfg"]["init"], 0])
    if c["op"] == "image":
        n = 128 + sum(4 + 2 * x for x in s["lens"]) + 2 + 2 * s["tail"]
        reads = 2 + (n - 128) // 8 + 2
    else:
        reads = 1
    return (2 * reads + len(s["errs"]) + 1) * per_cmd + 8


ITER_PER_ACCESS = 6     # event-loop iterations per datagram round trip (measured: 5)


def drive(s):
    """one run of the real code on a script; returns the trace record for SiiAccessTrace"""
    from ebpfcat.ethercat import EtherCat, Terminal
    image = build_image(s)
    esc = siiesc.SiiEsc(image, s["cfg"], s["busy"], s["errs"], station=STATION)
    bus = simbus.SimBus([esc])
    ev = esc.events

    async def main():
        ec = EtherCat('x')
        simbus.attach(ec, bus)
        t = Terminal(ec)
        t.position = STATION
        loop = asyncio.get_event_loop()
        for c in s["calls"]:
            op, a, v = c["op"], c["a"], c["v"]
            ev.append(dict(k="call", op=op, a=a, v=list(v)))
            esc.in_call = True
            loop.budget = loop.steps + ITER_PER_ACCESS * 2 * accesses_needed(s, c)
            try:
                if op == "read4":
                    r = await ec.eeprom_read(0, a)
                    ev.append(dict(k="ret", ok=True, data=list(struct.pack("<I", r))))
                elif op == "read8":
                    r = await t._eeprom_read_one(a)
                    ev.append(dict(k="ret", ok=True, data=list(bytes(r))))
                elif op == "write":
                    await t.eeprom_write_one(a, v[0] | v[1] << 8)
                    ev.append(dict(k="ret", ok=True))
                else:
                    await t.read_eeprom()
                    ev.append(dict(k="ret", ok=True,
                                   id={f: list(struct.pack("<I", getattr(t, f))) for f in
                                       ("vendorId", "productCode", "revisionNo", "serialNo")},
                                   cats=[dict(type=int(k), data=list(bytes(d)))
                                         for k, d in t.eeprom.items()]))
            except simloop.StallError:
                raise
            except Exception as e:
                ev.append(dict(k="exc", ok=False, exc=f"{type(e).__name__}: {e}"[:200]))
            esc.in_call = False

    logging.disable(logging.CRITICAL)      # the code under test logs packets that arrive after a stall
    try:
        simloop.run(main, budget=10 ** 9)
    except simloop.StallError:
        ev.append(dict(k="stall"))
    finally:
        logging.disable(logging.NOTSET)
    ev.append(dict(k="end", ee=list(esc.ee)))
    return dict(image=list(image), cfg=dict(s["cfg"], init=s["cfg"]["init"] > 0), ev=ev)


# ---------------------------------------------------------------------------------------------
# TLC runs

def model_check_run(ctx, wd):
    """the design: the reference master of MC_SiiAccess against the ESC, every configuration"""
    if ctx.quick:
        k = dict(MaxBusy=1, MaxErr=2, MaxTries=1, MaxCalls=1, images="MCImagesQuick")
    else:
        k = dict(MaxBusy=2, MaxErr=2, MaxTries=1, MaxCalls=2, images="MCImages")
    T.write_cfg(wd, "mc_siiaccess.cfg", f"""SPECIFICATION MCSpec
CONSTANTS MaxBusy = {k['MaxBusy']}
          MaxErr = {k['MaxErr']}
          MaxTries = {k['MaxTries']}
          MaxCalls = {k['MaxCalls']}
          Images <- {k['images']}
          Addrs = {{8, 66, 69, 80}}
          WAddrs = {{14, 66}}
          WVals <- MCVals
          ImageOps = TRUE
INVARIANTS NoBreach
           Correct
           NeverFails
           ATypeOK
PROPERTY Terminates
CHECK_DEADLOCK FALSE
""")
    return k, T.run(wd, "MC_SiiAccess", "mc_siiaccess.cfg", workers=4, timeout=1500, coverage=True)


def model_check_done(ctx, k, res):
    T.require_clean(res, "MC_SiiAccess")
    if not res.ok:
        raise T.MachineryError("SiiAccess: the reference master violates the requirements:\n"
                               + res.counterexample())
    ctx.tlc_stats(res)
    ctx.extra["mc_siiaccess"] = dict(k, distinct=res.distinct, generated=res.generated)


def enumerate_scripts(ctx, wd):
    if ctx.quick:
        k = dict(MaxCats=2, MaxCatLen=3, MaxTail=1, MaxBusy=1, PatLen=2, MaxInit=1, Deep="FALSE")
    else:
        k = dict(MaxCats=3, MaxCatLen=2, MaxTail=1, MaxBusy=2, PatLen=2, MaxInit=1, Deep="TRUE")
    T.write_cfg(wd, "scripts.cfg", "SPECIFICATION SSpec\nCONSTANTS "
                + "\n          ".join(f"{a} = {b}" for a, b in k.items())
                + "\nINVARIANT Emit\nCHECK_DEADLOCK FALSE\n")
    res = T.require_clean(T.run(wd, "SiiAccessScripts", "scripts.cfg", workers=1, timeout=600),
                          "SiiAccessScripts")
    ctx.tlc_stats(res)
    scripts = {}
    for (s,) in T.printed_records(res, "SCRIPT"):
        scripts[json.dumps(s, sort_keys=True)] = s
    if len(scripts) != res.distinct or not scripts:
        raise T.MachineryError(f"SiiAccessScripts: {len(scripts)} scripts printed, "
                               f"{res.distinct} states")
    ctx.extra["scripts"] = dict(k, n=len(scripts))
    return [scripts[key] for key in sorted(scripts)]


CODES = {"O1": 1, "O2": 2, "O3": 3}


def validate(ctx, wd, traces, chunk=2500, timeout=2400, par=1):
    """-> [(matched, length, applicable observations, accepted_with)] per trace, by SiiAccessTrace:
    matched / length without relaxation; accepted_with = None (accepted as it is, or rejected in
    every variant) or the smallest set of applicable relaxations under which TLC accepts it.
    The traces are independent: `par` single-worker TLC runs validate chunks side by side."""
    def one(start):
        part = traces[start:start + chunk]
        path = os.path.join(wd, f"traces_{start}.json")
        with open(path, "w") as f:
            json.dump([{k: t[k] for k in ("image", "cfg", "ev")} for t in part], f)
        res = T.run(wd, "SiiAccessTrace", "SiiAccessTrace.cfg", workers=1, timeout=timeout,
                    deadlock=False, env={"TRACE_FILE": path})
        os.remove(path)
        return part, res
    with ThreadPoolExecutor(par) as ex:
        done = list(ex.map(one, range(0, len(traces), chunk)))
    out = []
    for part, res in done:
        if res.error or not res.ok:
            raise T.MachineryError(f"SiiAccessTrace failed:\n{res.error}\n{res.out[-3000:]}")
        ctx.tlc_stats(res)
        recs = {}
        for i, code, matched, length, appl in T.printed_records(res, "RESULT"):
            recs.setdefault(i, {})[code] = (matched, length, list(appl))
        if sorted(recs) != list(range(1, len(part) + 1)) or any(0 not in r for r in recs.values()):
            raise T.MachineryError(f"SiiAccessTrace: results for {len(recs)} of {len(part)} traces\n"
                                   + res.out[-3000:])
        for i in range(1, len(part) + 1):
            matched, length, appl = recs[i][0]
            want = {0} | {CODES[o] for o in appl} | ({7} if len(appl) > 1 else set())
            if set(recs[i]) != want:
                raise T.MachineryError(f"SiiAccessTrace: variants {sorted(recs[i])} for trace {i}, "
                                       f"applicable {appl}")
            acc = None
            if matched != length:
                for rx in [[o] for o in appl] + ([appl] if len(appl) > 1 else []):
                    m2, l2, _ = recs[i][CODES[rx[0]] if len(rx) == 1 else 7]
                    if m2 == l2:
                        acc = rx
                        break
            out.append((matched, length, appl, acc))
    return out


# ---------------------------------------------------------------------------------------------

def random_script(rng):
    """extra cases beyond the enumeration: longer images, longer patterns, more calls"""
    lens = [rng.choice([0, 1, 2, 3, 5, rng.randrange(0, 13)]) for _ in range(rng.randrange(0, 5))]
    tail = rng.randrange(0, 4)
    end = 64 + sum(2 + x for x in lens)
    cfg = dict(cap8=rng.random() < 0.5, sticky=rng.random() < 0.5, own=0, ck=False, dev=False,
               init=rng.choice([0, 0, 1, 3]))
    kind = rng.choice(["clean", "clean", "err", "own", "ck"])
    errs = []
    if kind == "err":
        errs = [rng.random() < 0.4 for _ in range(rng.randrange(1, 5))]
    elif kind == "own":
        cfg["own"] = rng.choice([1, 2])
    elif kind == "ck":
        cfg["ck"], cfg["dev"] = rng.choice([(True, False), (False, True), (True, True)])
    # words a write may change without touching the category structure
    wr, w = list(range(8, 16)) + list(range(end + 1, end + 1 + tail)), 64
    for x in lens:
        wr += list(range(w + 2, w + 2 + x))
        w += 2 + x
    calls = []
    for _ in range(rng.randrange(1, 5)):
        op = rng.choice(["read4", "read8", "write", "image"])
        if op == "write":
            calls.append(dict(op=op, a=rng.choice(wr), v=[rng.choice(VALS), rng.choice(VALS)]))
        elif op == "image":
            calls.append(dict(op=op, a=0, v=[]))
        else:
            calls.append(dict(op=op, a=rng.choice([rng.randrange(0, end + tail + 6), 8, end, end - 1]),
                              v=[]))
    return dict(part="extra-" + kind, lens=lens, tail=tail, fill=rng.choice(["count", "count", "ff"]),
                cfg=cfg, busy=[rng.randrange(0, 4) for _ in range(rng.randrange(1, 5))], errs=errs,
                calls=calls)


def status_of(e):
    return e["data"][0x503 - e["off"]] if e["k"] == "rd" and e["off"] <= 0x503 < e["off"] + len(e["data"]) else None


def describe(tr, m):
    ev = tr["ev"]
    if m >= len(ev):
        return "accepted"
    e = ev[m]
    calls = [x for x in ev[:m + 1] if x["k"] == "call"]
    cur = f"{calls[-1]['op']}({calls[-1]['a']:#x})" if calls else "?"
    if e["k"] == "wr":
        st = [status_of(x) for x in ev[:m] if status_of(x) is not None][-1:]
        why = ("the interface was busy (M1)" if tr["cfg"]["init"] and not st or st and st[0] & 0x80 else
               "the EEPROM is not assigned to the master (M2)" if tr["cfg"]["own"] else "M1/M2")
        return f"{cur}: write of {e['data']} to {e['off']:#x} while {why}; last status byte shown: {st}"
    if e["k"] == "rd":
        return f"{cur}: the simulator showed {e['data']} at {e['off']:#x}, the specification's ESC does not"
    if e["k"] == "other":
        return f"{cur}: access outside the SII registers: {e} (M3)"
    if e["k"] == "ret":
        return f"{cur} returned {json.dumps({k: v for k, v in e.items() if k not in ('k', 'ok')})[:300]}: not what the EEPROM holds / not completed"
    if e["k"] == "exc":
        return f"{cur} raised {e['exc']} although the ESC showed no error"
    if e["k"] == "end":
        return "the simulator's EEPROM at the end is not the specification's (harness disagreement)"
    if e["k"] == "stall":
        return f"{cur} did not return within 2x the accesses a correct master needs (stall)"
    return f"event {e} rejected"


def run(ctx):
    wd = ctx.workdir()
    q = ctx.quick
    tm = ctx.extra["phase_wall_s"] = {}
    t0 = [time.time()]

    def lap(name):
        tm[name] = round(time.time() - t0[0], 1)
        t0[0] = time.time()
    # the exhaustive model check runs beside the conformance part (joined at the end)
    bg = ThreadPoolExecutor(1)
    mc = bg.submit(model_check_run, ctx, wd)
    scripts = enumerate_scripts(ctx, wd)
    lap("scripts")
    cases = list(scripts)
    for i in range(60 if q else 1500):
        cases.append(dict(random_script(random.Random(ctx.rng.random())), extra=f"{ctx.seed}/{i}"))
    traces = [drive({k: v for k, v in s.items() if k != "extra"}) for s in cases]
    lap("drive")
    results = validate(ctx, wd, traces) if q else validate(ctx, wd, traces, chunk=-(-len(traces) // 4), par=4)
    lap("validate")
    accepted_with = {i: r[3] for i, r in enumerate(results) if r[3]}
    ctx.rule = ("one evaluation = one script (image structure, ESC configuration, busy / failure pattern, "
                "call sequence) replayed on the real functions and validated by TLC against SiiAccess; "
                "non-trivial = the script has a busy duration > 0, a 4-byte interface, a failure, a "
                "foreign owner or a status bit set, or more than one call")
    ctx.exhaustive = True
    obs, parts, nev = {}, {}, 0
    for i, (s, tr, (m, ln, appl, _)) in enumerate(zip(cases, traces, results)):
        ctx.traces += 1
        nev += ln
        parts[s["part"]] = parts.get(s["part"], 0) + 1
        c = s["cfg"]
        ctx.evaluated(json.dumps(s, sort_keys=True),
                      nontrivial=bool(max(s["busy"]) > 0 or c["init"] or not c["cap8"] or any(s["errs"])
                                      or c["own"] or c["ck"] or c["dev"] or len(s["calls"]) > 1))
        if m == ln:
            continue
        if i in accepted_with:
            key = "+".join(accepted_with[i])
            o = obs.setdefault(key, dict(n=0, what=" / ".join(OBSERVATIONS[x] for x in accepted_with[i]),
                                         example=None))
            o["n"] += 1
            if o["example"] is None:
                o["example"] = dict(script={k: v for k, v in s.items() if k != "extra"}, why=describe(tr, m))
            continue
        why = describe(tr, m)
        if appl:
            why += f"; still rejected under the relaxations {appl}"
        calls = [x for x in tr["ev"][:m + 1] if x["k"] == "call"]
        ctx.case_failed(dict(script=s, part=s["part"], cfg=c, busy=s["busy"], errs=s["errs"],
                             calls=[x["op"] for x in s["calls"]], applicable=appl, rejected_at=m,
                             rejected_event=tr["ev"][m] if m < ln else None,
                             rejected_kind=tr["ev"][m]["k"] if m < ln else None,
                             in_call=calls[-1]["op"] if calls else None,
                             before=tr["ev"][max(0, m - 6):m]), why)
    model_check_done(ctx, *mc.result())
    bg.shutdown()
    lap("model_check_join")
    ctx.extra["observations"] = obs
    ctx.extra["script_parts"] = parts
    ctx.extra["trace_events"] = nev
    for key, o in sorted(obs.items()):
        print(f"OBSERVATION {PROPERTY} {key}: {o['n']} scripts: {o['what']}")
    for tr in (traces[0], traces[len(scripts) // 2]):
        ctx.sample(dict(cfg=tr["cfg"], image_len=len(tr["image"]), ev=tr["ev"][:10]))
    ctx.assumptions += [
        "harness/siiesc.py is the slave controller's SII interface (what it shows at every read is "
        "compared with the ESC of SiiAccess.tla by TLC)",
        "one datagram per frame (the write-enable bit counts for the command of the same datagram)",
        "EEPROM cells outside the image read 0xFF; writes stay inside the image",
        "busy durations are counted in status polls (virtual time); finitely many failed commands",
        "one task at a time uses the SII interface of a terminal",
    ]


def replay(ctx, case):
    s = {k: v for k, v in case["script"].items() if k != "extra"}
    tr = drive(s)
    for e in tr["ev"]:
        print(json.dumps(e)[:300])
