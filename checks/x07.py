"""X07 - the bundled devices other than Motor and Valve, on both execution paths.

Spec: spec/Devices.tla (the law of AnalogInput, AnalogOutput, DigitalInput, DigitalOutput,
RandomOutput, Counter, RandomDropper, Dummy: image + device variables + clock -> image + device
variables + verdict, the frame condition, what the generator constants give), MC_Devices /
MC_DevicesCounter / MC_DevicesLcg (exhaustive on small constants), DevicesRun over Ebpf.tla (one
cycle of the program a real FastSyncGroup emits, run by TLC's eBPF machine from arbitrary map
contents), DevicesTrace (recorded runs of the real code: SyncGroup.update_devices, the loaded
program in the kernel, FastSyncGroup.update_devices / fast_update, DeviceVar get / set).

Binding: harness/devgroup.py builds the REAL groups over hand-configured Generic terminals.  The
expected image / variables / verdict are computed by TLC from the memory a run starts on; Python
only generates inputs, drives the real code and reports TLC's verdicts and observation classes."""
import random
import time
from concurrent.futures import ThreadPoolExecutor

from harness import devgroup as DG, kernel, pvgroup as FG, tlc as T

PROPERTY = "X07"
LEVEL = "model_checking"

U32, U64 = 2 ** 32, 2 ** 64
LCG_A = 0xcf019d85


# ---- 1. the laws on small constants ------------------------------------------------------------------

def model_checks(ctx):
    """quick: the three small models in one TLC process (MC_DevicesAll); thorough: each on its own, larger"""
    if ctx.quick:
        jobs = [("MC_DevicesAll", "SPECIFICATION Spec\nCONSTANTS\n  FrameLen = 2\n  FrameBytes = {165}\n  Vals <- GValsQuick\n"
                 "  SmallVals = {0, 300}\n  Dts = {1, 7, 300}\n  T0s = {1000}\n  MaxCycles = 5\n  M = 1\n  Seeds = {77}\n"
                 "  Values = {0, 1, 128, 255, 256}\nINVARIANTS GridLaws CounterMeaning GeneratorFacts\nCHECK_DEADLOCK FALSE\n",
                 dict(grid="2-byte image over {165}, values {-129, 0, 255, 40000}", counter="5 cycles, differences {1, 7, 300}",
                      generator="1 byte, seed 77, values {0, 1, 128, 255, 256}"))]
    else:
        jobs = [
            ("MC_Devices", "INIT Init\nNEXT Next\nCONSTANTS\n  FrameLen = 2\n  FrameBytes = {0, 127, 128, 255}\n  Vals <- ValsDef\n"
             "  SmallVals = {0, 1, 7, 300}\nINVARIANTS InFrame FrameCondition InputIsGet OutputIsSet CounterIsInt CounterSlowIsInt\n"
             " DropperIsInt RandomOutputIsInt SlowInert OnlyDropperDrops\nCHECK_DEADLOCK FALSE\n",
             dict(grid="2-byte image over {0, 127, 128, 255}, 9 values")),
            ("MC_DevicesCounter", "SPECIFICATION Spec\nCONSTANTS\n  Dts = {1, 2, 7, 300}\n  T0s = {1, 1000}\n  MaxCycles = 7\n"
             "INVARIANTS CountsCycles LastTime MaxTime Squared\nCHECK_DEADLOCK FALSE\n",
             dict(counter="7 cycles, differences {1, 2, 7, 300}")),
            ("MC_DevicesLcg", "SPECIFICATION Spec\nCONSTANTS\n  M = 1\n  Seeds = {0, 77, 255}\n"
             "  Values = {0, 1, 2, 127, 128, 254, 255, 256, 300}\nINVARIANTS FullPeriod Frequency\nCHECK_DEADLOCK FALSE\n",
             dict(generator="1 byte, 3 seeds, 9 values")),
            ("MC_DevicesLcg", "SPECIFICATION Spec\nCONSTANTS\n  M = 2\n  Seeds = {40000}\n  Values = {1, 32768, 65535}\n"
             "INVARIANTS FullPeriod Frequency\nCHECK_DEADLOCK FALSE\n", dict(generator="2 bytes, seed 40000, 3 values")),
        ]

    def one(module, cfg, info):
        wd = ctx.workdir()
        T.write_cfg(wd, "mc.cfg", cfg)
        res = T.run(wd, module, "mc.cfg", workers=3, timeout=1500, deadlock=False)
        T.require_clean(res, module)
        return module, info, res

    with ThreadPoolExecutor(max_workers=len(jobs)) as ex:
        return list(ex.map(lambda j: one(*j), jobs))


# ---- 2. configurations ------------------------------------------------------------------------------

def term(position, fmmu, insz, outsz):
    return dict(position=position, fmmu=fmmu, insz=insz, outsz=outsz)


def configs(ctx):
    """deterministic list; ctx.rng adds random groups"""
    out = []
    n = [0]
    full = not ctx.quick

    def add(name, terms, devs):
        n[0] += 1
        out.append(dict(name=name, terms=terms, devs=devs, index=(7 * n[0]) % 64))

    # analog devices: every format, at an offset inside a larger area, FMMU and direct alternating
    # (quick: every format once per direction - ai: b H i Q, ao: B h I q)
    for k, f in enumerate("bBhHiIqQ"):
        sz = DG.FMT[f][0]
        if full or k % 4 in (0, 3):
            add(f"ai-{f}", [term(3 + k, k % 2 == 0, sz + 3, 2)], [dict(kind="ai", term=0, off=1 + k % 2, what=f)])
        if full or k % 4 in (1, 2):
            add(f"ao-{f}", [term(20 + k, k % 2 == 1, 1, sz + 3)], [dict(kind="ao", term=0, off=2 - k % 2, what=f)])
    # digital devices: every bit position - all eight on one byte, and (thorough) one device alone per bit
    add("di-byte", [term(38, True, 2, 0)], [dict(kind="di", term=0, off=1, what=b) for b in (3, 0, 7, 1, 6, 2, 5, 4)])
    add("do-byte", [term(39, False, 0, 2)], [dict(kind="do", term=0, off=0, what=b) for b in range(8)])
    for bit in (range(8) if full else ()):
        add(f"di-{bit}", [term(40 + bit, bit % 2 == 0, 2, 0)], [dict(kind="di", term=0, off=bit % 2, what=bit)])
        add(f"do-{bit}", [term(50 + bit, bit % 2 == 1, 0, 2)], [dict(kind="do", term=0, off=(bit + 1) % 2, what=bit)])
    for bit in (range(8) if full else (7,)):
        add(f"ro-{bit}", [term(60 + bit, bit % 2 == 0, 0, 3)], [dict(kind="ro", term=0, off=bit % 3, what=bit)])
    add("ro-byte", [term(69, True, 0, 1)], [dict(kind="ro", term=0, off=0, what=b) for b in (0, 1, 2, 3, 5, 6)])
    add("ctr", [], [dict(kind="ctr")])
    add("drop", [], [dict(kind="drop")])
    add("dummy", [term(70, False, 2, 2)], [dict(kind="dummy", terms=[0])])
    add("dummy+do", [term(71, True, 2, 2), term(72, False, 0, 1)],
        [dict(kind="dummy", terms=[0]), dict(kind="do", term=1, off=0, what=2)])
    # groups: neighbours in one byte / adjacent bytes, both kinds of addressing, clock users in the middle
    add("mix", [term(5, False, 4, 4), term(3, True, 2, 3)],
        [dict(kind="ai", term=0, off=0, what="h"), dict(kind="ao", term=0, off=2, what="h"),
         dict(kind="di", term=1, off=1, what=3), dict(kind="do", term=1, off=2, what=7),
         dict(kind="ro", term=1, off=2, what=0), dict(kind="do", term=1, off=2, what=1),
         dict(kind="ctr"), dict(kind="drop")])
    add("drop-first", [term(9, True, 1, 2)],
        [dict(kind="drop"), dict(kind="ctr"), dict(kind="do", term=0, off=1, what=4),
         dict(kind="di", term=0, off=0, what=6)])
    add("drop-middle", [term(11, False, 0, 4)],
        [dict(kind="ao", term=0, off=0, what="H"), dict(kind="drop"), dict(kind="ao", term=0, off=2, what="h"),
         dict(kind="ctr")])
    add("two-counters", [term(12, True, 12, 0)],
        [dict(kind="ctr"), dict(kind="ai", term=0, off=0, what="i"), dict(kind="ctr"),
         dict(kind="ai", term=0, off=4, what="Q")])
    add("packed-outputs", [term(14, True, 0, 8), term(13, True, 1, 1)],
        [dict(kind="ao", term=0, off=0, what="b"), dict(kind="ao", term=0, off=1, what="B"),
         dict(kind="ao", term=0, off=2, what="h"), dict(kind="ao", term=0, off=4, what="I"),
         dict(kind="do", term=1, off=0, what=0), dict(kind="do", term=1, off=0, what=7),
         dict(kind="di", term=1, off=0, what=0)])
    add("byte-of-bits", [term(15, False, 1, 1)],
        [dict(kind="do", term=0, off=0, what=b) for b in (6, 2)] + [dict(kind="ro", term=0, off=0, what=4)]
        + [dict(kind="di", term=0, off=0, what=b) for b in (1, 7)])
    rng = ctx.rng
    for r in range(2 if ctx.quick else 30):
        terms = [term(80 + 3 * r + j, rng.random() < .5, rng.choice((1, 2, 4, 9)), rng.choice((1, 2, 4, 9)))
                 for j in range(rng.randint(1, 3))]
        devs = []
        for _ in range(rng.randint(1, 5)):
            k = rng.choice(("ai", "ao", "di", "do", "ro", "ctr", "drop"))
            if k in ("ctr", "drop"):
                devs.append(dict(kind=k))
                continue
            ti = rng.randrange(len(terms))
            size = terms[ti]["insz" if k in DG.IN_KINDS else "outsz"]
            if k in ("ai", "ao"):
                f = rng.choice([f for f in "bBhHiIqQ" if DG.FMT[f][0] <= size])
                devs.append(dict(kind=k, term=ti, off=rng.randrange(size - DG.FMT[f][0] + 1), what=f))
            else:
                devs.append(dict(kind=k, term=ti, off=rng.randrange(size), what=rng.randrange(8)))
        add(f"random-{r}", terms, devs)
        out[-1]["random"] = True
    return out


# ---- 3. inputs (generation only; every expected value is computed by TLC) ----------------------------

def bvals(what):
    """boundary values of a process variable's format"""
    if isinstance(what, int):
        return [0, 1]
    n, s = DG.FMT[what]
    if s:
        lo, hi = -(1 << (8 * n - 1)), (1 << (8 * n - 1)) - 1
        return [lo, lo + 1, -1, 0, 1, hi - 1, hi]
    hi = (1 << (8 * n)) - 1
    return [0, 1, hi // 2, hi // 2 + 1, hi - 1, hi]


def lcg(x, mod):
    return (x * LCG_A + 1) % mod


def device_settings(d, rng):
    """the settings one device is put through, in order: dict(image=value of the linked variable before,
    vars=[integers of its device variables before], now=clock reading)"""
    k = d["kind"]
    out = []
    if k in ("ai", "di"):
        for v in bvals(d["what"]):
            out.append(dict(image=v, vars=[rng.randrange(U32)]))
    elif k == "ao":
        vals = bvals(d["what"]) + [32768, 65536, U32 - 1, 255, 256]          # some beyond the format: precondition
        for v in vals:
            out.append(dict(image=rng.randrange(256), vars=[v], legal=v in range(min(bvals(d["what"])), max(bvals(d["what"])) + 1)))
    elif k == "do":
        for v in (0, 1, 2, 255, 256, 2 ** 31, U32 - 1, 0):
            out.append(dict(image=len(out) % 2, vars=[v]))
    elif k == "ro":
        for seed in (0, 1, 2 ** 31 - 1, 2 ** 31, U32 - 1, 0x12345678):
            s2 = lcg(seed, U32)
            for v in (s2, s2 + 1, s2 - 1, 0, U32 - 1):
                out.append(dict(image=len(out) % 2, vars=[seed, max(0, min(U32 - 1, v))]))
    elif k == "ctr":
        for count in (0, 1, U32 - 2, U32 - 1):
            out.append(dict(vars=[count, 0, rng.randrange(U64), rng.randrange(U64)], now=rng.randrange(1, U64),
                            legal=count < U32 - 1))
        for last in (1, 10 ** 12, 2 ** 63):
            for mx in (0, 5, 2 ** 32, U64 - 1):
                for dt in (0, 1, max(0, mx - 1), mx, mx + 1, 2 ** 16, U32 - 1, U32, 2 ** 40):
                    if last + dt >= U64:
                        continue
                    room = U64 - 1 - dt * dt
                    for sq in ((0, 7) if len(out) % 3 else (max(0, room), max(0, room + 1), rng.randrange(U64))):
                        out.append(dict(vars=[rng.choice((0, 5, 70000)), last, mx, sq], now=last + dt,
                                        legal=sq + dt * dt < U64))
        out.append(dict(vars=[3, 500, 2, 2], now=400, legal=False))                # clock going backwards: precondition
    elif k == "drop":
        for now in (0, 1, 11443, 22886, rng.randrange(U64), rng.randrange(U64), U64 - 1):
            draw = lcg(now, 65536)
            for rate in (0, 1, draw, draw + 1, 65535, 65536, U32 - 1):
                out.append(dict(vars=[rate], now=now))
    else:
        out.append(dict(vars=[]))
    return out


def group_vectors(cfg, rng, count, thin=1):
    """input vectors of a whole group: vector v takes setting v of every device (rotating), the last
    `count` ones are random picks"""
    per = [device_settings(d, rng) for d in cfg["devs"]]
    if len(per) > 1:
        # in a group a device outside its precondition ends the law's demands on the whole cycle: such
        # settings are exercised on the device alone, and in every seventh vector of a group
        legal = [[s for s in p if s.get("legal", True)] for p in per]
        mixed = per
        per = legal
    per = [p[::thin] if len(p) > 12 else p for p in per]
    longest = max(len(p) for p in per)
    vectors = [[p[v % len(p)] for p in per] for v in range(longest)]
    if len(per) > 1:
        vectors += [[p[(7 * v) % len(p)] for p in mixed] for v in range(max(1, longest // 7))]
    for _ in range(count):
        vectors.append([rng.choice(p) for p in per])
    return vectors


def filler(mode, rng):
    if mode == 0:
        return lambda n: bytes(n)
    if mode == 1:
        return lambda n: bytes([255] * n)
    return lambda n: bytes(rng.randrange(256) for _ in range(n))


def machine_cases(r, cfg, vectors, rng):
    cases, meta = [], []
    for v, vec in enumerate(vectors):
        fill = filler(v % 3, rng)
        frame = DG.make_frame(r, fill, {i: s["image"] for i, s in enumerate(vec) if "image" in s})
        props = bytearray(fill(r.props_size))
        DG.put_dv(props, r.wkc, rng.choice((1, 1, 2, 77, U32 - 1)))          # outputs enabled
        for dev, s in zip(r.tla_devs, vec):
            for dv, x in zip(dev["dv"], s["vars"]):
                DG.put_dv(props, dv, x)
        nows = [s["now"] for d, s in zip(cfg["devs"], vec) if d["kind"] in ("ctr", "drop")]
        eth = bytes(rng.randrange(256) for _ in range(FG.ETH))
        cases.append(DG.machine_case(r, frame, bytes(props), nows, eth))
        meta.append(dict(config=cfg["name"], devs=cfg["devs"], terms=cfg["terms"], vector=vec, fill=v % 3, path="machine"))
    return cases, meta


def build_event(r=None, error=""):
    return dict(op="build", raised=error, ingroup=[] if r is None else
                [r.ingroup[i] for i in sorted({d["term"] for d in r.cfg["devs"] if "term" in d}
                                              | {i for d in r.cfg["devs"] for i in d.get("terms", ())})])


def slow_steps(r, cfg, vectors, rng, cycles):
    """a history: before every cycle the user assigns the writable variables of the vector (as Python
    values: negative numbers for signed outputs, True / False for digital ones), then one cycle"""
    steps = []
    for v, vec in enumerate(vectors[:cycles]):
        for i, (d, s) in enumerate(zip(cfg["devs"], vec)):
            k = d["kind"]
            if k == "ao":
                steps.append(dict(op="set", d=i, j=0, val=s["vars"][0]))
            elif k == "do":
                steps.append(dict(op="set", d=i, j=0, val=bool(s["vars"][0]) if v % 2 else s["vars"][0]))
            elif k == "ro":
                steps.append(dict(op="set", d=i, j=0, val=s["vars"][0]))
                steps.append(dict(op="prob", d=i, num=(3 * v + 1) % 9, den=8) if v % 3 == 2
                             else dict(op="set", d=i, j=1, val=s["vars"][1]))
            elif k == "drop":
                steps.append(dict(op="set", d=i, j=0, val=s["vars"][0]))
            elif k == "ctr" and v == 0:
                steps.append(dict(op="set", d=i, j=0, val=s["vars"][0] % 1000))
        fill = filler(v % 3, rng)
        steps.append(dict(op="cycle", frame=DG.make_frame(r, fill, {i: s["image"] for i, s in enumerate(vec)
                                                                 if "image" in s})))
        for i, d in enumerate(cfg["devs"]):
            for j in range(len(DG.VARS[d["kind"]])):
                if (v + i + j) % 2 == 0 or d["kind"] in ("ai", "di", "ctr"):
                    steps.append(dict(op="get", d=i, j=j))
    return steps


def fast_steps(r, cfg, vectors, rng, cycles):
    """the same on the fast path: assignments through the real DeviceVar (the mmap'ed map), the loaded
    program in the kernel on one frame per cycle, fast_update on a frame that reached user space"""
    steps = []
    for v, vec in enumerate(vectors[:cycles]):
        for i, (d, s) in enumerate(zip(cfg["devs"], vec)):
            k = d["kind"]
            if k == "ao":
                steps.append(dict(op="set", d=i, j=0, val=s["vars"][0]))
            elif k == "do":
                steps.append(dict(op="set", d=i, j=0, val=bool(s["vars"][0]) if v % 2 else s["vars"][0]))
            elif k == "ro":
                steps.append(dict(op="set", d=i, j=0, val=s["vars"][0]))
                steps.append(dict(op="prob", d=i, num=(3 * v + 1) % 9, den=8) if v % 3 == 2
                             else dict(op="set", d=i, j=1, val=s["vars"][1]))
            elif k == "drop":
                steps.append(dict(op="set", d=i, j=0, val=s["vars"][0]))
        fill = filler(v % 3, rng)
        images = {i: s["image"] for i, s in enumerate(vec) if "image" in s}
        steps.append(dict(op="run", frame=DG.make_frame(r, fill, images),
                          eth=bytes(rng.randrange(256) for _ in range(FG.ETH))))
        steps.append(dict(op="update", frame=DG.make_frame(r, fill, images, index_byte=2 * v + 1)))
        for i, d in enumerate(cfg["devs"]):
            for j in range(len(DG.VARS[d["kind"]])):
                if (v + i + j) % 2 == 0 or d["kind"] in ("ai", "di", "ctr"):
                    steps.append(dict(op="get", d=i, j=j))
    return steps


def initial_props(r, cfg, vec, rng, fresh):
    """map contents a fast history starts on: a fresh group's zeros, or arbitrary bytes with plausible
    Counter times (the kernel's clock is far above them)"""
    props = bytearray(r.props_size) if fresh else bytearray(rng.randrange(256) for _ in range(r.props_size))
    DG.put_dv(props, r.wkc, 1)
    if not fresh:
        for dev, d, s in zip(r.tla_devs, cfg["devs"], vec):
            if d["kind"] == "ctr":
                for dv, x in zip(dev["dv"], (s["vars"][0], rng.choice((0, 1, 10 ** 12)), rng.choice((0, 5, 2 ** 50)),
                                             rng.randrange(2 ** 40))):
                    DG.put_dv(props, dv, x)
    return bytes(props)


# ---- 4. judging -------------------------------------------------------------------------------------------

OBSERVATIONS = {
    "slow-ro-inert": "RandomOutput has no update(): in a slow SyncGroup its output is never switched and its seed "
                     "never advances (devices.py:115-130 defines only program())",
    "slow-ctr-inert": "Counter.update() only counts: lasttime / maxtime / squared are maintained on the fast path only "
                      "(devices.py:161-162 vs 149-159)",
    "slow-drop-inert": "RandomDropper has no update(): in a slow SyncGroup nothing is ever dropped (devices.py:341-355)",
    "fast-ao-value-not-storable": "AnalogOutput.value is DeviceVar('I') (devices.py:63): on a FastSyncGroup a negative value "
                                  "for a signed analog output cannot be assigned (struct.error), the slow path writes it",
    "fast-do-value-not-storable": "DigitalOutput.value is DeviceVar('I') (devices.py:102): a value outside 0..2^32-1 cannot be "
                                  "assigned on a FastSyncGroup, the slow path takes its truth value",
    "fast-ai-value-not-storable": "AnalogInput.value is DeviceVar('I') (devices.py:38): on a FastSyncGroup fast_update() raises "
                                  "struct.error out of FastSyncGroup.update_devices for a negative reading of a signed input "
                                  "(or one above 2^32-1); the slow path returns it",
    "dummy-not-groupable": "Dummy.get_terminals() returns a set (devices.py:334-335) but SyncGroupBase.__init__ iterates "
                           ".items() (ebpfcat.py:797): a Dummy cannot be put into any sync group (AttributeError)",
}


def is_dummy_build_failure(case):
    """the predicate of the observation `dummy-not-groupable`: the trace was rejected at its build event,
    the group contains a Dummy, and the constructor died on the set it returned"""
    return (case.get("rejected_op") == "build" and any(d["kind"] == "dummy" for d in case["devs"])
            and "'set' object has no attribute 'items'" in case.get("error", ""))


def jsonable(x):
    if isinstance(x, (bytes, bytearray)):
        return list(x)
    if isinstance(x, dict):
        return {k: jsonable(v) for k, v in x.items()}
    if isinstance(x, (list, tuple)):
        return [jsonable(v) for v in x]
    return x


def brief(e):
    if e is None:
        return None
    out = {k: v for k, v in e.items() if k not in ("pb", "inp", "out", "pkt", "data", "vs")}
    if "val" in out:
        out["val"] = DG.unword(out["val"]) if -1 not in out["val"] else "not an integer"
    if "vs" in e:
        out["vars_after"] = [[DG.unword(w) if -1 not in w else "not an integer" for w in v] for v in e["vs"]]
    return out


def run(ctx):
    tally = {}
    with ThreadPoolExecutor(max_workers=2) as ex:
        f_mc = ex.submit(model_checks, ctx)
        run_bound(ctx, tally)
        t2 = time.time()
        mcs = f_mc.result()
        ctx.extra.setdefault("timing", {})["waited_for_model_checks_s"] = round(time.time() - t2, 1)
    info = []
    for module, inf, res in mcs:
        ctx.tlc_stats(res)
        info.append(dict(inf, module=module, distinct=res.distinct, held=res.ok))
        if not res.ok:
            ctx.case_failed(dict(kind="law-model", module=module, violated=res.invariant_violated),
                            f"{module}: a stated consequence of the laws fails on the small model:\n"
                            + res.counterexample()[:1500])
    ctx.extra["model_checks"] = info
    ctx.extra["observations"] = {k: dict(count=v, what=OBSERVATIONS.get(k, "?")) for k, v in sorted(tally.items())}
    for k, v in sorted(tally.items()):
        print(f"OBSERVATION property=X07 {k}: {OBSERVATIONS.get(k, '?')} ({v} steps)")
    ctx.exhaustive = False


def run_bound(ctx, tally):
    quick = ctx.quick
    t0 = time.time()
    gen = random.Random(707)                               # inputs of the deterministic part: seed-independent
    cases, cmeta, traces, tmeta, rigs = [], [], [], [], []
    cfgs = configs(ctx)
    for cfg in cfgs:
        rng = ctx.rng if cfg.get("random") else gen
        single = len(cfg["devs"]) == 1
        vectors = group_vectors(cfg, rng, 2 if quick else 8, thin=1 if not quick else 6 if single else 4)
        if quick and not single:                           # a different third of the boundary vectors per group
            k = len(rigs) % 3
            vectors = vectors[k::3] if len(vectors) > 9 else vectors
        built = {}
        for path in ("fast", "slow"):
            try:
                built[path] = DG.build(cfg, path)
            except T.MachineryError:
                raise
            except Exception as e:                         # a case result: the build event is judged by TLC
                err = f"{type(e).__name__}: {e}"[:200]
                traces.append(dict(path=path, devs=[], free=[], wkc=dict(off=0, n=0), pb0=[], vs0=[],
                                   ev=[build_event(None, err)]))
                tmeta.append(dict(config=cfg["name"], devs=cfg["devs"], terms=cfg["terms"], path=path, steps=[],
                                  error=err))
        if "fast" in built:
            r = built["fast"]
            rigs.append(r)
            # quick: a device alone gets all its (thinned) vectors - the comparisons of its law; a group five
            mv = vectors if not quick or single else vectors[:4] + vectors[-1:]
            if all(d["kind"] in ("ai", "dummy") for d in cfg["devs"]):
                mv = mv[:3]                                # an empty program: nothing to vary
            c, m = machine_cases(r, cfg, mv, rng)
            cases += c
            cmeta += m
            for h in range(1 if quick else 3):
                vecs = vectors[h::(1 if quick else 3)] if h < 2 else [rng.choice(vectors) for _ in range(6)]
                steps = fast_steps(r, cfg, vecs, rng, 3 if quick else 8)
                tr = DG.fast_trace(r, steps, initial_props(r, cfg, vecs[0], rng, fresh=h == 0))
                tr["ev"].insert(0, build_event(r))
                traces.append(tr)
                tmeta.append(dict(config=cfg["name"], devs=cfg["devs"], terms=cfg["terms"], path="fast", history=h,
                                  steps=steps))
        if "slow" in built:
            r = built["slow"]
            for h in range(1 if quick else 3):
                if h:
                    r = DG.build(cfg, "slow")              # a fresh group per history
                vecs = vectors[h::(1 if quick else 3)] if h < 2 else [rng.choice(vectors) for _ in range(6)]
                steps = slow_steps(r, cfg, vecs, rng, 4 if quick else 10)
                tr = DG.slow_trace(r, steps)
                tr["ev"].insert(0, build_event(r))
                traces.append(tr)
                tmeta.append(dict(config=cfg["name"], devs=cfg["devs"], terms=cfg["terms"], path="slow", history=h,
                                  steps=steps))
    t1 = time.time()
    ctx.extra.setdefault("timing", {})["real_code_s"] = round(t1 - t0, 1)
    try:
        with ThreadPoolExecutor(max_workers=2) as ex:
            def timed_validate():
                out = DG.validate(ctx, traces, len(traces) if quick else 80, 1 if quick else 5)
                ctx.extra.setdefault("timing", {})["trace_validation_s"] = round(time.time() - t1, 1)
                return out
            f_tr = ex.submit(timed_validate)
            verdicts = DG.run_cases(ctx, cases, shards=1 if quick else 3, workers=4)
            ctx.extra.setdefault("timing", {})["machine_s"] = round(time.time() - t1, 1)
            results, obs, notes = f_tr.result()
    finally:
        for r in rigs:
            DG.close(r)
    ctx.rule = ("per configuration (every analog format b B h H i I q Q, every bit 0-7, FMMU and direct addressing, "
                "groups with neighbouring bits / bytes and clock users in the middle, seeded random groups): input "
                "vectors = boundary values of every format involved, values aimed at every comparison of the laws "
                "-1/0/+1 (next seed, draw, maxtime, 64-bit overflow of squared, counter wrap), all-zero / all-one / "
                "random surroundings, + seeded random picks; each vector as one machine cycle from arbitrary map "
                "contents, and inside slow / fast histories of several cycles with user assignments and reads; "
                "non-trivial = TLC finds the law's preconditions true and its results representable (machine), "
                "the history is accepted to its end and the law was demanded of at least one of its cycles / "
                "program runs / fast_updates (traces; TLC reports per step whether it was)")
    ctx.assumptions.append("the fast group's outputs are enabled (wkc_errors != 0); command byte and working counter of the "
                           "datagrams are not judged (C21 / slow cycle); frames that reach user space carry an odd index "
                           "(FastSyncGroup.update_devices takes those as current data)")
    ctx.extra.update(configurations=len(cfgs), machine_cases=len(cases), traces_slow=sum(1 for m in tmeta if m["path"] == "slow"),
                     traces_fast=sum(1 for m in tmeta if m["path"] == "fast"),
                     kernel_runs=sum(1 for t in traces for e in t["ev"] if e["op"] == "run"),
                     kernel="usable" if kernel.available() else "not usable: fast histories without program runs")

    # machine cycles
    ctx.extra["machine_cases_law_demanded"] = sum(1 for v in verdicts.values() if v and v[0][0] and v[0][1])
    for i, m in enumerate(cmeta, 1):
        v = verdicts.get(i)
        if not v or len(v) != 1:
            raise T.MachineryError(f"{0 if not v else len(v)} verdicts for machine case {i}: {m['config']}")
        pre, holds, ok, detail = v[0]
        ctx.traces += 1
        ctx.evaluated(("machine", m["config"], repr(m["vector"]), m["fill"]), nontrivial=bool(pre and holds))
        if i % 97 == 1:
            ctx.sample(dict(path="machine", config=m["config"], vector=m["vector"], act=detail.get("act")))
        if not ok:
            ctx.case_failed(dict(jsonable(m), kind="machine", detail=detail),
                            f"fast program of group {m['config']} {[d['kind'] for d in m['devs']]} on vector {m['vector']}: "
                            f"final state {detail.get('st')}, action {detail.get('act')} (law: {detail.get('wantact')}), "
                            f"frame differs at {detail.get('pktdiff')}, device variables differ at {detail.get('vardiff')}, "
                            f"other map bytes at {detail.get('otherdiff')}, clock reads/expected {detail.get('clock')}")
    # histories
    steps_judged = dict(demanded=0, outside=0)
    ctx.extra["cycles_runs_updates_in_histories"] = steps_judged
    for i, (m, tr, (matched, length)) in enumerate(zip(tmeta, traces, results)):
        ctx.traces += 1
        demanded = sum(1 for a in notes.get(i, {}).values() if a)
        steps_judged["demanded"] += demanded
        steps_judged["outside"] += sum(1 for a in notes.get(i, {}).values() if not a)
        ctx.evaluated((m["path"], m["config"], m.get("history"), repr(m["steps"])[:2000]),
                      nontrivial=matched == length and demanded > 0)
        for _, c in obs.get(i, ()):
            tally[c] = tally.get(c, 0) + 1
        if i % 41 == 3:
            ctx.sample(dict(path=m["path"], config=m["config"], events=[brief(e) for e in tr["ev"][:6]]))
        if matched == length:
            continue
        bad = tr["ev"][matched]
        case = dict(jsonable({k: v for k, v in m.items() if k != "steps"}), kind="trace", rejected_at=matched,
                    rejected_op=bad["op"], rejected_event=brief(bad), error=m.get("error", bad.get("error", "")),
                    events=[brief(e) for e in tr["ev"][max(0, matched - 6):matched + 1]],
                    steps=jsonable(m["steps"]))
        if is_dummy_build_failure(case):
            tally["dummy-not-groupable"] = tally.get("dummy-not-groupable", 0) + 1
            continue
        ctx.case_failed(case, f"{m['path']} history of group {m['config']} {[d['kind'] for d in m['devs']]}: event "
                              f"{matched} of {length} ({bad['op']}) is not a step of the device laws: {brief(bad)}"[:900])


def replay(ctx, case):
    cfg = dict(name=case["config"], terms=case["terms"], devs=case["devs"])
    if case["kind"] == "machine":
        r = DG.build(cfg, "fast")
        c, m = machine_cases(r, cfg, [case["vector"]], random.Random(1))
        v = DG.run_cases(ctx, c, shards=1, workers=1)
        print(v[1][0])
        if not v[1][0][2]:
            ctx.case_failed(case, "replayed: still rejected")
        DG.close(r)
        return
    r = DG.build(cfg, case["path"])
    steps = [dict(s, **({"frame": bytes(s["frame"])} if "frame" in s else {}),
                  **({"eth": bytes(s["eth"])} if "eth" in s else {})) for s in case["steps"]]
    tr = DG.slow_trace(r, steps) if case["path"] == "slow" else \
        DG.fast_trace(r, steps, initial_props(r, cfg, [dict(vars=[0] * 4)] * len(cfg["devs"]), random.Random(1), True))
    tr["ev"].insert(0, build_event(r))
    res, obs, _ = DG.validate(ctx, [tr])
    for e in tr["ev"]:
        print("  ", brief(e))
    print("TLC matched", res[0], "observations", sorted(obs.get(0, ())))
    if res[0][0] != res[0][1]:
        ctx.case_failed(case, "replayed: still rejected")
