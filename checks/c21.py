"""C21 - fast-group frames only write outputs computed in the same pass.

Spec: spec/FastGroupFrame.tla (what a write datagram is, Sterile, PassOK), spec/FastGroup.tla (one
frame at a time: TLC executes the REAL emitted FastSyncGroup program on the machine of Ebpf.tla and
judges the pass), spec/Dispatcher.tla (the requirement over histories, on the table TLC computed
from the real dispatcher + group bytecode - see checks/c22.py).

1. user space: for every layout, SterilePacket.sterile's output and every frame the real
   FastSyncGroup.run / update_devices hand to roundtrip_packet (driven under virtual time with
   active / passive / missing answers) must be the reference frame with exactly the write
   datagrams' commands NOP;
2. one pass: ~60 layouts (FMMU and direct terminals, and terminals of every class of the package that
   lays out its own datagrams by overriding allocate - found by introspection; 0-4 write datagrams) x every subset of wrong / right
   returned working counters x output enabled / disabled x frame arriving sterile / enabled;
3. histories: OutputsFresh and PassesOK over all histories of the C22 model."""
import itertools
import json
import logging
import os

from harness import tlc as T, kernel, progs
from harness import fastgroup as FG

PROPERTY = "C21"
LEVEL = "model_checking"


def pass_cases(ctx, r, li, lay):
    """the frames handed to the group's program for one layout"""
    slots = FG.writer_slots(r)
    w = len(slots)
    out = []
    e0s = [0, 1] if ctx.quick else [0, 1, 0x1FF, 0xFFFFFFFE]
    for wrong in itertools.chain.from_iterable(itertools.combinations(range(w), n) for n in range(w + 1)):
        for enabled in (False, True):
            for e0 in e0s:
                kind = (len(wrong) + (1 if enabled else 0) + e0) % 3 if ctx.quick else ctx.rng.randrange(4)
                frame = FG.returned_frame(r, enabled, set(wrong), 2 * ctx.rng.randrange(128) + 1, ctx.rng, kind)
                out.append(dict(frame=frame, props=FG.props_with(r, e0), wrong=list(wrong), enabled=enabled,
                                e0=e0, wrong_kind=kind))
    return out


def run(ctx):
    n_lay = 18 if ctx.quick else 56
    lays = FG.layouts(n_lay, ctx.rng)                       # deterministic list + a few random layouts
    cases, meta, rigs = [], [], []
    logging.disable(logging.CRITICAL)
    for li, lay in enumerate(lays):
        try:
            r = FG.build(lay, g=(7 * li + 3) % 64, with_dispatcher=False, seed=li + 1)
        except Exception as e:                                   # the generator refusing a layout
            ctx.case_failed(dict(kind="build", layout=lay, error=f"{type(e).__name__}: {e}"),
                            f"layout {li}: FastSyncGroup could not be assembled: {type(e).__name__}: {e}")
            continue
        rigs.append(r)
        base = dict(ref=list(r.ref), terms=r.tla_terms)
        nwr = len(FG.writer_slots(r))
        # 1. what user space emits
        emitted = [("SterilePacket.sterile", r.sterile)]
        script = [("frame", FG.returned_frame(r, True, set(), 7, ctx.rng)), ("timeout",),
                  ("frame", FG.returned_frame(r, False, set(), 8, ctx.rng)),
                  ("frame", FG.returned_frame(r, True, {0} if nwr else set(), 9, ctx.rng, 1)), ("timeout",),
                  ("frame", FG.returned_frame(r, True, set(), 255, ctx.rng))]
        sent, end = FG.userspace_frames(r, script)
        if end != "returned":
            ctx.case_failed(dict(kind="userspace-run", layout=lay, end=end),
                            f"layout {li}: FastSyncGroup.run ended with {end}")
        for k, s in enumerate(sent):
            emitted.append((f"FastSyncGroup.run send #{k}", FG.eth(s)))
        seen = set()
        for what, frame in emitted:
            if what != "SterilePacket.sterile" and frame in seen:
                continue                                          # same bytes as a frame already judged
            seen.add(frame)
            cases.append(dict(base, kind="sterile", pkt=list(frame)))
            meta.append(dict(kind="sterile", layout=li, what=what, frame=frame.hex(), writers=nwr))
        ctx.extra.setdefault("userspace_sends", 0)
        ctx.extra["userspace_sends"] += len(sent)
        # 2. one pass of the group's program
        for pc in pass_cases(ctx, r, li, lay):
            c = progs.case(r.group, pkt=pc["frame"], arr={r.props_no: pc["props"]},
                           orc=[list((123456789).to_bytes(8, "little"))] * 4, fuel=3000)
            c["maps"] = [dict(type=m["type"], ks=m["ks"], vs=m["vs"], max=m["max"]) for m in r.maps]
            c["progs"] = [[] for _ in r.maps]
            c.update(base, kind="pass", pidx=1, wkcOff=r.wkc_off)
            cases.append(c)
            meta.append(dict(kind="pass", layout=li, rig=len(rigs) - 1, writers=nwr, wrong=pc["wrong"],
                             enabled=pc["enabled"], e0=pc["e0"], frame=pc["frame"].hex(), props=pc["props"].hex(),
                             wrong_kind=pc["wrong_kind"], fmmu=[t["fmmu"] for t in lay["terms"]],
                             counter=bool(lay.get("counter"))))
    logging.disable(logging.NOTSET)
    wd = ctx.workdir()
    path = os.path.join(wd, "cases.json")
    with open(path, "w") as f:
        json.dump(cases, f)
    res = T.run(wd, "FastGroup", "FastGroup.cfg", workers=6, timeout=2400, deadlock=False, env={"TRACE_FILE": path})
    if res.error or not res.finished:
        raise T.MachineryError("FastGroup failed:\n" + (res.error or res.out[-3000:]))
    ctx.tlc_stats(res)
    verdicts = {cid: (ok, why, det) for cid, ok, why, det in T.printed_records(res, "VERDICT")}
    if len(verdicts) != len(cases):
        raise T.MachineryError(f"{len(verdicts)} verdicts for {len(cases)} cases")
    ctx.rule = ("layouts (direct / FMMU terminals, 0-4 write datagrams) x subsets of wrong returned working "
                "counters x output enabled / disabled x frame sterile / enabled, each executed by TLC on the "
                "real group program; every frame the real user-space loop emitted; non-trivial = at least one "
                "write datagram and (for a pass) output enabled")
    krigs = {}
    kn = kbad = 0
    for i, m in enumerate(meta, 1):
        ok, why, det = verdicts[i]
        ctx.traces += 1
        if m["kind"] == "sterile":
            ctx.evaluated(("sterile", m["layout"], m["what"], m["frame"]), nontrivial=m["writers"] > 0)
            if not ok:
                ctx.case_failed(dict(m, why=why, enabled=det["enabled"], writer_offsets=det["writers"]),
                                f"layout {m['layout']}: {m['what']} emitted a frame that is not sterile ({why}; "
                                f"write datagrams at {det['writers']}, enabled {det['enabled']})")
            continue
        ctx.evaluated(("pass", m["layout"], tuple(m["wrong"]), m["enabled"], m["e0"]),
                      nontrivial=m["writers"] > 0 and m["e0"] != 0)
        if i % 211 == 5:
            ctx.sample(dict(layout=m["layout"], writers=m["writers"], wrong=m["wrong"], enabled_on_arrival=m["enabled"],
                            wkc_errors_before=m["e0"], wkc_errors_after=int.from_bytes(bytes(det["e1"]), "little"),
                            verdict=why))
        if not ok:
            ctx.case_failed(dict({k: m[k] for k in ("kind", "layout", "writers", "wrong", "enabled", "e0", "fmmu",
                                                     "wrong_kind", "frame", "props")},
                                 why=why, status=det["st"], counted=det["wrong"], writer_offsets=det["writers"],
                                 e1=int.from_bytes(bytes(det["e1"]), "little") if det["e1"] else None,
                                 out=bytes(det["pkt"]).hex()),
                            f"layout {m['layout']} ({m['writers']} write datagrams, wrong counters in {m['wrong']}, "
                            f"frame {'enabled' if m['enabled'] else 'sterile'} on arrival, wkc_errors {m['e0']}): {why}; "
                            f"wkc_errors after {int.from_bytes(bytes(det['e1']), 'little') if det['e1'] else '?'}")
        # machine = kernel on this pass
        if kernel.available() and det["st"] == ["exit"]:
            r = rigs[m["rig"]]
            if m["rig"] not in krigs:
                try:
                    krigs[m["rig"]] = FG.KernelRig(r)
                except kernel.VerifierReject as e:
                    krigs[m["rig"]] = None
                    ctx.case_failed(dict(kind="verifier-reject", layout=m["layout"], log=e.log[-500:]),
                                    f"layout {m['layout']}: the kernel verifier rejects the group's program")
            kr = krigs[m["rig"]]
            if kr is not None:
                rv, out, props = kr.group_pass(bytes.fromhex(m["props"]), bytes.fromhex(m["frame"]))
                kn += 1
                mp = bytes(det["props"])
                same_props = props == mp if not m["counter"] else \
                    props[r.wkc_off:r.wkc_off + 4] == mp[r.wkc_off:r.wkc_off + 4]
                if rv != int.from_bytes(bytes(det["r0"]), "little") or out != bytes(det["pkt"]) or not same_props:
                    kbad += 1
                    ctx.extra.setdefault("kernel_mismatch_examples", []).append(
                        dict(layout=m["layout"], rv=rv, machine_r0=det["r0"], frame_same=out == bytes(det["pkt"]),
                             props_same=same_props))
    for kr in krigs.values():
        if kr is not None:
            kr.close()
    for r in rigs:
        FG.close_maps(r)
    ctx.extra["layouts"] = len(rigs)
    ctx.extra["kernel_passes"] = dict(executed=kn, mismatches=kbad) if kernel.available() else "bpf() not available"
    if kbad:
        raise T.MachineryError(f"machine and kernel disagree on {kbad} of {kn} passes: "
                               f"{ctx.extra['kernel_mismatch_examples'][:3]}")
    # 3. over the histories of C22: the table from the real dispatcher + group bytecode
    from checks import c22
    r, entries, _, tpath, wd2, K, cbs = c22.table(ctx, tag="C21")
    for key, o in entries.items():
        ctx.traces += 1
        ctx.evaluated(("delivery",) + key, nontrivial=o["ran"] or o["en2"])
    found = FG.check_invariants(ctx, wd2, tpath, ["TableCovers", "OutputsFresh", "PassesOK"],
                                start_registered=True, can_unregister=True, pass_bound=6, inject_unreg=False,
                                window=ctx.quick)
    ctx.exhaustive = True
    ctx.extra["model"] = dict(K=K, max_flight=3, counter_values=len(cbs), violated=sorted(found))
    for inv, states in found.items():
        hist = FG.history(states)
        last = states[-1]["vars"] if states else {}
        ctx.case_failed(dict(kind="history", invariant=inv, K=K, history=hist, frames=last.get("fl"),
                             bad=last.get("bad")),
                        f"{inv} violated by the real bytecode after: {FG.describe(hist)}")
    ctx.assumptions.append(f"histories: age bound K={K} as in C22; user space injects only for a registered group")
    FG.close_maps(r)
