"""C06 - in-place addition on 4/8-byte variables never loses updates.

Spec: spec/Xadd.tla over spec/Ebpf.tla.  The bytecode the REAL generator emits for `v += a` /
`v -= a` (every 4/8-byte format, memory kind and amount form) is executed by TLC as N instances
interleaved at instruction granularity over shared map memory; at the end the variable must
have changed by exactly the sum of all amounts."""
import json
import os

from harness import tlc as T, progs

PROPERTY = "C06"
LEVEL = "model_checking"
FMTS = {"i": 4, "I": 4, "q": 8, "Q": 8, "x": 8}


def word(v, n):
    return list((v % (1 << (8 * n))).to_bytes(n, "little"))


def make_class(kind, fmt, akind, sign, k):
    """a minimal XDP program containing the one statement under test"""
    from ebpfcat.xdp import XDP, XDPExitCode
    from ebpfcat.arraymap import ArrayMap, PerCPUArrayMap
    from ebpfcat.ebpf import LocalVar, Structure, Member
    from ebpfcat.hashmap import Dict
    m = PerCPUArrayMap() if kind == "percpu" else ArrayMap()
    afmt = "q" if FMTS[fmt] == 8 else "i"
    ns = dict(license="GPL", m=m, v=m.globalVar(fmt), a1=m.globalVar(afmt), a2=m.globalVar(afmt))
    if akind.startswith("fix"):
        ns["xa"] = m.globalVar("x")                     # a fixed-point amount (scaled down before it is added)
    if kind == "local":
        ns["loc"] = LocalVar(fmt)
    if kind == "dictval":
        # a member of the looked-up value of a Dict: it lives in the hash map, shared by all instances
        K = type("K", (Structure,), {"k": Member("I")})
        V = type("V", (Structure,), {"pad": Member("Q"), "count": Member(fmt)})
        ns["dd"] = Dict(key=K, value=V, size=4)

    def amount(self):
        if akind == "const":
            return k
        if akind == "reg":
            self.r3 = self.a1
            return self.r3
        if akind == "fixvar":
            return self.xa
        if akind == "fixreg":
            self.x[3] = self.xa
            return self.x[3]
        return self.a1 + self.a2                       # expression reading other variables

    def program(self):
        if kind == "local":
            self.loc = self.v                          # initialise the local from the map
        a = amount(self)
        if kind in ("map", "percpu"):
            if sign > 0:
                self.v += a
            else:
                self.v -= a
        elif kind == "local":
            if sign > 0:
                self.loc += a
            else:
                self.loc -= a
        elif kind == "dictval":
            self.dd.key.k = DICT_KEY
            with self.dd.lookup() as (value, Else):
                if sign > 0:
                    value.count += a
                else:
                    value.count -= a
        else:                                          # raw memory access through the map base
            mm = getattr(self, "m" + fmt)
            addr = self.r[m.base_register] + self.__dict__["v"]
            if kind.startswith("memr"):
                # ... or through a register of the program's own choice holding the map's address (any register:
                # r9, where XDP programs keep the packet, is an ordinary register for such an access)
                no = int(kind[4:])
                self.r[no] = self.r[m.base_register] + 0
                addr = self.r[no] + self.__dict__["v"]
            if sign > 0:
                mm[addr] += a
            else:
                mm[addr] -= a
        self.exit(XDPExitCode.PASS)
    ns["program"] = program
    return type(f"X_{kind}_{fmt}_{akind}_{'p' if sign > 0 else 'm'}", (XDP,), ns)


DICT_KEY = 7


def shapes(ctx):
    out = []
    for kind in ("map", "percpu", "local", "mem", "dictval"):
        for fmt in FMTS:
            for sign in (1, -1):
                consts = [1, 5, -3, 2 ** 31 - 1] + ([2 ** 40 + 7] if FMTS[fmt] == 8 and fmt != "x" else [])
                if fmt == "x":
                    consts = [1, 5, -3, 20000]
                for k in consts:
                    out.append((kind, fmt, "const", sign, k))
                for akind in ("reg", "expr"):
                    out.append((kind, fmt, akind, sign, 7 if akind == "reg" else None))
    # a fixed-point amount (variable or x register) added to an integer variable: converted, then added atomically.
    # Only `+=`: `-=` negates the amount BEFORE the conversion, and dividing a negative raw value by 100000 is the
    # known finding F1x (unsigned division; C02's subject, 96 deterministic miscalculations here, no lost update)
    for kind in ("map", "local", "mem"):
        for fmt in FMTS:
            if fmt == "x":
                continue
            for akind in ("fixvar", "fixreg"):
                out.append((kind, fmt, akind, 1, 7))
    # raw memory reached through every register a program may use for an address
    for no in (2, 4, 6, 8, 9):
        for fmt in FMTS:
            for sign in (1, -1):
                out.append((f"memr{no}", fmt, "const", sign, 5 if sign > 0 else 3))
                if no in (6, 9):
                    out.append((f"memr{no}", fmt, "reg", sign, 7))
                    out.append((f"memr{no}", fmt, "expr", sign, None))
    return out


def run(ctx):
    import struct
    n = 2 if ctx.quick else 3
    cases, meta = [], []
    skipped = []
    for (kind, fmt, akind, sign, k) in shapes(ctx):
        size = FMTS[fmt]
        try:
            b = progs.build(make_class(kind, fmt, akind, sign, k))
        except Exception as e:      # the generator refusing a statement is outside C06 (see C05)
            skipped.append((kind, fmt, akind, sign, k, f"{type(e).__name__}: {e}"))
            continue
        inst = b.inst
        vs = b.maps[0]["vs"]
        a1, a2 = (11, -4) if akind == "expr" else (k if akind == "reg" else 0, 0)
        amount = k if akind != "expr" else a1 + a2
        xa = k * 100000 if akind.startswith("fix") else None
        M = 1 << (8 * size)
        inits = [0, 1, M - 2, M // 2 - 1] if ctx.quick else [0, 1, M - 2, M // 2 - 1, M - 1,
                                                              ctx.rng.randrange(M)]
        if fmt == "x":
            inits = [0, 100000, M - 100000, 12345678]
        for init in inits:
            buf = bytearray(vs)
            buf[inst.__dict__["v"]:inst.__dict__["v"] + size] = word(init, size)
            asz = 8 if size == 8 else 4
            buf[inst.__dict__["a1"]:inst.__dict__["a1"] + asz] = word(a1, asz)
            buf[inst.__dict__["a2"]:inst.__dict__["a2"] + asz] = word(a2, asz)
            if xa is not None:
                buf[inst.__dict__["xa"]:inst.__dict__["xa"] + 8] = word(xa, 8)
            hashes = []
            if kind == "dictval":
                dfd = next(j + 1 for j, mm in enumerate(b.maps) if mm["type"] == "hash")
                entry = bytes(8) + bytes(word(init, size))
                hashes = [(dfd, DICT_KEY.to_bytes(4, "little"), entry + bytes(b.maps[dfd - 1]["vs"] - len(entry)))]
            c = progs.case(b, arr={1: bytes(buf)}, hashes=hashes)
            if kind == "local":
                var = dict(kind="stack", fd=0, off=type(inst).loc.relative_addr, size=size)
            elif kind == "dictval":
                var = dict(kind="hash", fd=dfd, off=8, size=size, key=list(DICT_KEY.to_bytes(4, "little")))
            else:
                var = dict(kind="map", fd=1, off=inst.__dict__["v"], size=size)
            c.update(n=n, var=var, fmt=fmt, amount=word(amount, size), sign=sign, stack0=word(init, size))
            cases.append(c)
            meta.append(dict(kind=kind, fmt=fmt, amount_kind=akind, sign=sign, k=amount, init=init,
                             n=n, code=b.code.hex()))
    if not cases:
        raise T.MachineryError("no C06 case could be built")
    wd = ctx.workdir()
    path = os.path.join(wd, "cases.json")
    json.dump(cases, open(path, "w"))
    res = T.run(wd, "Xadd", "XaddObserve.cfg", timeout=3000, deadlock=False, env={"TRACE_FILE": path})
    if res.error:
        raise T.MachineryError("Xadd failed:\n" + res.error[:3000])
    ctx.tlc_stats(res)
    verdict = {}
    for cid, ok, sts, vals in T.printed_records(res, "VERDICT"):
        v = verdict.setdefault(cid, dict(ok=True, bad=[]))
        if not ok:
            v["ok"] = False
            v["bad"].append((sts, vals))
    ctx.exhaustive = True
    ctx.rule = (f"every statement shape (5 memory kinds (incl. members of a looked-up Dict value) x 5 formats x += / -= x constant / register / "
                f"expression amounts) x initial values, {n} instances, all interleavings; non-trivial = "
                f"shared map variable (the instances really race)")
    ctx.extra.update(instances=n, shapes_skipped=skipped[:20], n_skipped=len(skipped))
    for i, (c, m) in enumerate(zip(cases, meta), 1):
        v = verdict.get(i)
        if v is None:
            raise T.MachineryError(f"no verdict for case {i}: {m}")
        ctx.traces += 1
        ctx.evaluated((m["kind"], m["fmt"], m["amount_kind"], m["sign"], m["k"], m["init"]),
                      nontrivial=m["kind"] != "local")
        if i % 97 == 1:
            ctx.sample({k2: m[k2] for k2 in ("kind", "fmt", "amount_kind", "sign", "k", "init", "n")})
        if not v["ok"]:
            ctx.case_failed(dict(m, observed=v["bad"][:3]),
                            f"{m['kind']} variable '{m['fmt']}' {'+=' if m['sign'] > 0 else '-='} "
                            f"{m['amount_kind']} {m['k']} from {m['init']} with {n} instances: "
                            f"final states {v['bad'][:2]}")
