"""C16 - SDO transfers carry values byte-for-byte.

Spec: spec/CoE.tla (conformant SDO server, ETG.1000.6 5.6.2) composed with spec/Sdo.tla (client
obligations); MC_Sdo model-checks the composition exhaustively on tiny mailboxes; SdoScripts
enumerates what the terminal does with its first replies (delays, unrelated mail, fragment
sizes, expedited/normal, abort); SdoTrace validates recorded runs.

Binding: the real Terminal.sdo_read / sdo_write run on a real EtherCat object wired to
harness/simbus with a mailbox terminal whose SDO server is harness/coeserver.SdoServer; the
server's message log (both directions), the outcome of the call and the server's final value
are the trace.  The server itself is judged by the same spec (CoE.SrvReply)."""
import logging
import struct

from harness import coeserver, simbus, simloop
from harness import tlc as T

PROPERTY = "C16"
LEVEL = "model_checking"

INDEX = 0x2003
SUB = 5
# addresses (index, subindex): subindex 0 (VAR objects keep their value there), 1 (where complete
# access starts), the largest, ordinary ones; smallest / largest / typical indices
ADDRS = [(0x2003, 5), (0x8010, 0), (0x1C12, 1), (0xFFFF, 255), (0x1000, 0), (0x6000, 2), (0x0001, 254)]
NEIGHBOUR = bytes([0xa5, 0x5a, 0xa5])
CHUNK = 900
SLOTS = {"plain": {}, "d1": {"delay": 1}, "d2": {"delay": 2}, "eoe": {"mail": ["eoe"]},
         "emcy": {"mail": ["emcy"]}, "both": {"mail": ["eoe", "emcy"]},
         "short": {"short": True}, "norm": {"norm": True}, "abort": {"abort": True}}


def value(n, salt=0):
    return bytes((i * 37 + n + salt * 101 + 1) % 256 for i in range(n))


def make_terminal(mbo, mbi, station=1001):
    term = simbus.SimTerminal(station=station)
    struct.pack_into("<HHBxxx", term.mem, 0x800, 0x1000, mbo, 0x26)   # SM0: mailbox, master writes
    struct.pack_into("<HHBxxx", term.mem, 0x808, 0x1400, mbi, 0x22)   # SM1: mailbox, master reads
    return term


def transfer(case):
    """run one real sdo_read / sdo_write; returns the trace dict for SdoTrace"""
    from ebpfcat.ethercat import EtherCat, Terminal
    op, ca, n = case["op"], case["ca"], case["n"]
    data = bytes(case["data"]) if "data" in case else value(n, case.get("salt", 0))
    srv0 = data if op == "up" else bytes([0xee, 0xdd])
    term = make_terminal(case["mbxout"], case["mbxin"])
    index = case.get("index", INDEX)
    subx = case.get("sub", SUB)           # used unless complete access
    sub = 1 if ca else subx
    script = [SLOTS[k] for k in case["script"]]
    # the terminal also holds the neighbouring entries, so that a transfer sent to the wrong
    # address lands somewhere instead of being refused
    od = {(index, False, x): NEIGHBOUR for x in {0, 1, 2, sub - 1, sub + 1} if 0 <= x <= 255}
    od.update({(index, True, 1): NEIGHBOUR, (index ^ 1, False, sub): NEIGHBOUR})
    od[(index, ca, sub)] = srv0
    srv = coeserver.SdoServer(term, od, script)
    term.mbx_server = srv
    out = {}

    async def main():
        ec = EtherCat("x")
        simbus.attach(ec, simbus.SimBus([term]))
        t = Terminal(ec)
        t.position = term.station
        t.mbx_lock = ec.get_mbx_lock(term.station)
        t.parse_sync_managers(bytes(term.mem[0x800:0x810]))
        try:
            if op == "up":
                r = await t.sdo_read(index, None if ca else subx)
                if not isinstance(r, (bytes, bytearray)):
                    out.update(res="ok", value=[-1], exc=f"returned {type(r).__name__}")
                else:
                    out.update(res="ok", value=list(r))
            else:
                await t.sdo_write(data, index, None if ca else subx)
                out.update(res="ok", value=[])
        except Exception as e:
            out.update(res="raise", value=[], exc=f"{type(e).__name__}: {e}"[:200])

    logging.disable(logging.CRITICAL)
    try:
        simloop.run(main, budget=50000)
    except simloop.StallError as e:
        out.update(res="stall", value=[], exc=str(e))
    finally:
        logging.disable(logging.NOTSET)
    ev = [dict(ev="start", op=op, data=list(data) if op == "down" else [])]
    for e in srv.log:
        ev.append(dict(ev=e["dir"], m=e["m"]))
    ev.append(dict(ev="end", out=out, srvval=list(srv.od[(index, ca, sub)]),
                   others_changed=sorted(f"{k[0]:04X}:{'CA' if k[1] else ''}{k[2]:02X}" for k, v in srv.od.items()
                                         if k != (index, ca, sub) and v != NEIGHBOUR)))
    return dict(obj=dict(index=index, ca=ca, sub=sub, mbxout=case["mbxout"], mbxin=case["mbxin"]),
                val0=list(srv0), ev=ev)


# reply slots for concurrent groups: how many polls of the mailbox status a reply stays invisible
CSLOTS = dict(SLOTS, d3={"delay": 3}, d5={"delay": 5})


def run_group(group):
    """several tasks transfer at the same time on ONE terminal (each its own object).
    group: dict(mbxout, mbxin, script=[slot kind per reply, in the order the terminal answers],
                members=[dict(op, ca, n, index, sub, start=event-loop yields before it starts)]).
    Returns one trace per member: the mails are attributed to the member whose task queued the
    mailbox write (every reply belongs to the request it answers), so that each transfer can be
    validated on its own against Sdo || CoE - exactly what the property asks: each transfer
    still carries its own value and gets its own responses."""
    import asyncio
    from ebpfcat.ethercat import ECCmd, EtherCat, Terminal
    term = make_terminal(group["mbxout"], group["mbxin"])
    od, datas, keys = {}, [], []
    for k, m in enumerate(group["members"]):
        data = value(m["n"], salt=k + 1)
        sub = 1 if m["ca"] else m["sub"]
        key = (m["index"], m["ca"], sub)
        if key in od:
            raise ValueError("members of a group need distinct objects")
        od[key] = data if m["op"] == "up" else bytes([0xee, 0xdd])
        datas.append(data)
        keys.append(key)
    val0 = dict(od)
    srv = coeserver.SdoServer(term, od, [CSLOTS[x] for x in group["script"]])
    term.mbx_server = srv
    writes, owners, outs = [], [], [dict() for _ in group["members"]]

    def on_mail(m, raw):                       # which member's task wrote this mail
        who = -1
        for j, (name, data) in enumerate(writes):
            if data == raw:
                who = name
                del writes[:j + 1]
                break
        owners.append(who)
    srv.on_mail = on_mail

    async def main():
        ec = EtherCat("x")
        simbus.attach(ec, simbus.SimBus([term]))
        put = ec.send_queue.put_nowait

        def tagged(item):
            task = asyncio.current_task()
            if item[0] is ECCmd.FPWR and item[4] == 0x1000 and task is not None:
                name = task.get_name()
                writes.append((int(name[1:]) if name.startswith("m") else -1, bytes(item[1])))
            return put(item)
        ec.send_queue.put_nowait = tagged
        t = Terminal(ec)
        t.position = term.station
        t.mbx_lock = ec.get_mbx_lock(term.station)
        t.parse_sync_managers(bytes(term.mem[0x800:0x810]))

        async def member(k, m):
            for _ in range(m.get("start", 0)):
                await asyncio.sleep(0)
            out = outs[k]
            try:
                if m["op"] == "up":
                    r = await t.sdo_read(m["index"], None if m["ca"] else m["sub"])
                    out.update(res="ok", value=list(r) if isinstance(r, (bytes, bytearray)) else [-1])
                else:
                    await t.sdo_write(datas[k], m["index"], None if m["ca"] else m["sub"])
                    out.update(res="ok", value=[])
            except Exception as e:
                out.update(res="raise", value=[], exc=f"{type(e).__name__}: {e}"[:200])
        tasks = [asyncio.ensure_future(member(k, m)) for k, m in enumerate(group["members"])]
        for k, task in enumerate(tasks):
            task.set_name(f"m{k}")
        await asyncio.gather(*tasks)

    logging.disable(logging.CRITICAL)
    stall = None
    try:
        simloop.run(main, budget=200000)
    except simloop.StallError as e:
        stall = str(e)
    finally:
        logging.disable(logging.NOTSET)
    # split the terminal's log by member
    evs = [[dict(ev="start", op=m["op"], data=list(datas[k]) if m["op"] == "down" else [])]
           for k, m in enumerate(group["members"])]
    owner, it = -1, iter(owners)
    for e in srv.log:
        if e["dir"] == "c2s":
            owner = next(it, -1)
        if 0 <= owner < len(evs):
            evs[owner].append(dict(ev=e["dir"], m=e["m"]))
    traces = []
    for k, m in enumerate(group["members"]):
        out = outs[k] or dict(res="stall", value=[], exc=stall or "never finished")
        evs[k].append(dict(ev="end", out=out, srvval=list(srv.od[keys[k]]), others_changed=[]))
        traces.append(dict(obj=dict(index=m["index"], ca=m["ca"], sub=keys[k][2], mbxout=group["mbxout"],
                                    mbxin=group["mbxin"]), val0=list(val0[keys[k]]), ev=evs[k]))
    return traces


def boundary_lengths(mbo, mbi):
    """0..12 and everything within 2 of a fragment boundary, up to 3 mailbox sizes"""
    top = 3 * max(mbo, mbi)
    s = set(range(0, 13)) | {top - 1, top}
    for m in (mbo, mbi):
        first, seg = m - 16, m - 9
        for j in range(0, 4):
            for c in (first + j * seg, first + j * seg + 7, j * m):
                s |= set(range(c - 2, c + 3))
    return sorted(x for x in s if 0 <= x <= top)


def all_lengths(mbo, mbi):
    return list(range(0, 3 * max(mbo, mbi) + 1))


def stride_lengths(mbo, mbi, step):
    return sorted(set(boundary_lengths(mbo, mbi)) | set(range(0, 3 * max(mbo, mbi) + 1, step)))


def grid(quick):
    """(mbxout, mbxin, lengths): mailbox sizes from {32, 48, 128, 256}, equal and mixed"""
    if quick:
        return [(32, 32, all_lengths(32, 32)), (48, 48, boundary_lengths(48, 48)),
                (128, 128, boundary_lengths(128, 128)), (256, 256, boundary_lengths(256, 256)[::2]),
                (32, 48, boundary_lengths(32, 48)), (48, 32, boundary_lengths(48, 32))]
    g = [(a, b, all_lengths(a, b)) for a in (32, 48) for b in (32, 48)]
    g += [(128, 128, stride_lengths(128, 128, 3)), (256, 256, stride_lengths(256, 256, 5)),
          (128, 256, boundary_lengths(128, 256)), (256, 128, boundary_lengths(256, 128)),
          (32, 256, boundary_lengths(32, 256)), (256, 32, boundary_lengths(256, 32)),
          (48, 128, boundary_lengths(48, 128)), (128, 48, boundary_lengths(128, 48))]
    return g


def make_cases(ctx, scripts):
    """deterministic grid (gating) plus a few random cases from ctx.rng"""
    per = 1 if ctx.quick else 3
    cases = []
    rot = arot = 0
    # every address x every kind of transfer (nothing / expedited / one message / segmented)
    for index, sub in ADDRS:
        for n in (0, 1, 4, 5, 16, 17, 40, 70):
            for op in ("up", "down"):
                for ca in (False, True):
                    cases.append(dict(op=op, ca=ca, n=n, mbxout=32, mbxin=32, index=index, sub=sub,
                                      script=["plain"] * len(scripts[0])))
    for mbo, mbi, lens in grid(ctx.quick):
        for n in lens:
            for op in ("up", "down"):
                for ca in (False, True):
                    index, sub = ADDRS[arot % len(ADDRS)]
                    arot += 1
                    base = dict(op=op, ca=ca, n=n, mbxout=mbo, mbxin=mbi, index=index, sub=sub)
                    cases.append(dict(base, script=["plain"] * len(scripts[0])))
                    for _ in range(per):
                        cases.append(dict(base, script=scripts[rot % len(scripts)]))
                        rot += 1
    for _ in range(100 if ctx.quick else 600):
        mbo, mbi = ctx.rng.choice([32, 48, 128, 256]), ctx.rng.choice([32, 48, 128, 256])
        n = ctx.rng.randrange(0, 3 * max(mbo, mbi) + 1)
        cases.append(dict(op=ctx.rng.choice(["up", "down"]), ca=ctx.rng.random() < 0.5, n=n,
                          mbxout=mbo, mbxin=mbi, script=ctx.rng.choice(scripts),
                          index=ctx.rng.choice([ctx.rng.randrange(1, 0x10000), 0x1000, 0xFFFF]),
                          sub=ctx.rng.choice([0, 0, 1, 255, ctx.rng.randrange(256)]),
                          data=[ctx.rng.randrange(256) for _ in range(n)], random=True))
    return cases


# kinds of transfer a member of a concurrent group performs: (op, complete access, length)
MEMBER_KINDS = {"wexp": ("down", False, 2), "wexp4": ("down", False, 4), "wnorm": ("down", False, 10),
                "wseg": ("down", False, 40), "wca": ("down", True, 21), "rexp": ("up", False, 3),
                "rnorm": ("up", False, 12), "rseg": ("up", False, 45), "rca": ("up", True, 30)}
GROUP_SCRIPTS = [["plain"], ["d1"], ["d3"], ["d5"], ["d3", "d1", "d5", "plain"], ["d2", "d5"]]
MEMBER_ADDR = [(0x8020, 3), (0x1008, 0), (0x8010, 2)]


def make_groups(ctx):
    """2 or 3 tasks transferring at once on one terminal: every ordered pair of transfer kinds
    (expedited / normal / segmented / complete access, both directions) x reply delays of 0..5
    mailbox polls x start offsets; a rotation of triples"""
    import itertools
    kinds = list(MEMBER_KINDS)
    scripts = GROUP_SCRIPTS[:1] + GROUP_SCRIPTS[2:5] if ctx.quick else GROUP_SCRIPTS
    starts = [(0, 1)] if ctx.quick else [(0, 0), (0, 1), (2, 0)]

    def member(kind, k, start):
        op, ca, n = MEMBER_KINDS[kind]
        index, sub = MEMBER_ADDR[k]
        return dict(kind=kind, op=op, ca=ca, n=n, index=index, sub=sub, start=start)
    groups = []
    for a, b in itertools.product(kinds, kinds):
        for sc in scripts:
            for st in starts:
                groups.append(dict(mbxout=32, mbxin=32, script=sc * 12,
                                   members=[member(a, 0, st[0]), member(b, 1, st[1])]))
    for j, (a, b, c) in enumerate(itertools.product(kinds[::2], kinds[1::2], kinds[:3])):
        if ctx.quick and j % 2:
            continue
        groups.append(dict(mbxout=48 if j % 3 == 0 else 32, mbxin=32, script=GROUP_SCRIPTS[2 + j % 3] * 12,
                           members=[member(a, 0, 0), member(b, 1, j % 2), member(c, 2, 1)]))
    for _ in range(20 if ctx.quick else 150):               # extra random groups (not gating)
        ks = [ctx.rng.choice(kinds) for _ in range(ctx.rng.choice([2, 3]))]
        groups.append(dict(mbxout=ctx.rng.choice([32, 48, 128]), mbxin=ctx.rng.choice([32, 48, 128]),
                           script=[ctx.rng.choice(["plain", "d1", "d2", "d3", "d5"]) for _ in range(40)],
                           members=[member(kd, k, ctx.rng.randrange(0, 4)) for k, kd in enumerate(ks)]))
    return groups


def group_cases(groups):
    """run the groups; -> (cases, traces), one per member"""
    cases, traces = [], []
    for g in groups:
        for k, (m, tr) in enumerate(zip(g["members"], run_group(g))):
            cases.append(dict(op=m["op"], ca=m["ca"], n=m["n"], index=m["index"], sub=m["sub"],
                              mbxout=g["mbxout"], mbxin=g["mbxin"], script=g["script"][:6],
                              concurrent=dict(member=k, kinds=[x["kind"] for x in g["members"]], group=g)))
            traces.append(tr)
    return cases, traces


def describe(case, tr):
    """everything a predicate needs to recognise the defect class of a rejected case"""
    op, n, mbo, mbi = case["op"], case["n"], case["mbxout"], case["mbxin"]
    replies = [e for e in tr["ev"] if e["ev"] == "s2c" and e["m"].get("kind") not in ("eoe", "emcy")]
    used = case["script"][:max(1, len(replies))]
    out = tr["ev"][-1]["out"]
    d = dict(case)
    first = replies[0]["m"] if replies else {}
    up_segmented = first.get("kind") == "up_norm_res" and len(first["body"]) - 7 < n
    d.update(segmented=up_segmented if op == "up" else (n > mbo - 16),
             expedited=(1 <= n <= 4 and not case["ca"]) if op == "down"
             else (1 <= n <= 4 and "norm" not in used[:1]),
             used_script=used,
             unrelated_mail=any(k in ("eoe", "emcy", "both") for k in used),
             emergency=any(k in ("emcy", "both") for k in used),
             server_abort=any(e["m"].get("kind") == "abort" for e in tr["ev"] if e["ev"] == "s2c"),
             outcome=out.get("res"), exc=out.get("exc", ""),
             others_changed=tr["ev"][-1].get("others_changed", []),
             requests=sum(1 for e in tr["ev"] if e["ev"] == "c2s"))
    return d


MC_QUICK = dict(pairs=[(16, 16), (17, 18), (19, 16)], maxlen=9)
MC_THOROUGH = dict(pairs=[(16, 16), (17, 18), (19, 16), (18, 20), (24, 17)], maxlen=16)


def model_check(ctx, wd):
    c = MC_QUICK if ctx.quick else MC_THOROUGH
    T.write_cfg(wd, "mc.cfg", f"""SPECIFICATION MCSpec
CONSTANTS MinSeg = 1
          Pairs = {{{", ".join(str(a * 100 + b) for a, b in c["pairs"])}}}
          MaxLen = {c["maxlen"]}
          AllowAbort = TRUE
INVARIANTS DownloadExact UploadExact ReqFits ServerAtRest TogglesAgree
""")
    res = T.require_clean(T.run(wd, "MC_Sdo", "mc.cfg", workers=4, timeout=1200), "MC_Sdo")
    if not res.ok:
        raise T.MachineryError("Sdo || CoE violates its own invariants:\n" + res.counterexample())
    ctx.tlc_stats(res)
    ctx.extra["mc_sdo"] = dict(c, distinct=res.distinct, generated=res.generated)


def enumerate_scripts(ctx, wd):
    T.write_cfg(wd, "scripts.cfg", f"""SPECIFICATION SSpec
CONSTANTS MaxLen = {2 if ctx.quick else 3}
          Kinds = {{{", ".join('"%s"' % k for k in SLOTS)}}}
INVARIANT Emit
CHECK_DEADLOCK FALSE
""")
    res = T.require_clean(T.run(wd, "SdoScripts", "scripts.cfg", workers=1, timeout=600), "SdoScripts")
    ctx.tlc_stats(res)
    scripts = sorted(r[0] for r in T.printed_records(res, "SCRIPT"))
    if not scripts:
        raise T.MachineryError("no scripts enumerated")
    return scripts


def validate(ctx, wd, cases, traces):
    """batched trace validation (the mailbox sizes are part of each trace); the chunks are
    validated by concurrent TLC runs, each in its own work directory"""
    from concurrent.futures import ThreadPoolExecutor
    parts = [(k, traces[k:k + CHUNK]) for k in range(0, len(traces), CHUNK)]
    if len(parts) <= 1:
        return T.validate_traces(ctx, wd, "SdoTrace", "SdoTrace.cfg", traces, chunk=CHUNK)
    wds = [ctx.workdir() for _ in parts]
    with ThreadPoolExecutor(max_workers=4) as ex:
        futs = [ex.submit(T.validate_traces, ctx, w, "SdoTrace", "SdoTrace.cfg", part, CHUNK)
                for w, (_, part) in zip(wds, parts)]
        out = []
        for f in futs:
            out.extend(f.result())
    return out


def brief_event(e):
    if e is None:
        return None
    if e["ev"] in ("c2s", "s2c"):
        m = e["m"]
        return dict(ev=e["ev"], mt=m["mt"], cnt=m["cnt"], wlen=m["wlen"], len=m["len"], svc=m["svc"],
                    cmd=m["cmd"], bodylen=len(m["body"]), head=m["body"][:7], kind=m.get("kind"))
    if e["ev"] == "end":
        return dict(ev="end", out=dict(e["out"], value=e["out"]["value"][:16]), srvlen=len(e["srvval"]))
    return dict(ev=e["ev"], op=e.get("op"), n=len(e.get("data", [])))


def judge(ctx, case, tr, result):
    matched, length, inv = result
    d = describe(case, tr)
    ctx.traces += 1
    ctx.evaluated((case["op"], case["ca"], case["n"], case["mbxout"], case["mbxin"], tuple(case["script"]),
                   case.get("index"), case.get("sub"), repr(case.get("concurrent")),
                   case.get("random", False) and tuple(case.get("data", ()))),
                  nontrivial=case["n"] > 4 or d["used_script"] != ["plain"] * len(d["used_script"]))
    if matched == length and not isinstance(inv, str):
        return True
    bad = tr["ev"][matched] if matched < length else None
    d["requests"] = sum(1 for e in tr["ev"][:matched + 1] if e["ev"] == "c2s")
    d.update(rejected_at=matched, rejected_event=brief_event(bad),
             rejected_kind=bad["ev"] if bad else "invariant",
             events=[brief_event(e) for e in tr["ev"]][:12])
    if bad is None:
        reason = f"invariant violated: {inv}"
    elif bad["ev"] == "c2s":
        reason = (f"{case['op']} of {case['n']} bytes at {case.get('index', INDEX):04X}:"
                  f"{'CA' if case['ca'] else format(case.get('sub', SUB), '02X')} (mailbox {case['mbxout']}/"
                  f"{case['mbxin']}; entries changed instead: {d['others_changed']}): request "
                  f"#{d['requests']} is not one a conformant client may send: "
                  f"{d['rejected_event']}")
    elif bad["ev"] == "s2c":
        reason = f"simulated server left CoE.tla at event {matched}: {d['rejected_event']}"
    else:
        conc = case.get("concurrent")
        reason = (f"{case['op']} of {case['n']} bytes (ca={case['ca']}, mailbox {case['mbxout']}/"
                  f"{case['mbxin']}, script {d['used_script']}"
                  + (f", concurrently with {conc['kinds']} as member {conc['member']}" if conc else "")
                  + f"): outcome {d['outcome']} {d['exc']!r} "
                  f"is not the byte-exact completion the property requires")
    ctx.case_failed(d, reason)
    return False


def run(ctx):
    from concurrent.futures import ThreadPoolExecutor
    wd, wd2 = ctx.workdir(), ctx.workdir()
    with ThreadPoolExecutor(max_workers=2) as ex:
        f1 = ex.submit(model_check, ctx, wd)
        f2 = ex.submit(enumerate_scripts, ctx, wd2)
        f1.result()
        scripts = f2.result()
    cases = make_cases(ctx, scripts)
    traces = [transfer(c) for c in cases]
    gcases, gtraces = group_cases(make_groups(ctx))
    cases += gcases
    traces += gtraces
    ctx.extra["concurrent_transfers"] = len(gcases)
    results = validate(ctx, wd, cases, traces)
    ok = {}
    for c, tr, r in zip(cases, traces, results):
        good = judge(ctx, c, tr, r)
        k = (c["op"], "ca" if c["ca"] else "sub")
        ok.setdefault(k, [0, 0])[0 if good else 1] += 1
        if good and c["n"] > 4 and len(ctx.samples) < 4:
            ctx.sample(dict(case={k2: v for k2, v in c.items() if k2 != "data"},
                            events=[brief_event(e) for e in tr["ev"]][:8]))
    ctx.exhaustive = False
    ctx.extra["accepted_rejected"] = {f"{a}/{b}": v for (a, b), v in sorted(ok.items())}
    ctx.extra["scripts"] = len(scripts)
    ctx.rule = ("addresses (subindex 0 / 1 / 255 / others, several indices) rotated over a "
                "grid of mailbox size pairs from {32,48,128,256} x value lengths 0..3 mailbox sizes "
                "(all lengths for the small mailboxes, fragment-boundary lengths for the large) x "
                "{upload, download} x {subindex, complete access} x {plain script, rotating "
                "TLC-enumerated reply scripts} + random cases; 2-3 tasks transferring at once on one "
                "terminal (all ordered pairs of transfer kinds x reply delays 0..5 polls), each "
                "transfer validated on its own; non-trivial = value longer than 4 "
                "bytes or a reply that is delayed / preceded by unrelated mail / fragmented / aborted")
    ctx.assumptions.append("complete access and subindex access are modelled as independent objects "
                           "(one object per transfer); after a server abort the outcome is unconstrained")


def replay(ctx, case):
    if case.get("concurrent"):
        tr = run_group(case["concurrent"]["group"])[case["concurrent"]["member"]]
    else:
        tr = transfer(case)
    wd = ctx.workdir()
    r = validate(ctx, wd, [case], [tr])[0]
    print("events:")
    for e in tr["ev"]:
        print("  ", brief_event(e))
    print("TLC matched", r[0], "of", r[1])
    judge(ctx, case, tr, r)


# ---- findings on the unchanged tree -------------------------------------------------------
# Predicates over the case dict passed to ctx.case_failed (for harness/known.py); together they
# cover every rejection on the pinned tree and nothing that is accepted there.
def is_f16_segmented_upload(case, reason=None):
    """sdo_read: every upload that needs segments fails (`ret += data[3:]` extends the list with
    ints -> TypeError in join; `data[:3 + (sdocmd >> 1) & 7]` / `len(data) == 7` mis-slice the
    last segment -> 'expected n bytes, got m')"""
    return case["op"] == "up" and case["segmented"] and not case["server_abort"]


def is_f16_download(case, reason=None):
    """sdo_write: every download other than expedited with a subindex (1..4 bytes) is wrong:
    complete-size field left zero ("HBHB4x"), `data` overwritten by the response, 10-byte header
    on segments, `subindex != subidx` always true for complete access, 0 bytes sent as 4"""
    return case["op"] == "down" and not (1 <= case["n"] <= 4 and not case["ca"])


def is_f16_unrelated_mail(case, reason=None):
    """unrelated mail is not skipped: a CoE emergency before the first upload response, any
    unrelated mail before a segment response or before any download response -> exception"""
    return case["unrelated_mail"] and case["outcome"] == "raise" and (
        case["op"] == "down" or case["emergency"] or case["segmented"])


# Candidate repair, validated with this check in a scratch copy (all 3372 quick cases accepted;
# first hunk alone repairs segmented uploads).  Not covered: the closing 1-byte write of
# mbx_send when the message fills the mailbox exactly (ESC behaviour, not modelled by simbus).
CANDIDATE_FIX = r'''
--- a/ebpfcat/ethercat.py
+++ b/ebpfcat/ethercat.py
@@ -871,6 +871,16 @@
                 offset = 6
             return b"".join(ret)
 
+    async def sdo_recv(self):
+        """receive the next SDO mail, skipping unrelated mail"""
+        while True:
+            type, data = await self.mbx_recv()
+            if type is MBXType.COE and len(data) >= 2 and \
+                    data[1] >> 4 != CoECmd.EMERGENCY.value:
+                return type, data
+            logging.warning(f"expected SDO mail, got {type}, "
+                            f"for terminal {self.name}")
+
     async def sdo_read(self, index, subindex=None):
         """read a single SDO entry
 
@@ -883,12 +893,7 @@
                     ODCmd.UP_REQ_CA.value if subindex is None
                     else ODCmd.UP_REQ.value,
                     index, 1 if subindex is None else subindex)
-            type = None
-            while type is not MBXType.COE:
-                type, data = await self.mbx_recv()
-                if type is not MBXType.COE:
-                    logging.warning(f"expected CoE package, got {type}, "
-                                    f"for terminal {self.name}")
+            type, data = await self.sdo_recv()
             coecmd, sdocmd, idx, subidx, size = unpack("<HBHBI", data[:10])
             if coecmd >> 12 != CoECmd.SDORES.value:
                 if subindex is None and coecmd >> 12 == CoECmd.SDOREQ.value:
@@ -909,7 +914,7 @@
                         MBXType.COE, "HBHB4x", CoECmd.SDOREQ.value << 12,
                         ODCmd.SEG_UP_REQ.value + toggle, index,
                         1 if subindex is None else subindex)
-                type, data = await self.mbx_recv()
+                type, data = await self.sdo_recv()
                 if type is not MBXType.COE:
                     raise EtherCatError(f"expected CoE, got {type}")
                 coecmd, sdocmd = unpack("<HB", data[:3])
@@ -918,9 +923,9 @@
                         f"expected CoE cmd SDORES, got {coecmd}")
                 if sdocmd & 0xe0 != 0:
                     raise EtherCatError(f"requested index {index}, got {idx}")
-                if sdocmd & 1 and len(data) == 7:
-                    data = data[:3 + (sdocmd >> 1) & 7]
-                ret += data[3:]
+                if len(data) == 10:
+                    data = data[:10 - ((sdocmd >> 1) & 7)]
+                ret.append(data[3:])
                 retsize += len(data) - 3
                 if sdocmd & 1:
                     break
@@ -941,13 +946,13 @@
         data needs to already be a binary string matching the binary type of
         the parameter.
         """
-        if len(data) <= 4 and subindex is not None:
+        if 0 < len(data) <= 4 and subindex is not None:
             async with self.mbx_lock:
                 await self.mbx_send(
                         MBXType.COE, "HBHB4s", CoECmd.SDOREQ.value << 12,
                         ODCmd.DOWN_EXP.value | (((4 - len(data)) << 2) & 0xc),
                         index, subindex, data)
-                type, data = await self.mbx_recv()
+                type, data = await self.sdo_recv()
             if type is not MBXType.COE:
                 raise EtherCatError(f"expected CoE, got {type}, {data} "
                                     f"{odata} {index:x}:{subindex:x}")
@@ -959,45 +964,37 @@
                 raise EtherCatError(f"expected CoE SDORES, got {coecmd>>12:x} "
                                     f"for {index:x}:{subindex:x}")
         else:
+            sub = 1 if subindex is None else subindex
+
+            def check(type, res):
+                if type is not MBXType.COE:
+                    raise EtherCatError(f"expected CoE, got {type}")
+                coecmd, sdocmd, idx, subidx = unpack("<HBHB", res[:6])
+                if coecmd >> 12 != CoECmd.SDORES.value:
+                    raise EtherCatError(f"expected CoE SDORES, got {coecmd>>12:x}")
+                return idx, subidx
+
             async with self.mbx_lock:
                 stop = min(len(data), self.mbx_out_sz - 16)
                 await self.mbx_send(
-                        MBXType.COE, "HBHB4x", CoECmd.SDOREQ.value << 12,
+                        MBXType.COE, "HBHBI", CoECmd.SDOREQ.value << 12,
                         ODCmd.DOWN_INIT_CA.value if subindex is None
                         else ODCmd.DOWN_INIT.value,
-                        index, 1 if subindex is None else subindex,
-                        data=data[:stop])
-                type, data = await self.mbx_recv()
-                if type is not MBXType.COE:
-                    raise EtherCatError(f"expected CoE, got {type}")
-                coecmd, sdocmd, idx, subidx = unpack("<HBHB", data[:6])
-                if coecmd >> 12 != CoECmd.SDORES.value:
-                    raise EtherCatError(f"expected CoE SDORES, got {coecmd>>12:x}")
-                if idx != index or subindex != subidx:
-                    raise EtherCatError(f"requested index {index}, got {idx}")
+                        index, sub, len(data), data=data[:stop] or None)
+                if check(*await self.sdo_recv()) != (index, sub):
+                    raise EtherCatError(f"requested index {index}")
                 toggle = 0
                 while stop < len(data):
                     start = stop
                     stop = min(len(data), start + self.mbx_out_sz - 9)
-                    if stop == len(data):
-                        if stop - start < 7:
-                            cmd = 1 + (7-stop+start << 1)
-                            d = data[start:stop] + b"\0" * (7 - stop + start)
-                        else:
-                            cmd = 1
-                            d = data[start:stop]
-                        await self.mbx_send(
-                                MBXType.COE, "HBHB4x", CoECmd.SDOREQ.value << 12,
-                                cmd + toggle, index,
-                                1 if subindex is None else subindex, data=d)
-                        type, data = await self.mbx_recv()
-                        if type is not MBXType.COE:
-                            raise EtherCatError(f"expected CoE, got {type}")
-                        coecmd, sdocmd, idx, subidx = unpack("<HBHB", data[:6])
-                        if coecmd >> 12 != CoECmd.SDORES.value:
-                            raise EtherCatError(f"expected CoE SDORES")
-                        if idx != index or subindex != subidx:
-                            raise EtherCatError(f"requested index {index}")
+                    d = data[start:stop]
+                    cmd = toggle | (stop == len(data))
+                    if len(d) < 7:
+                        cmd |= (7 - len(d)) << 1
+                        d += bytes(7 - len(d))
+                    await self.mbx_send(MBXType.COE, "HB",
+                                        CoECmd.SDOREQ.value << 12, cmd, data=d)
+                    check(*await self.sdo_recv())
                     toggle ^= 0x10
 
     async def read_object_entry(self, index, subidx):
'''
