"""C19 - process variables access their own bits and bytes on both paths.

Spec: spec/ProcVar.tla (Get / Set of a process variable over the frame, and their laws) and
spec/ProcVarRun.tla over spec/Ebpf.tla (the binding).  Fixed-seed random configurations: real
terminals (dynamic EBPFTerminal subclasses with ProcessDesc / PacketDesc members, directly and in
Struct channels with position offsets) with hand-written PDO maps, real devices whose update() and
program() are the SAME statements copying process variables to DeviceVars and DeviceVars to process
variables.  Slow path: a real SyncGroup, update() run in Python on current_data.  Fast path: a real
FastSyncGroup with the same devices, the emitted program executed by TLC on the same frame behind an
Ethernet header.  TLC compares both with ProcVar's Get / Set."""
import random

from harness import tlc as T, progs, pvgroup as FG

PROPERTY = "C19"
LEVEL = "model_checking"

FMT = {"B": (1, 0), "H": (2, 0), "I": (4, 0), "Q": (8, 0), "b": (1, 1), "h": (2, 1), "i": (4, 1), "q": (8, 1)}
UNSIGNED = {1: "B", 2: "H", 4: "I", 8: "Q"}
SIGNED = {1: "b", 2: "h", 4: "i", 8: "q"}
N = 16
LRD, LWR, FPRD, FPWR = 10, 11, 4, 5


def width(what):
    return 1 if isinstance(what, int) else FMT[what][0]


# ---- configurations (pure data, JSON-serialisable) ---------------------------------------------------

def gen_config(rng, idx):
    """a configuration: terminals, the variables (where each one truly lives and by which
    descriptors the terminal class declares it) and the devices' accesses"""
    nterm = rng.choice((1, 1, 2, 2, 3))
    positions = rng.sample(range(1, 60), nterm)
    terms = []
    for i in range(nterm):
        terms.append(dict(position=positions[i], use_fmmu=rng.random() < .5,
                          in_sz=rng.choice((1, 2, 3, 4, 6, 8, 9, 12, 17)),
                          out_sz=rng.choice((1, 2, 3, 4, 6, 8, 9, 12, 17)),
                          in_off=0x1100 + 0x40 * i, out_off=0x1000 + 0x40 * i, pdos=[], members=[]))
    nops = rng.choice((2, 3, 3, 4, 5))
    ops, key = [], [0]

    def newkey(sm):
        key[0] += 1
        return (0x7000 if sm == "OUT" else 0x6000) + 0x100 * key[0], rng.choice((1, 2, 0x11, 0x21))

    linked_mode = idx % 25 == 24                         # a few configurations link whole Structs
    for j in range(nops):
        kind = rng.choice(("read", "write"))
        ti = rng.randrange(nterm)
        t = terms[ti]
        sm = ("IN" if kind == "read" else "OUT") if rng.random() < .75 else rng.choice(("IN", "OUT"))
        size = t["in_sz"] if sm == "IN" else t["out_sz"]
        if rng.random() < .3:
            what = rng.randrange(8)
        else:
            what = rng.choice([f for f in FMT if FMT[f][0] <= size])
        off = rng.randrange(size - width(what) + 1)
        path = rng.choice(("proc", "proc", "pkt", "struct_proc", "struct_pkt"))
        linked = False
        if linked_mode and kind == "read" and not any(o["linked"] for o in ops):
            path, linked = rng.choice(("struct_proc", "struct_pkt")), True
        name = f"m{j}"
        mem = dict(name=name, path=path)
        if path in ("proc", "struct_proc"):
            k = newkey(sm)
            # what the terminal's own PDO map says (only bits and unsigned formats occur there) and
            # whether the class overrides it with its size argument
            if isinstance(what, int):
                override = rng.random() < .4
                mapwhat = rng.choice((rng.randrange(8), UNSIGNED[1])) if override else what
            elif FMT[what][1] == 0 and rng.random() < .6:
                override, mapwhat = False, what
            else:
                override, mapwhat = True, UNSIGNED[FMT[what][0]] if rng.random() < .7 else "B"
            coe = rng.choice((0x10, 0x20, 0x30, 0x800)) if path == "struct_proc" else 0
            t["pdos"].append(dict(index=k[0] + coe, sub=k[1], sm=sm, off=off, what=mapwhat))
            if coe:                                      # decoy: the template channel lives elsewhere
                t["pdos"].append(dict(index=k[0], sub=k[1], sm=sm, off=(off + 1) % (size - width(what) + 1),
                                      what=mapwhat))
            mem.update(index=k[0], sub=k[1], size=what if override else None, coe=coe,
                       sm3=rng.randrange(4), sm2=rng.randrange(4))
        else:
            delta = rng.randrange(off + 1) if path == "struct_pkt" else 0
            other = rng.choice([d for d in range(6) if d != delta])
            mem.update(sm=sm, position=off - delta, size=what,
                       sm3=delta if sm == "IN" else other, sm2=delta if sm == "OUT" else other,
                       coe=rng.choice((0, 0x10)))
        t["members"].append(mem)
        if isinstance(what, int):
            dvfmt = rng.choice("BHIQ")
        else:
            n, s = FMT[what]
            dvfmt = what if rng.random() < .5 else (SIGNED[8] if s else UNSIGNED[8])
        ops.append(dict(kind=kind, term=ti, member=name, sm=sm, off=off, what=what, dvfmt=dvfmt,
                        linked=linked, dev=0))
    if nops >= 3 and rng.random() < .5:                  # two devices: the later accesses on the second
        cut = rng.randrange(1, nops)
        for o in ops[cut:]:
            o["dev"] = 1
    return dict(idx=idx, terms=terms, ops=ops)


def gen_config_seq(rng, idx):
    """a configuration whose PDO map is what the REAL Terminal.parse_pdos makes of SII PDO categories 50 / 51: the
    entries of a sync manager follow each other bit by bit, with gap entries (index 0) of 1-8 bits in between.  The
    true place of every entry is computed here from the lengths alone; the terminal object gets only the category
    bytes.  (Added after a seeded change - gap entries no longer advancing the bit position - passed C19, whose
    maps had all been written by hand.)"""
    from struct import pack
    nterm = rng.choice((1, 2))
    positions = rng.sample(range(1, 60), nterm)
    terms, ops = [], []
    key = [0]
    for i in range(nterm):
        t = dict(position=positions[i], use_fmmu=rng.random() < .5, in_off=0x1100 + 0x40 * i,
                 out_off=0x1000 + 0x40 * i, pdos=[], members=[], eeprom={})
        for sm, cat in (("OUT", 51), ("IN", 50)):
            entries, bitpos, real = [], 0, []
            for _ in range(rng.randint(2, 6)):
                r = rng.random()
                if r < 0.3:                              # a gap
                    bits = rng.choice((1, 2, 3, 8, 16)) if bitpos % 8 == 0 else 8 - bitpos % 8
                    entries.append((0, 0, bits))
                elif r < 0.55:                           # single bits up to the byte boundary
                    for _b in range(rng.randint(1, 8 - bitpos % 8)):
                        key[0] += 1
                        idx_ = (0x7000 if sm == "OUT" else 0x6000) + key[0]
                        entries.append((idx_, 1, 1))
                        real.append((idx_, 1, bitpos // 8, bitpos % 8))
                        bitpos += 1
                    continue
                else:
                    if bitpos % 8:
                        entries.append((0, 0, 8 - bitpos % 8))
                        bitpos += 8 - bitpos % 8
                    nb = rng.choice((1, 2, 4, 8))
                    key[0] += 1
                    idx_ = (0x7000 if sm == "OUT" else 0x6000) + key[0]
                    entries.append((idx_, 0x11, 8 * nb))
                    real.append((idx_, 0x11, bitpos // 8, UNSIGNED[nb]))
                    bitpos += 8 * nb
                    continue
                bitpos += entries[-1][2]
            size = max(1, -(-bitpos // 8))
            t["in_sz" if sm == "IN" else "out_sz"] = size
            body = b"".join(pack("<HBBBB2x", ix, sub, 0, 0, bits) for ix, sub, bits in entries)
            t["eeprom"][str(cat)] = list(pack("<HBbBBH", 0x1A00 if sm == "IN" else 0x1600, len(entries),
                                              3 if sm == "IN" else 2, 0, 0, 0) + body)
            for ix, sub, off, what in real:
                t["pdos"].append(dict(index=ix, sub=sub, sm=sm, off=off, what=what))
        terms.append(t)
    allp = [(ti, p) for ti, t in enumerate(terms) for p in t["pdos"]]
    for j in range(min(len(allp), rng.choice((2, 3, 4, 5)))):
        ti, p = allp.pop(rng.randrange(len(allp)))
        kind = "read" if p["sm"] == "IN" or rng.random() < 0.25 else "write"
        name = f"m{j}"
        terms[ti]["members"].append(dict(name=name, path="proc", index=p["index"], sub=p["sub"], size=None, coe=0,
                                         sm3=0, sm2=0))
        what = p["what"]
        dvfmt = rng.choice("BHIQ") if isinstance(what, int) else what
        ops.append(dict(kind=kind, term=ti, member=name, sm=p["sm"], off=p["off"], what=what, dvfmt=dvfmt,
                        linked=False, dev=0))
    return dict(idx=idx, terms=terms, ops=ops, sequential=True)


# ---- building the real objects from a configuration -----------------------------------------------

def build_objects(cfg):
    """fresh real terminals + devices for one group; returns (ec, terminals, devices)"""
    from ebpfcat.ebpfcat import (EBPFTerminal, PacketDesc, ProcessDesc, Struct, Device, TerminalVar,
                                 DeviceVar)
    from ebpfcat.ethercat import SyncManager
    SM = {"IN": SyncManager.IN, "OUT": SyncManager.OUT}
    ec = FG.simple_ec()
    tobjs = []
    for ti, t in enumerate(cfg["terms"]):
        ns = {}
        for m in t["members"]:
            if m["path"] in ("proc", "struct_proc"):
                d = ProcessDesc(m["index"], m["sub"]) if m["size"] is None \
                    else ProcessDesc(m["index"], m["sub"], m["size"])
            else:
                d = PacketDesc(SM[m["sm"]], m["position"], m["size"])
            if m["path"].startswith("struct"):
                ch = type("Ch_" + m["name"], (Struct,), {"value": d, "gain": 3})
                ns[m["name"] + "_a"] = ch(0)                                  # the template channel
                ns[m["name"]] = ch(m["sm3"], m["sm2"], m["coe"])              # the channel used
            else:
                ns[m["name"]] = d
        cls = type(f"T{ti}", (EBPFTerminal,), ns)
        o = cls(ec)
        o.position = t["position"]
        o.use_fmmu = t["use_fmmu"]
        o.pdo_in_sz, o.pdo_out_sz = t["in_sz"], t["out_sz"]
        o.pdo_in_off, o.pdo_out_off = t["in_off"], t["out_off"]
        if "eeprom" in t:
            # the map is what the real parse_pdos makes of the category bytes (no mailbox: the SII path)
            import asyncio
            o.eeprom = {int(k): bytes(v) for k, v in t["eeprom"].items()}
            o.has_mailbox = lambda: False
            asyncio.run(o.parse_pdos())
        else:
            o.pdos = {(p["index"], p["sub"]): (SM[p["sm"]], p["off"], p["what"]) for p in t["pdos"]}
        tobjs.append(o)
    devs = []
    for di in sorted({o["dev"] for o in cfg["ops"]}):
        mine = [(j, o) for j, o in enumerate(cfg["ops"]) if o["dev"] == di]
        ns = {}
        for j, o in mine:
            ns[f"tv{j}"] = TerminalVar()
            ns[f"dv{j}"] = DeviceVar(o["dvfmt"], write=o["kind"] == "write")

        def body(self, mine=mine):
            for j, o in mine:
                if o["kind"] == "read":
                    src = getattr(self, f"tv{j}")
                    setattr(self, f"dv{j}", src.value if o["linked"] else src)
                else:
                    setattr(self, f"tv{j}", getattr(self, f"dv{j}"))
        ns["program"] = body
        ns["update"] = body
        dev = type(f"Dev{di}", (Device,), ns)()
        for j, o in mine:
            member = getattr(tobjs[o["term"]], o["member"])
            setattr(dev, f"tv{j}", member if o["linked"] else
                    (member.value if o["member_is_struct"] else member))
        devs.append(dev)
    return ec, tobjs, devs


def prepare(cfg):
    for o in cfg["ops"]:
        m = [m for m in cfg["terms"][o["term"]]["members"] if m["name"] == o["member"]][0]
        o["member_is_struct"] = m["path"].startswith("struct")
        o["path"] = m["path"]


def regions(cfg, frame):
    """start (0-based, in the frame without Ethernet header) of every (terminal, sync manager)
    region, from the frame itself: direct datagrams are found by their address, the shared
    logical datagrams are divided in the order of the terminals' positions"""
    dgs = FG.datagrams(frame)
    used = sorted({o["term"] for o in cfg["ops"]}, key=lambda i: cfg["terms"][i]["position"])
    rw = {o["term"] for o in cfg["ops"] if o["sm"] == "OUT"}
    out = {}
    cum = {"IN": 0, "OUT": 0}
    for i in used:
        t = cfg["terms"][i]
        for sm, size, off, cmd_l, cmd_d in (("IN", t["in_sz"], t["in_off"], LRD, FPRD),
                                            ("OUT", t["out_sz"], t["out_off"], LWR, FPWR)):
            if not size or (sm == "OUT" and i not in rw):
                continue
            if t["use_fmmu"]:
                (d,) = [d for d in dgs if d[0] == cmd_l]
                out[i, sm] = d[2] + cum[sm]
                cum[sm] += size
            else:
                (d,) = [d for d in dgs if d[0] == cmd_d
                        and int.from_bytes(frame[d[1] + 2:d[1] + 4], "little") == t["position"]
                        and int.from_bytes(frame[d[1] + 4:d[1] + 6], "little") == off]
                if d[3] != size:
                    raise T.MachineryError(f"datagram of terminal {i} {sm} has {d[3]} bytes, not {size}")
                out[i, sm] = d[2]
    return out, dgs


# ---- values ---------------------------------------------------------------------------------------------

def word(v, n=N):
    return list((int(v) % (1 << (8 * n))).to_bytes(n, "little"))


def pick_value(rng, o, boundary):
    """a value the device variable can hold and the process variable too"""
    dn, ds = FMT[o["dvfmt"]]
    if isinstance(o["what"], int):
        top = (1 << (8 * dn)) - 1
        cands = [0, 1, 2, 128, 255, top, top - 1, 1 << (8 * dn - 1)] + ([256] if dn > 1 else []) \
            + ([1 << 32] if dn == 8 else [])
        return rng.choice(cands) if boundary or rng.random() < .5 else rng.randrange(top + 1)
    n, s = FMT[o["what"]]
    lo, hi = (-(1 << (8 * n - 1)), (1 << (8 * n - 1)) - 1) if s else (0, (1 << (8 * n)) - 1)
    if dn == n and ds != s:                                # same width, other signedness: common range
        lo, hi = max(lo, 0), min(hi, (1 << (8 * n - 1)) - 1)
    cands = [lo, hi, lo + 1, hi - 1, 0, 1, -1 if lo < 0 else hi // 2, 0x5A if n == 1 else 0x1234 % (hi + 1)]
    return rng.choice(cands) if boundary or rng.random() < .4 else rng.randint(lo, hi)


def run(ctx):
    nconf = 300 if ctx.quick else 3000
    nvals = 4
    gen = random.Random(1919)                             # configurations: seed-independent
    cases, meta = [], []
    built_ok = 0
    for ci in range(nconf):
        # every fifth configuration takes its PDO map from the real parse_pdos over generated SII categories
        cfg = gen_config_seq(gen, ci) if ci % 5 == 3 else gen_config(gen, ci)
        prepare(cfg)
        vrng = random.Random(ci * 7919 + 1) if ci % 4 else ctx.rng      # a quarter of the value sets: seeded
        info = dict(conf=ci, nterm=len(cfg["terms"]), ops=[{k: o[k] for k in
                    ("kind", "term", "sm", "off", "what", "dvfmt", "path", "linked", "dev")} for o in cfg["ops"]],
                    fmmu=[t["use_fmmu"] for t in cfg["terms"]], sequential=bool(cfg.get("sequential")))
        try:
            ec1, t1, d1 = build_objects(cfg)
            slow = FG.build_slow(ec1, d1)
            ec2, t2, d2 = build_objects(cfg)
            fast = FG.build_fast(ec2, d2)
        except Exception as e:                            # the property requires an outcome: a case result
            cases.append(dict(built=False, error=f"{type(e).__name__}: {e}"))
            meta.append(dict(info, built=False, error=f"{type(e).__name__}: {e}", vals=None))
            continue
        built_ok += 1
        frame = bytes(slow.asm_packet)
        if bytes(fast.inst.packet.assemble(0)) != frame:
            raise T.MachineryError("slow and fast group assemble different frames")
        reg, dgs = regions(cfg, frame)
        free = []
        for d in dgs:
            if d[0] in (LWR, FPWR):
                free += [FG.ETH + d[1], FG.ETH + d[4], FG.ETH + d[4] + 1]
        pvops = []
        for j, o in enumerate(cfg["ops"]):
            n, s = (1, 0) if isinstance(o["what"], int) else FMT[o["what"]]
            var = dict(start=reg[o["term"], o["sm"]], off=o["off"], bit=o["what"] if isinstance(o["what"], int) else -1,
                       n=n, s=s)
            dev = d2[[x for x in sorted({q["dev"] for q in cfg["ops"]})].index(o["dev"])]
            dn, dsg = FMT[o["dvfmt"]]
            pvops.append(dict(kind=o["kind"], var=var, dv=dict(off=dev.__dict__[f"dv{j}"], n=dn, s=dsg)))
        wkc_off = fast.inst.__dict__["wkc_errors"]
        for vi in range(nvals):
            # the frame: every datagram's data area arbitrary (first two sets: all zeros / all ones)
            f0 = bytearray(frame)
            for d in dgs[1:]:
                fill = (0, 255)[vi] if vi < 2 else None
                f0[d[2]:d[2] + d[3]] = bytes(fill if fill is not None else vrng.randrange(256)
                                             for _ in range(d[3]))
            props = bytearray(vrng.randrange(256) for _ in range(fast.maps[0]["vs"]))
            props[wkc_off:wkc_off + 4] = (vrng.choice((1, 2, 2 ** 32 - 1))).to_bytes(4, "little")
            vals = {}
            for j, o in enumerate(cfg["ops"]):
                if o["kind"] == "write":
                    v = pick_value(vrng, o, boundary=vi < 2)
                    vals[j] = v
                    dv = pvops[j]["dv"]
                    props[dv["off"]:dv["off"] + dv["n"]] = word(v, dv["n"])
            # slow path: the real update() on current_data
            slow.current_data = bytearray(f0)
            devs1 = d1
            for dev in devs1:
                for k in [k for k in dev.__dict__ if k.startswith("dv")]:
                    del dev.__dict__[k]
            for j, v in vals.items():
                dev = devs1[sorted({q["dev"] for q in cfg["ops"]}).index(cfg["ops"][j]["dev"])]
                setattr(dev, f"dv{j}", v)
            raised = ""
            try:
                for dev in devs1:
                    dev.update()
            except Exception as e:
                raised = f"{type(e).__name__}: {e}"
            reads = []
            for j, o in enumerate(cfg["ops"]):
                if o["kind"] == "read":
                    dev = devs1[sorted({q["dev"] for q in cfg["ops"]}).index(o["dev"])]
                    r = dev.__dict__.get(f"dv{j}")
                    reads.append(word(r) if isinstance(r, int) else [255] * N + [repr(r)])
            pkt = bytes(vrng.randrange(256) for _ in range(FG.ETH)) + bytes(f0)
            c = progs.case(fast, pkt=pkt, arr={1: bytes(props)}, fuel=1500)
            c.update(built=True, pv=dict(fd=1, ops=pvops, free=free),
                     slow=dict(raised=raised, final=list(slow.current_data), reads=reads))
            cases.append(c)
            meta.append(dict(info, built=True, vals={str(k): v for k, v in vals.items()}, set=vi,
                             slow_raised=raised))
    verdicts = FG.run_sharded(ctx, "ProcVarRun", "ProcVarRunObserve.cfg", cases, "VERDICT",
                              shards=8)
    ctx.rule = (f"{nconf} fixed-seed random configurations (1-3 terminals, FMMU and direct, bit and byte "
                f"entries of formats BHIQbhiq, ProcessDesc / PacketDesc, direct and in Struct channels with "
                f"offsets, 2-5 accesses on 1-2 devices) x {nvals} frames/value sets (all-zero, all-one, two "
                f"random); non-trivial = preconditions hold by TLC's judgement")
    ctx.assumptions.append("the fast group's outputs are enabled (wkc_errors != 0); command byte and working "
                           "counter of the write datagrams, rewritten by the activation code, are not judged here")
    ctx.extra.update(configurations=nconf, configurations_built=built_ok)
    for i, m in enumerate(meta, 1):
        v = verdicts.get(i)
        if not v or len(v) != 1:
            raise T.MachineryError(f"{0 if not v else len(v)} verdicts for case {i}: {m}")
        built, pre, slowok, fastok, laws, detail = v[0]
        ctx.traces += 2 if built else 0
        ctx.evaluated((m["conf"], m.get("set")), nontrivial=bool(built and pre))
        if i % 211 == 1:
            ctx.sample(dict(conf=m["conf"], ops=m["ops"][:3], vals=m["vals"]))
        paths = sorted({o["path"] + ("+linked" if o["linked"] else "") for o in m["ops"]})
        case = dict(m, paths=paths, detail=detail)
        if not built:
            # C19 states what a process variable reads and writes when it is used.  A device that links a
            # WHOLE Struct channel cannot be put into any sync group (Device.get_terminals reads `.sm`, which
            # a Struct does not have): there is then no access to judge.  That is a defect of the package
            # but not a violation of C19 as stated, so it is counted as an observation (DESIGN.md 10.3);
            # any other failure to build is a failing case.
            if "has no attribute 'sm'" in m.get("error", "") and any(p_.endswith("+linked") for p_ in paths):
                obs = ctx.extra.setdefault("observations", {})
                obs["whole_struct_link_cannot_be_grouped"] = obs.get("whole_struct_link_cannot_be_grouped", 0) + 1
                continue
            ctx.case_failed(dict(case, kind="not-built"),
                            f"configuration {m['conf']} cannot be put into a sync group: {m['error']} "
                            f"(variables declared through {paths})")
            continue
        if not pre:
            raise T.MachineryError(f"generated case outside the preconditions according to TLC: {m}")
        if not laws:
            ctx.case_failed(dict(case, kind="laws"), f"ProcVar's laws fail on configuration {m['conf']}")
        if not slowok:
            ctx.case_failed(dict(case, kind="slow"),
                            f"Python path differs from Get/Set on configuration {m['conf']} set {m['set']}: "
                            f"raised={m['slow_raised']!r} frame differs at {detail.get('slowdiff')} "
                            f"reads equal={detail.get('slowreads')}; accesses {m['ops']}")
        if not fastok:
            ctx.case_failed(dict(case, kind="fast"),
                            f"program path differs from Get/Set on configuration {m['conf']} set {m['set']}: "
                            f"final state {detail.get('st')}, frame differs at {detail.get('fastdiff')}, device "
                            f"variables read {detail.get('fastreads')} expected {detail.get('wantreads')}; "
                            f"accesses {m['ops']} values {m['vals']}")


# ---- defect classes seen on the unchanged tree (for tallying failures; not used for judging) -------

DEFECT_PREDICATES = {
    # Device.get_terminals reads `.sm` of every linked object, but a Struct linked to a TerminalVar
    # has none: a device that links a whole Struct channel cannot be put into any sync group
    "struct-link-get_terminals":
        lambda case: case.get("kind") == "not-built" and "has no attribute 'sm'" in case["error"]
        and any(p.endswith("+linked") for p in case["paths"]),
}
