"""C09 - hash-map variables and Dict entries agree between Python and program.

Spec: spec/Store.tla (hash variables as independent cells holding their declared default after
load(); Dict as a finite map from key structure to value structure with a capacity; the statements a
program may execute on them) + spec/StoreTrace.tla (validation of histories, incl. the Structure
layouts: Layout!Packed for Python's `data`, the same bytes shifted to the program's stack) +
spec/StoreRun.tla (the emitted program on the eBPF machine, cross-checked against the kernel).

Binding: fixed-seed random declarations built with type() from the REAL XDP / HashMap / Dict /
Structure / Member / ArrayMap classes: hash variables of every format with defaults, Dicts over
random packed Structures, and an array map of result variables through which a program shows what it
saw.  Programs are random statement lists written with the library's own constructs (hash variable
get / set, key / value members on the stack, update() with flags, lookup() with Else, member read and
write through the looked-up pointer) and really emitted and loaded.  Histories interleave Python-side
operations (hash variable get / set, Dict set / get / pop / del / in / iteration / items) with runs of
the program: on the real kernel when usable (every run repeated on the machine and compared), else on
the machine in lock-step with harness/fakekernel.py.  TLC validates every history."""
import json
import random

from harness import tlc as T
from harness import fakekernel, mapdecl, mapsrun as M, kernel

PROPERTY = "C09"
LEVEL = "model_checking"
NOUT = 4


def loc(k, id=0, i=0):
    return dict(k=k, id=id, i=i)


def stmt(op, dst=None, src=None, v=0, d=0, flags="ANY", body=(), els=()):
    return dict(op=op, dst=dst or loc("a", 1, 1), src=src or loc("a", 1, 1), v=M.word(v), k=v, d=d, flags=flags,
                body=list(body), els=list(els))


# ---- declarations ------------------------------------------------------------------------------------
def rand_decl(rng):
    # some declarations may use fixed point, a quarter hash variables with an explicit byte order (the abstract
    # value of such a variable is the same integer; only the bytes of its cell are ordered differently)
    d = mapdecl.rand_decl(rng, arrays=False, percpu=False,
                          hash_fmts=list("bBhHiIqQ") + (["x", "x"] if rng.random() < 0.4 else [])
                          + (mapdecl.ORDERED_FMTS if rng.random() < 0.25 else []),
                          member_fmts=list(mapdecl.INT_FMTS) + (mapdecl.ORDERED_FMTS if rng.random() < 0.3 else []))
    if d["hash"]:
        for v in d["hash"]["vars"]:
            if v["fmt"] == "x":
                v["default"] = rng.choice([0, 0, 0, 3, -2, 1.5])
        if not any(v["fmt"][-1] in "qQ" for v in d["hash"]["vars"]):   # a cell that can take any 8-byte value
            f = rng.choice("qQ")
            d["hash"]["vars"].append(dict(name=f"h{len(d['hash']['vars'])}", fmt=f, default=mapdecl.rand_value(rng, f)))
    if d["hash"]:
        # where the hash variables (and the HashMap itself) are declared: in the program class, in a base class
        # it inherits from, partly in each, or in a base class with two subclasses that both get instantiated
        hv = d["hash"]["vars"]
        kind = rng.choice(["own", "own", "own", "base", "base", "extend", "extend", "siblings", "siblings"])
        if kind in ("extend", "siblings") and len(hv) < 2:
            kind = "base"
        split = dict(kind=kind)
        if kind in ("extend", "siblings"):
            split["nbase"] = rng.randint(1, len(hv) - 1)
        if kind == "siblings":
            split["sib"] = [dict(name=f"g{i}", fmt=f, default=mapdecl.rand_value(rng, f))
                            for i, f in enumerate(rng.choice("bBhHiIqQ") for _ in range(rng.randint(1, 2)))]
            split["sib_first"] = rng.random() < 0.5          # order of the two class bodies
            split["sib_loaded_first"] = rng.random() < 0.5   # order in which the two are instantiated and loaded
        d["hash"]["split"] = split
    outs = [dict(name=f"o{i}", fmt="q") for i in range(NOUT)]
    # the other memory a program copies hash variables and Dict members from and to: array-map variables and
    # local (stack) variables of EVERY width and byte order - 8-byte ones with a byte order as often as the rest
    wide = [v["fmt"][-1] for v in (d["hash"] or dict(vars=[]))["vars"] if v["fmt"][-1] in "qQ"] or ["q", "Q"]

    def memfmt():
        r = rng.random()
        if r < 0.35:                              # as wide as a hash cell, same signedness as one of them
            return rng.choice(mapdecl.ORDERS) + rng.choice(wide)
        return rng.choice(list(mapdecl.INT_FMTS) + mapdecl.ORDERED_FMTS)
    outs += [dict(name=f"e{i}", fmt=memfmt()) for i in range(rng.randint(1, 3))]
    if d["hash"] and any(v["fmt"] == "x" for v in d["hash"]["vars"]):
        outs.append(dict(name="ox", fmt="x"))
    d["arrays"] = [dict(name="om", percpu=False, vars=outs)]
    d["locals"] = [dict(name=f"l{i}", fmt=memfmt()) for i in range(rng.randint(0, 2))]
    for dd in d["dicts"]:
        pool = []
        for _ in range(rng.randint(2, 4)):
            pool.append([rng.choice([0, 1, mapdecl.rand_value(rng, f)]) for _, f in dd["key"]])
        dd["pool"] = pool
    return d


class Names:
    def __init__(self, decl):
        self.outs = [(v["name"], v["fmt"]) for v in decl["arrays"][0]["vars"]]
        self.hvars = [(v["name"], v["fmt"], v["default"]) for v in (decl["hash"] or dict(vars=[]))["vars"]]
        self.dicts = decl["dicts"]
        self.lvars = [(v["name"], v["fmt"]) for v in decl.get("locals", [])]

    def fmt(self, l):
        if l["k"] == "l":
            return self.lvars[l["id"] - 1][1]
        if l["k"] == "a":
            return self.outs[l["id"] - 1][1]
        if l["k"] == "h":
            return self.hvars[l["id"] - 1][1]
        if l["k"] == "key":
            return self.dicts[l["id"] - 1]["key"][l["i"] - 1][1]
        return self.dicts[l["id"] - 1]["value"][l["i"] - 1][1]       # val, and lk of that dict


def strip(stmts):
    """the statements as spec/Store.tla reads them (the Python integer `k` stays behind: TLC integers are 32 bit)"""
    return [dict({f: x for f, x in s.items() if f not in ("k", "body", "els")}, body=strip(s["body"]), els=strip(s["els"]))
            for s in stmts]


def tla_decl(decl, names, prog, ncpu):
    def default(fmt, v):
        return M.word(round(v * M.SCALE) if fmt == "x" else v)
    return dict(avars=[dict(f=dict(n=1, c=f[-1]), percpu=False) for _, f in names.outs], ncpu=ncpu,
                hvars=[dict(c=f[-1], **{"def": default(f, dv)}) for _, f, dv in names.hvars],
                lvars=[dict(c=f[-1]) for _, f in names.lvars],
                dicts=[dict(key=[f[-1] for _, f in dd["key"]], val=[f[-1] for _, f in dd["value"]], cap=dd["size"],
                            lru=dd["lru"]) for dd in names.dicts],
                prog=strip(prog))


# ---- programs ---------------------------------------------------------------------------------------------
def scalar_locs(names, fixed):
    out = [loc("a", i + 1, 1) for i, (_, f) in enumerate(names.outs) if (f == "x") == fixed]
    out += [loc("h", i + 1, 1) for i, (_, f, _) in enumerate(names.hvars) if (f == "x") == fixed]
    if not fixed:
        out += [loc("l", i + 1, 1) for i in range(len(names.lvars))]
    return out


def const_for(rng, fmt):
    if fmt == "x":
        return rng.choice([rng.randint(-50, 50) * M.SCALE, rng.randint(-10 ** 7, 10 ** 7)])
    return mapdecl.rand_value(rng, fmt)


def gen_program(rng, names):
    # a local variable lives on the stack of one run: the program gives each one a value first
    stmts = [stmt("const", dst=loc("l", i + 1, 1), v=mapdecl.rand_value(rng, f)) for i, (_, f) in enumerate(names.lvars)]
    # every other memory variable is assigned directly to a hash variable holding the same values, if there is one
    mem = [loc("a", i + 1, 1) for i, (n, f) in enumerate(names.outs) if n.startswith("e")]
    mem += [loc("l", i + 1, 1) for i in range(len(names.lvars))]
    # a fixed-point hash variable is given a constant by the program: a whole number as often as a decimal
    for i, (_, f, _) in enumerate(names.hvars):
        if f == "x" and rng.random() < 0.5:
            stmts.append(stmt("const", dst=loc("h", i + 1, 1), v=const_for(rng, "x")))
    for m in mem:
        hs = [loc("h", i + 1, 1) for i, (_, f, _) in enumerate(names.hvars) if f[-1] == names.fmt(m)[-1]]
        if hs and rng.random() < 0.7:
            stmts.append(stmt("copy", dst=rng.choice(hs), src=m))
    for _ in range(rng.randint(2, 6)):
        r = rng.random()
        if names.dicts and r < 0.3:
            stmts += update_block(rng, names)
        elif names.dicts and r < 0.6:
            stmts += lookup_block(rng, names)
        else:
            s = scalar_stmt(rng, names)
            if s:
                stmts.append(s)
    return stmts


def scalar_stmt(rng, names):
    fixed = rng.random() < 0.2 and any(f == "x" for _, f in names.outs)
    locs = scalar_locs(names, fixed)
    if not locs:
        return None
    dst = rng.choice(locs)
    kind = rng.choice(["const", "copy", "copy", "copy", "add", "h<-m", "h<-m", "m<-h"])
    if kind in ("h<-m", "m<-h"):
        # a direct assignment between a hash variable and another memory variable (array map, stack): prefer a
        # pair whose formats hold the same values, so that the value must arrive unchanged
        hs = [l for l in locs if l["k"] == "h"]
        ms = [l for l in locs if l["k"] in ("a", "l")]
        if not hs or not ms:
            return None
        m = rng.choice(ms)
        same = [h for h in hs if names.fmt(h)[-1] == names.fmt(m)[-1]]
        h = rng.choice(same or hs)
        return stmt("copy", dst=h, src=m) if kind == "h<-m" else stmt("copy", dst=m, src=h)
    if kind == "const":
        if dst["k"] == "h" and rng.random() < 0.85:          # constants go to result variables, mostly
            dst = rng.choice([l for l in locs if l["k"] == "a"] or [dst])
        return stmt("const", dst=dst, v=const_for(rng, names.fmt(dst)))
    if kind == "copy":
        return stmt("copy", dst=dst, src=rng.choice(locs))
    same = [l for l in locs if names.fmt(l) == names.fmt(dst) and names.fmt(l) != "x"]
    if not same:
        return None
    return stmt("add", dst=dst, src=rng.choice(same), v=rng.choice([1, 1, 2, -1, 7]))


def member_value(rng, names, target):
    """a statement storing into key / value member `target`: a constant, or a copy of a variable of the same format"""
    fmt = names.fmt(target)
    same = [l for l in scalar_locs(names, False) if names.fmt(l) == fmt]
    if same and rng.random() < 0.3:
        return stmt("copy", dst=target, src=rng.choice(same))
    return stmt("const", dst=target, v=mapdecl.rand_value(rng, fmt))


def set_key(rng, names, d):
    dd = names.dicts[d - 1]
    key = rng.choice(dd["pool"])
    return [stmt("const", dst=loc("key", d, i + 1), v=key[i]) for i in range(len(dd["key"]))]


def update_block(rng, names):
    d = rng.randint(1, len(names.dicts))
    dd = names.dicts[d - 1]
    out = set_key(rng, names, d)
    out += [member_value(rng, names, loc("val", d, i + 1)) for i in range(len(dd["value"]))]
    res = loc("a", rng.randint(1, NOUT), 1)
    # the flag as the program names it (never its number: the numbering is the library's business)
    out.append(stmt("update", dst=res, d=d, flags=rng.choice(["ANY", "ANY", "NOEXIST", "NOEXIST", "EXIST", "EXIST"])))
    return out


def lookup_block(rng, names):
    d = rng.randint(1, len(names.dicts))
    dd = names.dicts[d - 1]
    out = set_key(rng, names, d)
    body = []
    for _ in range(rng.randint(1, 3)):
        m = loc("lk", d, rng.randint(1, len(dd["value"])))
        r = rng.random()
        if r < 0.5:
            body.append(stmt("copy", dst=loc("a", rng.randint(1, NOUT), 1), src=m))
        elif r < 0.75:
            body.append(stmt("const", dst=m, v=mapdecl.rand_value(rng, dd["value"][m["i"] - 1][1])))
        else:
            body.append(stmt("add", dst=m, src=m, v=rng.choice([1, 3, -1])))
    els = [stmt("const", dst=loc("a", rng.randint(1, NOUT), 1), v=rng.choice([1, 77, -1]))] if rng.random() < 0.8 else []
    out.append(stmt("lookup", d=d, body=body, els=els))
    return out


def emitter(names, stmts):
    from ebpfcat.xdp import XDPExitCode
    from ebpfcat.bpf import UpdateFlags

    def program(self):
        def target(l, value):
            if l["k"] == "l":
                return self, names.lvars[l["id"] - 1][0]
            if l["k"] == "a":
                return self, names.outs[l["id"] - 1][0]
            if l["k"] == "h":
                return self, names.hvars[l["id"] - 1][0]
            dd = names.dicts[l["id"] - 1]
            t = getattr(self, dd["name"])
            if l["k"] == "key":
                return t.key, dd["key"][l["i"] - 1][0]
            if l["k"] == "val":
                return t.value, dd["value"][l["i"] - 1][0]
            return value, dd["value"][l["i"] - 1][0]

        def get(l, value):
            o, n = target(l, value)
            return getattr(o, n)

        def const(l, k):
            if names.fmt(l) == "x":
                return k // M.SCALE if k % M.SCALE == 0 else k / M.SCALE
            return k

        def emit(sts, value):
            for s in sts:
                if s["op"] == "const":
                    o, n = target(s["dst"], value)
                    setattr(o, n, const(s["dst"], s["k"]))
                elif s["op"] == "copy":
                    o, n = target(s["dst"], value)
                    setattr(o, n, get(s["src"], value))
                elif s["op"] == "add":
                    o, n = target(s["dst"], value)
                    setattr(o, n, get(s["src"], value) + s["k"])
                elif s["op"] == "update":
                    getattr(self, names.dicts[s["d"] - 1]["name"]).update(getattr(UpdateFlags, s["flags"]))
                    o, n = target(s["dst"], value)
                    setattr(o, n, self.r0)
                else:
                    t = getattr(self, names.dicts[s["d"] - 1]["name"])
                    with t.lookup() as (v, Else):
                        emit(s["body"], v)
                    if s["els"]:
                        with Else:
                            emit(s["els"], None)
        emit(stmts, None)
        self.exit(XDPExitCode.PASS)
    return program


def has_stmt(stmts, pred):
    return any(pred(s) or has_stmt(s["body"], pred) or has_stmt(s["els"], pred) for s in stmts)


# ---- a history ------------------------------------------------------------------------------------------------
def struct_items(inst, built, names):
    items = []
    for dd in names.dicts:
        K, V = built.structs[dd["name"]]
        t = getattr(inst, dd["name"])
        desc = type(inst).__dict__[dd["name"]]
        m = [x for x in inst._c09_maps if x["type"] == "hash" and x["ks"] == K.stack and x["vs"] == V.stack]
        for which, S, members, obj, base, size in (("key", K, dd["key"], t.key, desc.key_offset, "ks"),
                                                    ("val", V, dd["value"], t.value, desc.value_offset, "vs")):
            items.append(dict(d=dd["name"], which=which, letters=[f[-1] for _, f in members],
                              py=[S.__dict__[n].relative_addr for n, _ in members],
                              prog=[S.__dict__[n].fmt_addr(obj)[1] for n, _ in members],
                              base=base, total=S.stack, mapsize=m[0][size] if m else -1))
    return items


def sibling_part(rng, backend, decl, built, meta):
    """the second subclass of the common base class: an instance of its own, loaded; every hash variable it can
    name (inherited ones and its own) must hold its default and keep what Python writes.  A trace of its own."""
    split = decl["hash"]["split"]
    hv = decl["hash"]["vars"][:split["nbase"]] + split["sib"]
    D = dict(avars=[], ncpu=backend.ncpu, lvars=[], dicts=[], prog=[],
             hvars=[dict(c=v["fmt"][-1], **{"def": M.word(round(v["default"] * M.SCALE) if v["fmt"] == "x"
                                                            else v["default"])}) for v in hv])
    ev = []
    smeta = dict(ident=meta["ident"] + "/sibling", decl=decl, stmts=[], trace=dict(decl=D, ev=ev), built=False,
                 mode=backend.mode, sibling=True)
    meta["sibling_meta"] = smeta
    try:
        sess = backend.create(lambda: built.sibling())
    except Exception as e:                       # noqa: a result
        smeta["build_error"] = f"{type(e).__name__}: {str(e)[-500:]}"
        ev.append(M.event("run", res="build failed: " + type(e).__name__))
        return
    smeta["built"] = True
    try:
        for round_ in range(2):
            for i, v in enumerate(hv):
                try:
                    got = getattr(sess.inst, v["name"])
                    if v["fmt"] == "x":          # a decimal: its abstract value is the number scaled by 100000
                        got = M.scaled(got)
                    ok = isinstance(got, int) and not isinstance(got, bool) and abs(got) < 1 << 70
                    ev.append(M.event("pyread_h", id=i + 1, v=M.word(got)) if ok else
                              M.event("pyread_h", id=i + 1, res="not a value of the format"))
                except Exception as e:           # noqa
                    ev.append(M.event("pyread_h", id=i + 1, res=M.exc_name(e)))
            if round_ == 0:
                for i, v in enumerate(hv):
                    if v["fmt"] == "x":
                        n = rng.choice([rng.randint(-300, 300) * M.SCALE, rng.randint(-10 ** 7, 10 ** 7)])
                        val = n / M.SCALE
                    else:
                        n = val = mapdecl.rand_value(rng, v["fmt"])
                    try:
                        setattr(sess.inst, v["name"], val)
                        ev.append(M.event("pywrite_h", id=i + 1, v=M.word(n)))
                    except Exception as e:       # noqa
                        ev.append(M.event("pywrite_h", id=i + 1, v=M.word(n), res=M.exc_name(e)))
    finally:
        sess.close()


def history(rng, backend, decl, nops, meta):
    from ebpfcat.xdp import XDP
    names = Names(decl)
    stmts = gen_program(rng, names)
    lru = any(dd["lru"] for dd in decl["dicts"])
    if lru and backend.mode == "fake":           # the machine has no LRU eviction: plain hash maps there
        for dd in decl["dicts"]:
            dd["lru"] = False
        lru = False
    D = tla_decl(decl, names, stmts, backend.ncpu)
    ev = []
    meta.update(decl=decl, stmts=stmts, trace=dict(decl=D, ev=ev), built=False, mode=backend.mode)
    sess = None
    split = (decl["hash"] or {}).get("split") or dict(kind="own")
    try:
        from ebpfcat.ebpf import LocalVar
        from ebpfcat.xdp import XDPExitCode
        built = mapdecl.build(decl, base=XDP, program=emitter(names, stmts), name="Prog",
                              extra={n: LocalVar(f) for n, f in names.lvars},
                              sibling_program=lambda self: self.exit(XDPExitCode.PASS))
        if built.sibling is not None and split["sib_loaded_first"]:
            sibling_part(rng, backend, decl, built, meta)
        sess = backend.create(lambda: built.cls())
        if built.sibling is not None and not split["sib_loaded_first"]:
            sibling_part(rng, backend, decl, built, meta)
        inst = sess.inst
        inst._c09_maps = sess.b.maps
    except Exception as e:                       # noqa: cannot be built / loaded: a result
        meta["build_error"] = f"{type(e).__name__}: {str(e)[-500:]}"
        ev.append(M.event("run", res="build failed: " + type(e).__name__))
        return
    meta["built"] = True
    cpu = backend.cpus[0]
    nruns = 0

    def fval(fmt, value):
        """abstract word of what the Python side returned for a scalar of format fmt"""
        if fmt == "x":
            n = M.scaled(value)
            return None if n is None else M.word(n)
        if not isinstance(value, int) or isinstance(value, bool) or abs(value) >= 1 << 70:
            return None
        return M.word(value)

    def read_scalar(kind, idx):
        name, fmt = (names.outs[idx][:2] if kind == "a" else names.hvars[idx][:2])
        op = "pyread_a" if kind == "a" else "pyread_h"
        try:
            w = fval(fmt, getattr(inst, name))
            if w is None:
                ev.append(M.event(op, id=idx + 1, res="not a value of the format"))
            else:
                ev.append(M.event(op, id=idx + 1, v=[[w]] if kind == "a" else w))
        except Exception as e:                   # noqa
            ev.append(M.event(op, id=idx + 1, res=M.exc_name(e)))

    def write_scalar(kind, idx):
        name, fmt = (names.outs[idx][:2] if kind == "a" else names.hvars[idx][:2])
        op = "pywrite_a" if kind == "a" else "pywrite_h"
        if fmt == "x":
            n = rng.choice([rng.randint(-300, 300) * M.SCALE, rng.randint(-10 ** 7, 10 ** 7),
                            rng.choice(mapdecl.TRICKY_FIXED), rng.choice(mapdecl.TRICKY_FIXED)])
            val = n // M.SCALE if n % M.SCALE == 0 and rng.random() < 0.5 else n / M.SCALE
        else:
            n = val = mapdecl.rand_value(rng, fmt)
        try:
            setattr(inst, name, val)
            ev.append(M.event(op, id=idx + 1, v=[M.word(n)] if kind == "a" else M.word(n)))
        except Exception as e:                   # noqa
            ev.append(M.event(op, id=idx + 1, v=[M.word(n)] if kind == "a" else M.word(n), res=M.exc_name(e)))
        if fmt == "x":
            read_scalar(kind, idx)               # keeps a deviation local to the operation causing it

    def tuple_of(obj, members):
        out = []
        for n, f in members:
            w = fval(f, getattr(obj, n))
            if w is None:
                raise ValueError("member is not a value of its format")
            out.append(w)
        return out

    def dict_op(di):
        dd = names.dicts[di]
        K, V = built.structs[dd["name"]]
        t = getattr(inst, dd["name"])
        kv = rng.choice(dd["pool"])
        k = K()
        for (n, _), x in zip(dd["key"], kv):
            setattr(k, n, x)
        kw = [M.word(x) for x in kv]
        op = rng.choice(["set", "set", "get", "get", "pop", "pop_default", "del", "in", "iter", "items",
                         "set_noexist", "set_exist"])
        try:
            if op in ("set_noexist", "set_exist"):
                # the map API with a named flag (ebpfcat.bpf.update_elem, as TheDict.__setitem__ uses it)
                import ebpfcat.bpf as bpfmod
                vv = [mapdecl.rand_value(rng, f) for _, f in dd["value"]]
                v = V()
                for (n, _), x in zip(dd["value"], vv):
                    setattr(v, n, x)
                flag = bpfmod.UpdateFlags.NOEXIST if op == "set_noexist" else bpfmod.UpdateFlags.EXIST
                try:
                    bpfmod.update_elem(t.fd, k.data, v.data, flag)
                    res = "ok"
                except IndexError:
                    res = "IndexError"
                except OSError as e:
                    res = "refused" if e.errno in (2, 17) else M.exc_name(e)
                ev.append(M.event("d_" + op, id=di + 1, k=kw, v=[M.word(x) for x in vv], res=res))
            elif op == "set":
                vv = [mapdecl.rand_value(rng, f) for _, f in dd["value"]]
                v = V()
                for (n, _), x in zip(dd["value"], vv):
                    setattr(v, n, x)
                try:
                    t[k] = v
                    res = "ok"
                except IndexError:
                    res = "IndexError"
                ev.append(M.event("d_set", id=di + 1, k=kw, v=[M.word(x) for x in vv], res=res))
            elif op in ("get", "pop", "pop_default"):
                try:
                    got = t[k] if op == "get" else (t.pop(k) if op == "pop" else t.pop(k, None))
                    if got is None:
                        ev.append(M.event("d_pop_default", id=di + 1, k=kw, res="default"))
                    else:
                        ev.append(M.event("d_" + op, id=di + 1, k=kw, v=tuple_of(got, dd["value"])))
                        if op != "get":          # does the other side still find it?  (keeps deviations local)
                            ev.append(M.event("d_in", id=di + 1, k=kw, res="true" if k in t else "false"))
                except KeyError:
                    ev.append(M.event("d_" + op, id=di + 1, k=kw, res="KeyError"))
            elif op == "del":
                try:
                    del t[k]
                    ev.append(M.event("d_del", id=di + 1, k=kw))
                except KeyError:
                    ev.append(M.event("d_del", id=di + 1, k=kw, res="KeyError"))
            elif op == "in":
                ev.append(M.event("d_in", id=di + 1, k=kw, res="true" if k in t else "false"))
            elif op == "iter":
                ev.append(M.event("d_iter", id=di + 1,
                                  items=[dict(k=tuple_of(x, dd["key"]), v=[]) for x in list(t)]))
            else:
                ev.append(M.event("d_items", id=di + 1,
                                  items=[dict(k=tuple_of(a, dd["key"]), v=tuple_of(b, dd["value"]))
                                         for a, b in list(t.items())]))
        except Exception as e:                   # noqa
            ev.append(M.event("d_" + op, id=di + 1, k=kw, res=M.exc_name(e)))

    try:
        try:
            ev.append(M.event("structs", items=struct_items(inst, built, names)))
        except Exception as e:                   # noqa
            ev.append(M.event("structs", res=M.exc_name(e)))
        for i in range(len(names.hvars)):        # the declared defaults
            if rng.random() < 0.7:
                read_scalar("h", i)
        for i, (n, _) in enumerate(names.outs):  # the program's other memory starts with values of Python's choice
            if n.startswith("e"):
                write_scalar("a", i)
        for step in range(nops):
            r = rng.random()
            if r < 0.22 and (backend.mode == "kernel" or nruns < 2):
                nruns += 1
                req = sess.request(cpu)
                req["ident"] = meta["ident"]
                if lru:                          # eviction is the kernel's business: no comparison with the machine
                    req["expect"] = dict(has=False, arr=[], hash=[])
                req["stmts"] = [show_stmt(x) for x in stmts]
                result = yield req
                if backend.mode == "fake":
                    if result["st"] == ["exit"]:
                        sess.apply(result, cpu)
                        ev.append(M.event("run", cpu=1))
                    else:
                        ev.append(M.event("run", cpu=1, res="machine " + json.dumps(result["st"])))
                else:
                    ev.append(M.event("run", cpu=1, res="ok" if req["error"] is None else req["error"]))
                for i in range(len(names.outs)):  # what the program showed
                    read_scalar("a", i)
            elif r < 0.45 and names.hvars:
                i = rng.randrange(len(names.hvars))
                (read_scalar if rng.random() < 0.55 else write_scalar)("h", i)
            elif r < 0.6:
                i = rng.randrange(len(names.outs))
                (read_scalar if rng.random() < 0.4 else write_scalar)("a", i)
            elif names.dicts:
                dict_op(rng.randrange(len(names.dicts)))
            elif names.hvars:
                read_scalar("h", rng.randrange(len(names.hvars)))
        for i in range(len(names.hvars)):
            read_scalar("h", i)
        for di, dd in enumerate(names.dicts):
            K, V = built.structs[dd["name"]]
            try:
                t = getattr(inst, dd["name"])
                ev.append(M.event("d_items", id=di + 1,
                                  items=[dict(k=tuple_of(a, dd["key"]), v=tuple_of(b, dd["value"]))
                                         for a, b in list(t.items())]))
            except Exception as e:               # noqa
                ev.append(M.event("d_items", id=di + 1, res=M.exc_name(e)))
    finally:
        sess.close()


# ---- the check -------------------------------------------------------------------------------------------------
def run(ctx):
    wd = ctx.workdir()
    nconf = 110 if ctx.quick else 900
    nops = 18 if ctx.quick else 30
    use_kernel = kernel.available()
    ctx.extra["kernel_available"] = use_kernel
    plans = []
    for j in range(nconf):
        plans.append((f"c09-{j}", "kernel" if use_kernel and j % 4 != 3 else "fake"))
    for j in range(nconf // 5):
        plans.append((f"c09-r-{ctx.seed}-{j}", "kernel" if use_kernel and j % 4 != 3 else "fake"))
    metas, runs = [], []
    for mode in ("kernel", "fake"):
        mine = [p for p in plans if p[1] == mode]
        if not mine:
            continue
        fk = fakekernel.FakeKernel().install() if mode == "fake" else None
        try:
            backend = M.Backend(mode, fk)
            gens = []
            for ident, _ in mine:
                rng = random.Random(ident)
                meta = dict(ident=ident)
                metas.append(meta)
                gens.append(history(rng, backend, rand_decl(rng), nops, meta))
            runs += M.drive(ctx, wd, gens, mode)
        finally:
            if fk is not None:
                fk.uninstall()
    for req, ok, result in runs:
        ctx.evaluated(("run", json.dumps(req["case"]["programs"])[:3000], json.dumps(req["case"]["hash"])[:1000]),
                      nontrivial=True)
        if not ok:
            ctx.case_failed(dict(part="machine-vs-kernel", machine=result, kernel=req["expect"], rv=req["rv"],
                                 pre=dict(arr=req["case"]["arr"], hash=req["case"]["hash"]), ident=req["ident"],
                                 stmts=req["stmts"]),
                            f"the machine and the kernel disagree on a run ({req['ident']}, rv {req['rv']}): machine {result['st']} "
                            f"{result['arr']} {result['hash']} kernel {req['expect']}")
    metas += [m["sibling_meta"] for m in metas if "sibling_meta" in m]
    rejects = M.validate(ctx, wd, [m["trace"] for m in metas])
    opsseen = {}
    for ti, m in enumerate(metas):
        ctx.traces += 1
        evs = m["trace"]["ev"]
        ops = {e["op"] for e in evs}
        for e in evs:
            opsseen[e["op"]] = opsseen.get(e["op"], 0) + 1
        ctx.evaluated(("history", m["ident"]),
                      nontrivial=m["built"] and "run" in ops and len(ops & {"pyread_h", "d_get", "d_items", "d_iter"}) >= 1)
        if ti % 40 == 0:
            ctx.sample(dict(hash=m["decl"]["hash"], dicts=m["decl"]["dicts"], mode=m["mode"],
                            stmts=[show_stmt(s) for s in m["stmts"]],
                            events=[[e["op"], e["id"], e["res"]] for e in evs][:40]))
        for idx, why, expected in rejects.get(ti, []):
            e = evs[idx]
            case = dict(part="history", mode=m["mode"], decl=m["decl"], stmts=[show_stmt(s) for s in m["stmts"]],
                        why=why, index=idx, build_error=m.get("build_error"), expected=M.unwords(expected),
                        event=dict(op=e["op"], id=e["id"], res=e["res"], k=M.unwords(e["k"]), v=M.unwords(e["v"]),
                                   items=[[M.unwords(x["k"]), M.unwords(x["v"])] for x in e["items"]]
                                   if e["op"] != "structs" else e["items"]),
                        fmt=event_fmt(m["decl"], e, m.get("sibling", False)),
                        split=(m["decl"]["hash"] or {}).get("split"), sibling=m.get("sibling", False),
                        prev=[[x["op"], x["id"], x["res"], M.unwords(x["k"])] for x in evs[max(0, idx - 3):idx]],
                        prev_all=[[x["op"], x["id"], x["res"]] for x in evs[:idx]],
                        const_to_hash=has_stmt(m["stmts"], lambda s: s["op"] == "const" and s["dst"]["k"] == "h"),
                        x_hash=[v["name"] for v in (m["decl"]["hash"] or dict(vars=[]))["vars"] if v["fmt"] == "x"],
                        x_defaults=[v["default"] for v in (m["decl"]["hash"] or dict(vars=[]))["vars"] if v["fmt"] == "x"])
            ctx.case_failed(case, f"{why}: {m['mode']} history {m['ident']}, event {idx} "
                                  f"{json.dumps(case['event'])[:300]} (format {case['fmt']}, expected "
                                  f"{case['expected']}; before: {case['prev']}; {m.get('build_error') or ''})")
    ctx.exhaustive = False
    ctx.extra["events"] = opsseen
    ctx.rule = ("one evaluation per history and per program run; non-trivial history = the program was built, "
                "ran at least once, and a hash variable or Dict entry was read back from Python")
    ctx.assumptions.append("single-threaded test runs; LRU eviction order is not specified (an insert into a full "
                           "LRU Dict leaves its contents unspecified)")
    classify(ctx)


def show_stmt(s):
    def l(x):
        return f"{x['k']}{x['id']}.{x['i']}"
    if s["op"] == "lookup":
        return dict(op="lookup", d=s["d"], body=[show_stmt(x) for x in s["body"]], els=[show_stmt(x) for x in s["els"]])
    if s["op"] == "update":
        return dict(op="update", d=s["d"], flags=s["flags"], dst=l(s["dst"]))
    return dict(op=s["op"], dst=l(s["dst"]), src=l(s["src"]), k=s["k"])


def event_fmt(decl, e, sibling=False):
    if e["op"] in ("pyread_h", "pywrite_h"):
        hv = decl["hash"]["vars"]
        if sibling:
            hv = hv[:decl["hash"]["split"]["nbase"]] + decl["hash"]["split"]["sib"]
        return hv[e["id"] - 1]["fmt"]
    if e["op"] in ("pyread_a", "pywrite_a"):
        return decl["arrays"][0]["vars"][e["id"] - 1]["fmt"]
    return None


# ---- tally of failures by defect class (reporting only) ---------------------------------------------------------
def pred_pop_keeps(case, reason=None):
    """bpf._lookup_elem ignores its `cmd` argument: lookup_and_delete_elem only looks up, so Dict.pop()
    returns the value but leaves the entry in the map"""
    return case["part"] == "history" and case["event"]["op"] == "d_in" and case["event"]["res"] == "true" \
        and bool(case["prev"]) and case["prev"][-1][0] in ("d_pop", "d_pop_default") and case["prev"][-1][2] == "ok" \
        and case["prev"][-1][3] == case["event"]["k"]


def pred_iter_empty(case, reason=None):
    """TheDict.__iter__ lets get_next_key's StopIteration escape from the generator when the map is empty"""
    return case["part"] == "history" and case["event"]["op"] in ("d_iter", "d_items") \
        and case["event"]["res"] == "exc:RuntimeError" and case["expected"] == [0]


def pred_x_hash(case, reason=None):
    """F10, second half: HashGlobalVarDesc handles the fixed-point format with struct's pad code 'x' on reading
    and packs the unscaled number on writing"""
    if case["part"] != "history" or not case["x_hash"]:
        return False
    e = case["event"]
    if e["op"] == "run" and (case.get("build_error") or "").startswith("error"):
        return any(isinstance(d, float) for d in case["x_defaults"])         # load(): pack("q", 1.5)
    if case["fmt"] != "x":
        return False
    if e["op"] == "pyread_h":
        return e["res"] == "exc:IndexError"
    if e["op"] == "pywrite_h":
        return e["res"] == "exc:error"
    return e["op"] == "pyread_a"                # the result variable a program copied the x variable to / from


def pred_const_to_hash(case, reason=None):
    """HashGlobalVarDesc.__set__ calls value.get_address on a plain Python number"""
    return case["part"] == "history" and case["const_to_hash"] and case["event"]["op"] == "run" \
        and (case.get("build_error") or "").startswith("AttributeError")


def flat(stmts):
    for s in stmts:
        yield s
        if s["op"] == "lookup":
            yield from flat(s["body"])
            yield from flat(s["els"])


def pred_hash_read_r0_refused(case, reason=None):
    return pred_hash_read_r0(case, reason, silent_ok=False)


def pred_hash_read_r0(case, reason=None, silent_ok=True):
    """HashGlobalVar.get_address saves and restores r0 around its lookup call also when it hands the
    address out in r0: once r0 is in use (it stays so after any Dict update()/lookup()), a hash variable
    read dereferences the restored old r0 - the verifier refuses the program"""
    if case["part"] != "history":
        return False
    e = case["event"]
    refused = e["op"] == "run" and any(x in (case.get("build_error") or "") + e["res"] for x in
                                       ("R0 invalid mem access", "invalid access to map value",
                                        "load-via-nonpointer", "load-out-of-bounds"))
    # where the restored r0 happens to be a pointer the verifier accepts, the program silently reads the
    # Dict entry instead of the hash variable: values derived from it are wrong after a run
    silent = e["op"] in ("pyread_a", "pyread_h", "d_get", "d_pop", "d_items") and e["res"] == "ok" \
        and any(x[0] == "run" for x in case["prev_all"])
    if not (refused or (silent and silent_ok)):
        return False
    seen_dict = False
    for s in flat(case["stmts"]):
        if s["op"] in ("update", "lookup"):
            seen_dict = True
        elif seen_dict and s["op"] in ("copy", "add") and s["src"].startswith("h"):
            return True
    return False


def pred_ordered_hash(case, reason=None):
    """a hash variable declared with an explicit byte order: the Python getter unpacks with the declared order,
    the Python setter and the program use the host's order (and the program does not sign-extend it)"""
    if case["part"] != "history":
        return False
    ordered = [v["name"] for v in (case["decl"]["hash"] or dict(vars=[]))["vars"] if len(v["fmt"]) > 1]
    if not ordered:
        return False
    e = case["event"]
    if e["op"] in ("pyread_h", "pywrite_h"):
        return len(case["fmt"] or "") > 1
    # a result variable / Dict member the program computed from such a variable
    return e["op"] in ("pyread_a", "d_get", "d_pop", "d_items", "d_in", "d_iter") and \
        any(s["op"] in ("copy", "add") and s["src"].startswith("h") and
            len(case["decl"]["hash"]["vars"][int(s["src"][1:].split(".")[0]) - 1]["fmt"]) > 1
            for s in flat(case["stmts"]))


def pred_inherited_hash(case, reason=None):
    """hash variables declared in a base class of the instantiated class: HashMap.load looks every variable up in
    `ebpf.__class__.__dict__` (KeyError for an inherited one), HashMap.init does getattr(ebpf, name) for the
    variables of ALL subclasses sharing the map (AttributeError for a sibling's)"""
    split = case.get("split") or {}
    return case["part"] == "history" and split.get("kind") in ("base", "extend", "siblings") \
        and case["event"]["op"] == "run" and (case.get("build_error") or "").startswith(("KeyError", "AttributeError"))


def pred_whole_to_fixed_hash(case, reason=None):
    """the program assigns a whole number to a fixed-point hash variable: HashGlobalVarDesc.__set__ (program side)
    lacks the scaling Memory._set does, the cell gets the number itself instead of the number times 100000 (seen
    on the variable or on a fixed-point variable copied from it)"""
    if case["part"] != "history" or case["fmt"] != "x" or case["event"]["op"] not in ("pyread_h", "pyread_a"):
        return False
    e, g = case["expected"], case["event"]["v"]
    while isinstance(e, list) and e:
        e, g = e[0], g[0]
    return isinstance(e, int) and isinstance(g, int) and e != 0 and g * M.SCALE == e


def pred_f3(case, reason=None):
    """fixed-point result variable one unit closer to zero (F3 of C02 / C08)"""
    if case["part"] != "history" or case["fmt"] != "x" or case["event"]["op"] != "pyread_a":
        return False
    try:
        e, g = case["expected"][0][0], case["event"]["v"][0][0]
    except (TypeError, IndexError):
        return False
    return isinstance(e, int) and isinstance(g, int) and abs(e) - abs(g) == 1


def classify(ctx):
    classes = [("Dict.pop does not delete (bpf._lookup_elem ignores cmd)", pred_pop_keeps),
               ("iteration over an empty Dict raises RuntimeError", pred_iter_empty),
               ("constant assigned to a hash variable in a program (AttributeError)", pred_const_to_hash),
               ("hash variable read while r0 is in use (after a Dict operation): program refused", pred_hash_read_r0_refused),
               ("whole number assigned to a fixed-point hash variable by the program", pred_whole_to_fixed_hash),
               ("F3 fixed-point truncation", pred_f3),
               ("F10 x-format hash variable", pred_x_hash),
               ("hash variables inherited from a base class (HashMap.load / init)", pred_inherited_hash)]
    tally = {name: 0 for name, _ in classes}
    tally["not explained"] = 0
    shown = {}
    for case, reason in ctx.failures:
        name = next((n for n, p in classes if p(case)), "not explained")
        tally[name] += 1
        shown.setdefault(name, []).append(reason[:700])
    ctx.extra["failure_tally"] = tally
    if ctx.failures:
        print("C09 failure tally:", json.dumps(tally))
        for name, rs in sorted(shown.items()):
            for r in rs[:10 if name == "not explained" else 1]:
                print(f"  [{name}] {r}")
