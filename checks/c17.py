"""C17 - EEPROM contents and derived layouts are decoded exactly.

Spec: spec/SiiImage.tla (what an SII image stores: identity, categories, sync managers, PDO
layout), spec/Sii.tla (the SII register protocol; MC_Sii exhaustive), SiiScripts (interface
scripts), SiiTrace (register accesses of real reads validated against the protocol), SiiEval
(TLC evaluates SiiImage on each generated image and judges what the real code returned).

Binding: deterministic generators build well-formed images; for every (image, interface script)
the real Terminal.read_eeprom / parse_sync_managers / parse_pdos (EEPROM source, and SDO source
against a small CoE upload server) and EtherCat.eeprom_read run on a real EtherCat object wired
to harness/simbus inside harness/simloop.  Python only drives and records; every verdict is
printed by TLC."""
import json
import os
import random
import struct
import time

from harness import tlc as T
from harness import simbus, simloop

PROPERTY = "C17"
LEVEL = "model_checking"

STATION = 5
LONG_BUSY = [99, 100, 101, 150]     # polls; thorough adds 1000
RESERVED = {41, 50, 51, 0xffff}


# ---------------------------------------------------------------------------------------------
# image generators (deterministic functions of the rng handed in)

def gen_sm_category(rng, kind):
    """-> (bytes of category 41, list of modes).  kind 'sdo': SM0 mailbox out, SM1 mailbox in
    (where the real mbx_send / mbx_recv look), realistic mailbox areas; otherwise at most one
    mailbox direction so that the EEPROM is the source of the PDO layout."""
    ents = []
    if kind == "sdo":
        sz_out, sz_in = rng.choice([32, 48, 64, 128]), rng.choice([32, 48, 64, 128])
        ents.append((0x1000, sz_out, 0x26))
        ents.append((0x1000 + 256, sz_in, 0x22))
        rest = rng.choice([[4, 0], [0, 4], [4], [0], []])
        for k, mode in enumerate(rest):
            ents.append((0x1400 + 0x200 * k + rng.randrange(0, 64), rng.randrange(0, 512),
                         mode | rng.choice([0, 0x20, 0x40, 0x60])))
    else:
        n = rng.choice([0, 1, 2, 2, 3, 3, 4, 4, 6])
        allowed = rng.choice([[0, 4, 6], [0, 4, 2], [0, 4]])
        modes = [rng.choice(allowed) for _ in range(n)]
        if rng.random() < 0.7:      # usually each kind at most once
            seen, m2 = set(), []
            for m in modes:
                if m in seen:
                    cand = [x for x in allowed if x not in seen]
                    if not cand:
                        continue
                    m = rng.choice(cand)
                seen.add(m)
                m2.append(m)
            modes = m2
        for mode in modes:
            ents.append((rng.randrange(0, 0x10000), rng.randrange(0, 0x10000),
                         mode | (rng.randrange(16) << 4)))
    data = b""
    for off, size, ctl in ents:
        data += struct.pack("<HHBBBB", off, size, ctl, rng.randrange(256), rng.randrange(2),
                            rng.randrange(5))
    return data, [e[2] & 0xf for e in ents]


# single-byte count / length fields of the categories at the edges of their range (sign bit, maximum)
EDGE_BYTES = [127, 128, 255]


def gen_entries(rng, used, maxn, counts=None, edge=False):
    """well-formed list of (index, subindex, bits) for the PDOs of one direction: entries of 8 or
    more bits are byte aligned and 8/16/32/64 bits wide; index 0 = padding; keys distinct.
    counts: the number of entries of each PDO (default: 0..3 PDOs of 0..maxn entries);
    edge: subindices and padding lengths prefer the edge values of a byte"""
    if counts is None:
        counts = [rng.randrange(0, maxn + 1) for _ in range(rng.choice([0, 1, 1, 2, 3]))]
    pdos = []
    bitpos = 0
    for n in counts:
        ents = []
        for _ in range(n):
            r = rng.random()
            if bitpos % 8 == 0 and r < (0.2 if n > 100 else 0.5):
                bits = rng.choice([8, 16, 16, 32, 64])
                pad = rng.random() < 0.1
            elif r < 0.8:
                bits = rng.choice([1, 1, 1, 1, 2, 3, 4, 7])
                pad = rng.random() < 0.1
            else:               # padding up to the byte boundary (or a whole padding byte/word)
                bits = (8 - bitpos % 8) if bitpos % 8 else rng.choice([8, 16])
                pad = True
            if pad and (edge or rng.random() < 0.05) and rng.random() < 0.5:
                bits = rng.choice(EDGE_BYTES)       # a padding entry may have any length
            if pad:
                key = (0, rng.choice([0, 0, rng.randrange(256)]))
            else:
                while True:
                    key = (rng.choice([rng.randrange(1, 0x10000), 0x6000 + 16 * rng.randrange(8),
                                       0x7000 + 16 * rng.randrange(8)]),
                           rng.choice([0] + EDGE_BYTES) if rng.random() < (0.5 if edge else 0.05)
                           else rng.randrange(256) if rng.random() < 0.3 else rng.randrange(1, 20))
                    if key not in used:
                        break
                used.add(key)
            ents.append((key[0], key[1], bits))
            bitpos += bits
        pdos.append(ents)
    return pdos


def pdo_category(rng, pdos, base, smno):
    data = b""
    for k, ents in enumerate(pdos):
        data += struct.pack("<HBBBBH", base + k, len(ents), smno, rng.randrange(256),
                            rng.randrange(256), rng.randrange(0x10000))
        for idx, sub, bits in ents:
            data += struct.pack("<HBBBBH", idx, sub, rng.randrange(256), rng.randrange(256), bits,
                                rng.randrange(0x10000))
    return data


# header words at the edges of their range: type 0 (NOP), 1, around the vendor-specific bit, the
# largest type below the end marker, and types whose bytes look like erased / blank cells
BOUNDARY_TYPES = [0, 1, 0x00ff, 0xff00, 0x7fff, 0x8000, 0xfffe]
BOUNDARY_WORDS = [0, 1, 2]
BOUNDARY_POS = ["first", "middle", "last"]


def gen_case(rng, kind, size="normal", inject=None, counts=None):
    """kind: 'plain' (no SM/PDO categories), 'eeprom' (PDO layout from the EEPROM), 'sdo'.
    inject = (type, words, position, fill): one more category with exactly this header is put
    first / in the middle / last in the category list (body bytes: fill, or random if None)"""
    maxw = {"small": 6, "normal": 24, "large": 60}[size]
    head = bytearray(rng.randrange(256) for _ in range(128))
    if rng.random() < 0.15:   # identity fields with extreme bytes
        for o in range(16, 32, 4):
            head[o:o + 4] = rng.choice([b"\0\0\0\0", b"\xff\xff\xff\xff", b"\0\0\0\x80",
                                        b"\xff\xff\xff\x7f", bytes(head[o:o + 4])])
    cats = []
    types = set()
    for _ in range(rng.choice([0, 1, 2, 3, 4, 6] if size != "small" else [0, 1, 2])):
        while True:
            t = rng.choice([10, 30, 40, 60, rng.randrange(0, 0xffff), rng.randrange(0, 0xffff),
                            0x8000 | rng.randrange(0x7fff), rng.choice(BOUNDARY_TYPES)])
            if t not in RESERVED and t not in types and (inject is None or t != inject[0]):
                break
        types.add(t)
        nw = rng.choice([0, 1, 2, 3, rng.randrange(maxw + 1), rng.randrange(maxw + 1)])
        body = bytearray(rng.randrange(256) for _ in range(2 * nw))
        if nw and rng.random() < 0.2:      # content that looks like an end marker
            p = 2 * rng.randrange(nw)
            body[p:p + 2] = b"\xff\xff"
        cats.append((t, bytes(body)))
    od = od_zero = None
    modes = []
    if kind != "plain":
        smdata, modes = gen_sm_category(rng, kind)
        cats.append((41, smdata))
        used = set()
        # counts = (entry counts of the output PDOs or None, same for the input PDOs)
        co, ci = counts or (None, None)
        outp = gen_entries(rng, used, 3 if size == "small" else 6, co, counts is not None)
        inp = gen_entries(rng, used, 3 if size == "small" else 6, ci, counts is not None)
        smo = modes.index(4) if 4 in modes else 2
        smi = modes.index(0) if 0 in modes else 3
        if kind == "sdo":
            # the object dictionary answers; the EEPROM PDO categories (if any) say something else
            od = dict(out=[[[b, s, i] for i, s, b in p] for p in outp],
                      inp=[[[b, s, i] for i, s, b in p] for p in inp])
            od_zero = dict(out=[False] * len(outp), inp=[False] * len(inp))
            for key in ("out", "inp"):      # unused assignment slots (PDO index 0)
                while rng.random() < 0.25 and len(od[key]) < 5:
                    k = rng.randrange(len(od[key]) + 1)
                    od[key].insert(k, [])
                    od_zero[key].insert(k, True)
            if rng.random() < 0.5:
                other = set()
                cats.append((51, pdo_category(rng, gen_entries(rng, other, 3), 0x1600, smo)))
                cats.append((50, pdo_category(rng, gen_entries(rng, other, 3), 0x1a00, smi)))
        else:
            if outp or rng.random() < 0.5:
                cats.append((51, pdo_category(rng, outp, 0x1600, smo)))
            if inp or rng.random() < 0.5:
                cats.append((50, pdo_category(rng, inp, 0x1a00, smi)))
    rng.shuffle(cats)
    if inject is not None:
        t, nw, where, fill = inject
        body = bytes(rng.randrange(256) if fill is None else fill for _ in range(2 * nw))
        at = {"first": 0, "middle": (len(cats) + 1) // 2, "last": len(cats)}[where]
        cats.insert(at, (t, body))
    img = bytes(head)
    for t, body in cats:
        img += struct.pack("<HH", t, len(body) // 2) + body
    img += b"\xff\xff"
    img += bytes(rng.randrange(256) for _ in range(rng.choice([0, 0, 2, 6, 8, 14, 30])))
    case = dict(image=list(img), source="sdo" if kind == "sdo" else "eeprom", kind=kind,
                ncat=len(cats), modes=modes, cat_types=[t for t, _ in cats],
                cat_words=[len(b) // 2 for _, b in cats])
    if od is not None:
        case["od"] = od
        case["od_zero"] = od_zero
    return case


# ---------------------------------------------------------------------------------------------
# a minimal CoE server: expedited SDO upload of the PDO assignment / mapping objects

def coe_server(od, zero=None):
    """od as in the case: -> mbx_server(term, mail) answering upload requests for 0x1c12, 0x1c13
    and the PDO mapping objects 0x1600+k / 0x1a00+k; zero[key][k]: assignment slot k holds PDO
    index 0 (an unused slot; od[key][k] is empty then)"""
    objs = {}
    for index, base, key in ((0x1c12, 0x1600, "out"), (0x1c13, 0x1a00, "inp")):
        pd = od[key]
        objs[index, 0] = struct.pack("B", len(pd))
        for k, ents in enumerate(pd):
            if zero and zero[key][k]:
                objs[index, k + 1] = struct.pack("<H", 0)
                continue
            objs[index, k + 1] = struct.pack("<H", base + k)
            objs[base + k, 0] = struct.pack("B", len(ents))
            for j, (bits, sub, idx) in enumerate(ents):
                objs[base + k, j + 1] = struct.pack("<BBH", bits, sub, idx)

    def server(term, mail):
        ln, addr, chan, typ = struct.unpack_from("<HHBB", mail, 0)
        if typ & 0xf != 3:
            return
        coe, cmd, index, sub = struct.unpack_from("<HBHB", mail, 6)
        cnt = (server.cnt % 7) + 1
        server.cnt += 1
        if coe >> 12 == 2 and cmd & 0xe0 == 0x40 and (index, sub) in objs:
            v = objs[index, sub]
            body = struct.pack("<HBHB", 3 << 12, 0x43 | ((4 - len(v)) << 2), index, sub) + \
                v.ljust(4, b"\0")
        else:       # abort: object does not exist
            body = struct.pack("<HBHBI", 2 << 12, 0x80, index, sub, 0x06020000)
        term.mbx_post(struct.pack("<HHBB", len(body), 0, 0, 3 | (cnt << 4)) + body)
    server.cnt = 0
    return server


# ---------------------------------------------------------------------------------------------
# driving the real code

def _u32(v):
    if isinstance(v, int) and not isinstance(v, bool) and 0 <= v < 2 ** 32:
        return list(struct.pack("<I", v))
    raise ValueError(f"not a 32-bit unsigned value: {v!r}")


def _int31(v):
    if v is None:
        return -1
    if isinstance(v, int) and not isinstance(v, bool) and 0 <= v < 2 ** 31:
        return v
    raise ValueError(f"not a small non-negative integer: {v!r}")


SM_FIELDS = ("mbx_out_off", "mbx_out_sz", "mbx_in_off", "mbx_in_sz", "pdo_out_off", "pdo_out_sz",
             "pdo_in_off", "pdo_in_sz", "pdo_out_addr", "pdo_in_addr")
SM_NONE = dict({f: -1 for f in SM_FIELDS})


def pdo_due(case):
    """the driver's rule for calling parse_pdos (the specification states the same rule; a
    disagreement shows up as a failed verdict): a sync-manager category is present and the source
    the code will choose (SDO iff both mailboxes exist) is the one this case provides"""
    if 41 not in [c[0] for c in case_categories(case)]:
        return False
    has_mbx = 6 in case["modes"] and 2 in case["modes"]
    return has_mbx == (case["source"] == "sdo")


def case_categories(case):
    """generator-side view of the image (only for deciding what to call; never for judging)"""
    img = bytes(case["image"])
    o, out = 128, []
    while o + 4 <= len(img):
        t, n = struct.unpack_from("<HH", img, o)
        if t == 0xffff:
            break
        out.append((t, img[o + 4:o + 4 + 2 * n]))
        o += 4 + 2 * n
    return out


def _exc(e):
    return f"{type(e).__name__}: {e}"[:200]


def snap_eeprom(t):
    return dict(status="ok",
                id=dict(vendorId=_u32(t.vendorId), productCode=_u32(t.productCode),
                        revisionNo=_u32(t.revisionNo), serialNo=_u32(t.serialNo)),
                cats=[dict(type=_int31(k), data=list(bytes(v))) for k, v in t.eeprom.items()])


def snap_sm(t):
    return dict({f: _int31(getattr(t, f)) for f in SM_FIELDS}, status="ok")


def snap_pdos(t, ret):
    outbits, inbits = ret
    ents = []
    for (idx, sub), (sm, byte, third) in t.pdos.items():
        e = dict(idx=_int31(idx), sub=_int31(sub), sm=sm.name, byte=_int31(byte), bit=-1, fmt="")
        if isinstance(third, str):
            e["fmt"] = third
        else:
            e["bit"] = _int31(third)
        ents.append(e)
    return dict(status="ok", outbits=_int31(outbits), inbits=_int31(inbits), entries=ents)


PDOS_NONE = dict(outbits=-1, inbits=-1, entries=[])


def drive(case, script, raw_addrs, mode="parts", log=False, budget=None):
    """one run of the real code on (image, interface script); returns the run record.
    mode 'parts': Terminal.read_eeprom(), parse_sync_managers(eeprom[41]), parse_pdos() called one
    after the other; mode 'apply': the real call chain EBPFTerminal.initialize() -> apply_eeprom()
    with the same three methods observed through wrappers on the instance."""
    from ebpfcat.ethercat import EtherCat, Terminal
    image = bytes(case["image"])
    if budget is None:
        # event-loop iterations: a correct run needs < 8 per image byte (4-byte reads, 3 busy
        # polls) plus a constant for the SDO uploads and the single reads
        budget = 4000 + 30 * len(image)
        # ... and for every busy poll the script will ask for (one bus round trip each)
        per_cmd = -(-sum(script["busy"]) // len(script["busy"]))
        budget += 8 * (script["init"] + (len(image) // 4 + 60) * per_cmd)
    st = simbus.SimTerminal("T", station=STATION if mode == "parts" else 0)
    st.eeprom = image
    st.sii_8byte = bool(script["cap8"])
    pattern = list(script["busy"])
    nreads = [0]

    def busy():
        nreads[0] += 1
        return pattern[(nreads[0] - 1) % len(pattern)]
    st.sii_busy = busy
    st._sii_busy_left = script["init"]
    if case.get("od") is not None:
        st.mbx_server = coe_server(case["od"], case.get("od_zero"))
    st.log_accesses = log
    bus = simbus.SimBus([st])
    run = dict(eeprom=dict(status="notrun"), sm=dict(SM_NONE, status="notrun"),
               pdos=dict(PDOS_NONE, status="notrun"), raw=[], mode=mode)
    stage = ["eeprom"]
    calls = []      # for the protocol trace: (kind, first access index, last, address, result)

    def observe(t):
        """wrap the three methods on the instance: record what each produced"""
        o_ee, o_sm, o_pd = t.read_eeprom, t.parse_sync_managers, t.parse_pdos

        async def read_eeprom():
            stage[0] = "eeprom"
            try:
                await o_ee()
                run["eeprom"] = snap_eeprom(t)
            except Exception as e:
                run["eeprom"] = dict(status="exception", exc=_exc(e))
                raise
            stage[0] = "between"

        def parse_sync_managers(data):
            try:
                o_sm(data)
                run["sm"] = snap_sm(t)
            except Exception as e:
                run["sm"] = dict(SM_NONE, status="exception", exc=_exc(e))
                raise

        async def parse_pdos():
            stage[0] = "pdos"
            try:
                ret = await o_pd()
                run["pdos"] = snap_pdos(t, ret)
            except Exception as e:
                run["pdos"] = dict(PDOS_NONE, status="exception", exc=_exc(e))
                raise
            stage[0] = "between"
            return ret
        t.read_eeprom, t.parse_sync_managers, t.parse_pdos = \
            read_eeprom, parse_sync_managers, parse_pdos

    async def main():
        ec = EtherCat('x')
        simbus.attach(ec, bus)
        if mode == "parts":
            t = Terminal(ec)
            t.position = STATION
            t.mbx_lock = ec.get_mbx_lock(STATION)
        else:
            from ebpfcat.ebpfcat import EBPFTerminal
            t = EBPFTerminal(ec)
        if log:
            orig = t._eeprom_read_one

            async def traced(start):
                a0 = len(st.accesses)
                r = await orig(start)
                calls.append(("read8", a0, len(st.accesses), int(start), list(r)))
                return r
            t._eeprom_read_one = traced
        observe(t)
        if mode == "parts":
            try:
                await t.read_eeprom()
            except Exception:
                return
            if 41 in t.eeprom:
                try:
                    sm = t.eeprom[41]
                    await t.write(0x800, data=0x80)      # as Terminal.apply_eeprom does
                    await t.write(0x800, data=sm)
                    t.parse_sync_managers(sm)
                except Exception as e:
                    if run["sm"]["status"] == "notrun":
                        run["sm"] = dict(SM_NONE, status="exception", exc=_exc(e))
            else:
                run["sm"] = dict(SM_NONE, status="absent")
            if pdo_due(case):
                try:
                    await t.parse_pdos()
                except Exception:
                    pass
            else:
                run["pdos"] = dict(PDOS_NONE, status="skipped")
        else:
            try:
                await t.initialize(0, STATION)
                run["apply"] = "ok"
            except Exception as e:
                run["apply"] = _exc(e)
        # ---- EtherCat.eeprom_read
        stage[0] = "raw"
        for a in raw_addrs:
            a0 = len(st.accesses)
            try:
                v = await ec.eeprom_read(0, a)
                run["raw"].append(dict(addr=a, status="ok", data=_u32(v)))
                calls.append(("read4", a0, len(st.accesses), a, _u32(v)))
            except Exception as e:
                run["raw"].append(dict(addr=a, status="exception", data=[], exc=_exc(e)))
        stage[0] = "done"

    try:
        simloop.run(main, budget=budget)
    except simloop.StallError as e:
        s = stage[0]
        if s == "raw":
            run["raw"].append(dict(addr=-1, status="stall", data=[], exc=str(e)))
        elif s in ("eeprom", "pdos"):
            run[s] = dict(run[s], status="stall", exc=str(e))
        elif s == "between":
            run["apply"] = "stall: " + str(e)
    run["frames"] = bus.frames
    run["reads"] = nreads[0]
    if log:
        run["calls"] = calls
        run["accesses"] = st.accesses
    return run


# ---------------------------------------------------------------------------------------------

def enumerate_scripts(ctx, wd, short, long, minlongs, maxlongs, patlen, inits, tag="scripts"):
    """all interface scripts within the bound, from TLC (SiiScripts)"""
    from math import comb

    def tset(xs):
        return "{" + ", ".join(str(x) for x in sorted(xs)) + "}"
    T.write_cfg(wd, tag + ".cfg", f"""SPECIFICATION SSpec
CONSTANTS Short = {tset(short)}
          Long = {tset(long)}
          MinLongs = {minlongs}
          MaxLongs = {maxlongs}
          PatLen = {patlen}
          Inits = {tset(inits)}
INVARIANT Emit
CHECK_DEADLOCK FALSE
""")
    res = T.require_clean(T.run(wd, "SiiScripts", tag + ".cfg", workers=1, timeout=300), "SiiScripts")
    ctx.tlc_stats(res)
    scripts = [r[0] for r in T.printed_records(res, "SCRIPT")]
    want = 2 * len(inits) * sum(comb(patlen, j) * len(long) ** j * len(short) ** (patlen - j)
                                for j in range(minlongs, maxlongs + 1))
    if len(scripts) != want:
        raise T.MachineryError(f"SiiScripts: {len(scripts)} scripts, expected {want}")
    scripts.sort(key=lambda s: json.dumps(s, sort_keys=True))
    return scripts


def judge(ctx, wd, cases, chunk=400):
    """TLC evaluates SiiImage on every image and prints a verdict for every run"""
    verdicts = {}
    for start in range(0, len(cases), chunk):
        part = cases[start:start + chunk]
        path = os.path.join(wd, f"cases_{start}.json")
        with open(path, "w") as f:
            json.dump([dict(image=c["image"], source=c["source"], od=c.get("od", {}),
                            runs=[dict(eeprom=r["eeprom"], sm=r["sm"], pdos=r["pdos"], raw=r["raw"])
                                  for r in c["runs"]]) for c in part], f)
        res = T.run(wd, "SiiEval", "SiiEval.cfg", workers=1, timeout=900, deadlock=False,
                    env={"TRACE_FILE": path})
        if res.error or not res.ok:
            raise T.MachineryError(f"SiiEval failed:\n{res.error}\n{res.out[-3000:]}")
        ctx.tlc_stats(res)
        n = 0
        for tid, l, wf, ee, sm, pd, raw in T.printed_records(res, "VERDICT"):
            verdicts[start + tid - 1, l - 1] = dict(wellformed=wf, eeprom=ee, syncm=sm, pdos=pd,
                                                    raw=raw)
            n += 1
        if n != sum(len(c["runs"]) for c in part):
            raise T.MachineryError(f"SiiEval: {n} verdicts for "
                                   f"{sum(len(c['runs']) for c in part)} runs\n{res.out[-2000:]}")
        os.remove(path)
    return verdicts


def build_cases(ctx):
    """gating set from fixed seeds (seed independent) + extra cases from ctx.rng"""
    q = ctx.quick
    plan = []       # (tag, kind, size, count)
    plan += [("plain", "plain", "normal", 30 if q else 300),
             ("eeprom", "eeprom", "normal", 60 if q else 700),
             ("eeprom-small", "eeprom", "small", 20 if q else 200),
             ("eeprom-large", "eeprom", "large", 6 if q else 60),
             ("sdo", "sdo", "normal", 24 if q else 240)]
    cases = []
    for tag, kind, size, count in plan:
        for i in range(count):
            rng = random.Random(f"C17/{tag}/{i}")
            c = gen_case(rng, kind, size)
            c["gen"] = f"{tag}/{i}"
            cases.append(c)
    # category headers with boundary values, systematically: every boundary type x length 0/1/2
    # words x first/middle/last place in the list, in front of / between / behind the sync-manager
    # and PDO categories (body random, all 0x00 or all 0xFF in turn)
    n = 0
    for t in BOUNDARY_TYPES:
        for nw in BOUNDARY_WORDS:
            for where in BOUNDARY_POS:
                rng = random.Random(f"C17/boundary/{t}/{nw}/{where}")
                c = gen_case(rng, "eeprom", "small" if q else rng.choice(["small", "normal"]),
                             inject=(t, nw, where, [None, 0, 255][n % 3]))
                c["gen"] = f"boundary/{t:#x}/{nw}w/{where}"
                c["inject"] = [t, nw, where]
                c["nscripts"] = 2 if q else 4
                cases.append(c)
                n += 1
    # single-byte count / length fields at the edges of a byte, systematically: one PDO of a
    # category with 127 / 128 / 255 (...) entries, alone, before or behind a small PDO, in the
    # RxPDO and in the TxPDO category (EEPROM source), and as a mapping object (SDO source);
    # subindices and padding lengths of these images prefer 0 / 127 / 128 / 255 as well
    n = 0
    for cnt in EDGE_BYTES + ([] if q else [129, 136, 248]):
        for cat in (51, 50):
            for place in ("only", "first", "last"):
                rng = random.Random(f"C17/bytefield/{cnt}/{cat}/{place}")
                big = {"only": [cnt], "first": [cnt, rng.randrange(1, 4)],
                       "last": [rng.randrange(1, 4), cnt]}[place]
                kind = "sdo" if n % 6 == 5 else "eeprom"
                c = gen_case(rng, kind, "small", counts=(big, None) if cat == 51 else (None, big))
                c["gen"] = f"bytefield/{cnt}/{cat}/{place}/{kind}"
                c["bigpdo"] = [cnt, cat, place]
                c["nscripts"] = 2 if q else 4
                cases.append(c)
                n += 1
    # the low byte of the category length (in words) at its edges
    for nw in EDGE_BYTES + [256]:
        rng = random.Random(f"C17/wordlen/{nw}")
        c = gen_case(rng, "eeprom", "small", inject=(rng.choice([30, 60, 0x0800, 0x9000]), nw,
                                                     rng.choice(BOUNDARY_POS), None))
        c["gen"] = f"wordlen/{nw}"
        c["inject"] = [c["cat_types"][0], nw, "?"]
        c["nscripts"] = 2
        cases.append(c)
    nextra = 12 if q else 120
    for i in range(nextra):
        kind = ctx.rng.choice(["plain", "eeprom", "eeprom", "eeprom", "sdo"])
        inj = None
        if ctx.rng.random() < 0.3:
            inj = (ctx.rng.choice(BOUNDARY_TYPES), ctx.rng.choice(BOUNDARY_WORDS),
                   ctx.rng.choice(BOUNDARY_POS), ctx.rng.choice([None, 0, 255]))
        c = gen_case(ctx.rng, kind, ctx.rng.choice(["small", "normal", "normal", "large"]), inject=inj)
        c["gen"] = f"extra/{ctx.seed}/{i}"
        cases.append(c)
    return cases


def raw_addresses(case, rng):
    n = len(case["image"]) // 2
    return [8, 10, 12, 14, rng.randrange(0, n), rng.randrange(0, n), max(0, n - 1), n + 3]


def model_check(ctx, wd):
    """the protocol design: the reference client of Sii.tla against the terminal, exhaustively"""
    maxbusy, imglen, maxaddr = (2, 14, 9) if ctx.quick else (4, 22, 13)
    T.write_cfg(wd, "mc_sii.cfg", f"""SPECIFICATION MCSpec
CONSTANTS MaxBusy = {maxbusy}
          ImageLen = {imglen}
          MaxAddr = {maxaddr}
INVARIANTS ReadCorrect
           NeverRejected
           STypeOK
PROPERTY Terminates
CHECK_DEADLOCK TRUE
""")
    res = T.require_clean(T.run(wd, "MC_Sii", "mc_sii.cfg", workers=4, timeout=600, coverage=True),
                          "MC_Sii")
    if not res.ok:
        raise T.MachineryError("Sii.tla violates its own requirements:\n" + res.counterexample())
    ctx.tlc_stats(res)
    ctx.extra["mc_sii"] = dict(distinct=res.distinct, generated=res.generated, MaxBusy=maxbusy,
                               ImageLen=imglen, MaxAddr=maxaddr)


def protocol_events(run):
    """register accesses of the recorded reads -> events of SiiTrace"""
    ev = []
    acc = run["accesses"]
    for kind, a0, a1, addr, result in run["calls"]:
        ev.append(dict(k="call", a=addr, n=8 if kind == "read8" else 4))
        for rw, off, data in acc[a0:a1]:
            if rw == "r" and off == 0x502 and len(data) >= 2:
                ev.append(dict(k="rd", status=data[0] | data[1] << 8, data=list(data[6:14])))
            elif rw == "w" and off == 0x502 and len(data) == 6:
                ctl, a = struct.unpack("<HI", data)
                ev.append(dict(k="wr", ctl=ctl, addr=a if a < 2 ** 31 else -1))
            else:
                ev.append(dict(k="other", rw=rw, off=off, n=len(data)))
        ev.append(dict(k="ret", data=result))
    return ev


def validate_protocol(ctx, wd, cases, scripts):
    """every interface script once, on a small image, with the register accesses recorded;
    TLC validates them against the terminal actions of Sii.tla (SiiTrace)"""
    small = [c for c in cases if c["gen"].startswith("eeprom-small/")]
    traces, meta = [], []
    for k, s in enumerate(scripts):
        c = small[k % len(small)]
        rr = random.Random(f"C17/proto/{k}")
        r = drive(c, s, raw_addresses(c, rr), log=True)
        ev = protocol_events(r)
        traces.append(dict(image=c["image"], ev=ev))
        meta.append((c, s, r))
    results = T.validate_traces(ctx, wd, "SiiTrace", "SiiTrace.cfg", traces, chunk=500)
    nev = 0
    for (c, s, r), t, (matched, length, inv) in zip(meta, traces, results):
        ctx.traces += 1
        nev += length
        ctx.evaluated(("proto", c["gen"], json.dumps(s, sort_keys=True)),
                      nontrivial=not s["cap8"] or max(s["busy"]) > 0 or s["init"] > 0)
        if matched != length or isinstance(inv, str):
            bad = t["ev"][matched] if matched < length else None
            ctx.case_failed(dict(what="protocol", gen=c["gen"], image=c["image"], script=s,
                                 kind=c["kind"], source=c["source"], od=c.get("od"),
                                 modes=c["modes"], rejected_at=matched, rejected_event=bad,
                                 failed=["protocol"], before=t["ev"][max(0, matched - 6):matched]),
                            f"register trace rejected by Sii at event {matched}: {bad} "
                            f"(image {c['gen']}, script {s})" if bad else f"invariant violated: {inv}")
    ctx.extra["protocol_traces"] = dict(n=len(traces), events=nev)


def run(ctx):
    wd = ctx.workdir()
    q = ctx.quick
    tm = ctx.extra["phase_wall_s"] = {}
    t0 = time.time()

    def lap(name):
        nonlocal t0
        tm[name] = round(time.time() - t0, 1)
        t0 = time.time()
    # 1. the protocol design: exhaustive model check of Sii (reference client against the ESC)
    model_check(ctx, wd)
    lap('mc_sii')
    # 2. interface scripts from TLC
    maxbusy, patlen, maxinit = (2, 2, 1) if q else (3, 3, 2)
    scripts = enumerate_scripts(ctx, wd, range(maxbusy + 1), [], 0, 0, patlen, range(maxinit + 1))
    # "however long it reports busy": long waits (around and far beyond any poll limit a master
    # might have) after one read command of a pattern of 5 - at every position, so that they hit
    # first and second commands of 4-byte reads alike - and before the first command (init)
    long_d = LONG_BUSY if q else LONG_BUSY + [1000]
    long_i = [0, 150] if q else [0, 150, 1000]
    long_scripts = enumerate_scripts(ctx, wd, [0], long_d, 1, 1, 5, long_i, tag="longscripts")
    lap('scripts')
    ctx.extra["scripts"] = dict(n=len(scripts), MaxBusy=maxbusy, PatLen=patlen, MaxInit=maxinit,
                                long=dict(n=len(long_scripts), durations=long_d, inits=long_i, PatLen=5))
    # 3. images x scripts on the real code
    cases = build_cases(ctx)
    per_image = 6 if q else 8
    by_width = {w: [s for s in scripts if s["cap8"] == w] for w in (True, False)}
    k = 0
    for ci, c in enumerate(cases):
        rr = random.Random(f"C17/raw/{c['gen']}")
        c["runs"] = []
        c["scripts"] = []
        for j in range(c.get("nscripts", per_image)):
            if "nscripts" in c:     # few scripts per image: alternate 8- and 4-byte interfaces
                pool = by_width[j % 2 == 0]
                s = pool[(k // 2) % len(pool)]
            else:
                s = scripts[k % len(scripts)]
            k += 1
            c["scripts"].append(s)
            # two of three runs call the three methods directly, the third goes through the real
            # call chain EBPFTerminal.initialize -> apply_eeprom
            c["runs"].append(drive(c, s, raw_addresses(c, rr), mode="apply" if j % 3 == 2 else "parts"))
    # every long-busy script on a small image (sync-manager and PDO categories included), 8- and
    # 4-byte interfaces, directly and through apply_eeprom in turn
    small = [c for c in cases if c["gen"].startswith("eeprom-small/")]
    for k, s in enumerate(long_scripts):
        c = small[k % len(small)]
        rr = random.Random(f"C17/rawlong/{c['gen']}/{k}")
        c["scripts"].append(s)
        c["runs"].append(drive(c, s, raw_addresses(c, rr), mode="apply" if k % 3 == 2 else "parts"))
    lap('drive')
    # 4. register-level traces of a subset validated against the protocol
    validate_protocol(ctx, wd, cases, scripts + long_scripts[::5 if q else 2])
    lap('protocol_traces')
    # 5. TLC judges
    verdicts = judge(ctx, wd, cases)
    lap('judge')
    ctx.rule = ("one evaluation = one (image, interface script) run of the real read_eeprom / "
                "parse_sync_managers / parse_pdos / EtherCat.eeprom_read judged by TLC against SiiImage; "
                "non-trivial = the image has at least 2 categories and the script has a busy "
                "duration > 0 or 4-byte reads; images: fixed-seed generators (gating) + ctx.rng extras")
    ctx.exhaustive = False
    ctx.extra["images"] = len(cases)
    ctx.extra["runs_per_image"] = per_image
    kinds = {}
    for ci, c in enumerate(cases):
        kinds[c["kind"]] = kinds.get(c["kind"], 0) + 1
        for ri, (s, r) in enumerate(zip(c["scripts"], c["runs"])):
            v = verdicts[ci, ri]
            if not v["wellformed"]:
                raise T.MachineryError(f"generator produced an image the specification calls "
                                       f"ill-formed: {c['gen']}")
            ctx.traces += 1
            ctx.evaluated((c["gen"], json.dumps(s, sort_keys=True)),
                          nontrivial=c["ncat"] >= 2 and (not s["cap8"] or max(s["busy"]) > 0))
            bad = [k2 for k2 in ("eeprom", "syncm", "pdos", "raw") if not v[k2]]
            if bad:
                ctx.case_failed(
                    dict(gen=c["gen"], kind=c["kind"], source=c["source"], image=c["image"],
                         od=c.get("od"), od_zero=c.get("od_zero"), modes=c["modes"], script=s,
                         failed=bad, mode=r["mode"], apply=r.get("apply"),
                         image_len=len(c["image"]), ncat=c["ncat"], cat_types=c["cat_types"],
                         cat_words=c["cat_words"], inject=c.get("inject"), bigpdo=c.get("bigpdo"),
                         eeprom_status=r["eeprom"]["status"], sm_status=r["sm"]["status"],
                         pdos_status=r["pdos"]["status"],
                         exc=[r[p].get("exc") for p in ("eeprom", "sm", "pdos") if r[p].get("exc")],
                         run=dict(eeprom=r["eeprom"], sm=r["sm"], pdos=r["pdos"], raw=r["raw"])),
                    f"TLC rejects {'/'.join(bad)} decoded from image {c['gen']} "
                    f"({len(c['image'])} bytes, {c['ncat']} categories) with script {s}; "
                    "the calls themselves ended: "
                    + ", ".join(f"{p} {r[p].get('exc') or 'returned normally' if r[p]['status'] == 'ok' else r[p].get('exc') or r[p]['status']}"
                                for p in ("eeprom", "sm", "pdos")))
    ctx.extra["image_kinds"] = kinds
    c = next(c for c in cases if c["kind"] == "eeprom" and c["ncat"] >= 3)
    ctx.sample(dict(gen=c["gen"], image_len=len(c["image"]), script=c["scripts"][1],
                    sm=c["runs"][1]["sm"], pdos=c["runs"][1]["pdos"],
                    cats=[(x["type"], len(x["data"])) for x in c["runs"][1]["eeprom"].get("cats", [])]))
    c = next(c for c in cases if c["kind"] == "sdo")
    ctx.sample(dict(gen=c["gen"], image_len=len(c["image"]), script=c["scripts"][0], od=c["od"],
                    pdos=c["runs"][0]["pdos"]))
    ctx.assumptions += [
        "harness/simbus.py's SII register model is the terminal (its register accesses on a subset "
        "of runs are validated by TLC against the ESC actions of Sii.tla)",
        "EEPROM cells outside the image read 0xFF",
        "SDO source: the terminal's CoE server answers expedited uploads of 0x1C12/0x1C13 and the "
        "mapping objects (checks/c17.py coe_server)",
    ]


def replay(ctx, case):
    c = dict(case)
    rr = random.Random(f"C17/raw/{c['gen']}")
    addrs = [x["addr"] for x in c.get("run", {}).get("raw", []) if x.get("addr", -1) >= 0]
    r = drive(c, c["script"], addrs or raw_addresses(c, rr), mode=c.get("mode", "parts"))
    print(json.dumps(dict(eeprom=r["eeprom"], sm=r["sm"], pdos=r["pdos"], raw=r["raw"]))[:4000])
