"""C20 - a terminal's FMMUs are never shared by two live mappings.

Spec: spec/Fmmu.tla (+ MC_Fmmu exhaustive, FmmuScripts environment enumeration, FmmuTrace).
Binding: every operation script enumerated by TLC is replayed on the real Terminal.map_fmmu
async context managers for n = 1..4 FMMUs; the recorded run (slot yielded, register writes seen
by the bus stub, fmmu_used after each step) is validated by TLC as a behaviour of Fmmu."""
import asyncio
import time

from harness import tlc as T

PROPERTY = "C20"
LEVEL = "model_checking"


class StubEC:
    """records register accesses of one terminal; no bus semantics needed for this property.  dead: the terminal
    does not answer any more (every access ends in the EtherCatError a lost datagram gives)"""
    def __init__(self):
        self.log = []
        self.dead = False

    async def roundtrip(self, cmd, pos, offset, *args, data=None, idx=0):
        await asyncio.sleep(0)
        if self.dead:
            from ebpfcat.ethercat import EtherCatError
            raise EtherCatError("datagram was not processed")
        self.log.append((cmd.name, offset, args, data))
        return ()


class Boom(Exception):
    pass


IDENT = [1, 2, 3, 4, 5, 6]
# addresses per mapping identity (spec address = real logical address + 1): all different; two mappings at one
# address (outputs and inputs of a logical read-write: map_fmmu does not forbid it); all at one address
ADDR_MAPS = [IDENT, [1, 1, 2, 4, 5, 6], [2, 1, 1, 4, 5, 6], [1, 1, 1, 4, 5, 6]]


async def replay(script, n, addr=IDENT):
    from ebpfcat.ethercat import Terminal
    ec = StubEC()
    t = Terminal(ec)
    t.position = 7
    t.fmmu_used = [None] * n
    t.pdo_out_off, t.pdo_out_sz, t.pdo_in_off, t.pdo_in_sz = 0x1100, 4, 0x1180, 6
    cms = {}
    ev = []

    # a mapping is identified in the spec by m >= 1 (0 = free); the REAL logical address is m - 1, so that the
    # logical address 0 - a legitimate argument of map_fmmu - is among those used (a seeded change that took a slot
    # mapped to address 0 for free had gone unnoticed while the harness used the addresses 1, 2, 3)
    def tbl():
        return [0 if x is None else x + 1 for x in t.fmmu_used]

    for op in script:
        m = op["m"]
        mark = len(ec.log)
        if op["op"] == "map":
            cm = t.map_fmmu(addr[m - 1] - 1, op["write"])
            try:
                slot = await cm.__aenter__()
            except Exception as e:
                ev.append(dict(op="map", m=m, write=op["write"], res="fail", exc=type(e).__name__,
                               tbl=tbl()))
                continue
            cms[m] = cm
            e = dict(op="map", m=m, write=op["write"], res="ok", slot=slot, tbl=tbl())
            w = [x for x in ec.log[mark:] if x[0] == "FPWR" and 0x600 <= x[1] < 0x700]
            if len(w) == 1 and (w[0][1] - 0x600) % 0x10 == 0 and len(w[0][2]) == 9:
                a = w[0][2]
                e["reg"] = dict(idx=(w[0][1] - 0x600) // 0x10, logical=a[1] + 1, dir=a[7], act=a[8],
                                size=a[2], off=a[5])
            else:
                e["reg"] = dict(idx=-1, logical=0, dir=0, act=0, size=0, off=0, raw=repr(w))
            ev.append(e)
        elif m in cms:
            cm = cms.pop(m)
            if op["op"] == "unmap":
                await cm.__aexit__(None, None, None)
                w = [x for x in ec.log[mark:] if x[0] == "FPWR" and 0x600 <= x[1] < 0x700]
                deact = -1
                if len(w) == 1 and (w[0][1] - 0x60c) % 0x10 == 0 and w[0][2][-1] == 0:
                    deact = (w[0][1] - 0x60c) // 0x10
                ev.append(dict(op="unmap", m=m, deact=deact, tbl=tbl()))
            else:
                # abort: an exception thrown into the body; unmapfail / abortfail: the mapping ends (normally / by an
                # exception) while the terminal does not answer - whatever becomes of the switch-off datagram, the
                # master's table must give the FMMU back (Fmmu: UnmapAbort; the registers are not judged)
                ec.dead = op["op"].endswith("fail")
                try:
                    if op["op"] == "unmapfail":
                        await cm.__aexit__(None, None, None)
                    else:
                        await cm.__aexit__(Boom, Boom(), None)
                except Exception:                      # noqa: Boom or the bus error
                    pass
                ec.dead = False
                ev.append(dict(op="abort", m=m, tbl=tbl(), how=op["op"]))
    return dict(n=n, ev=ev, script=script, addr=addr)


async def replay_concurrent(pre, batch, order, n):
    """pre: [(m, write)] mapped one after the other; batch: [(m, write)] whose map_fmmu context managers are ENTERED
    CONCURRENTLY (one task each; the bus stub suspends at every register access, as a real round trip does); then
    everything is unmapped in the given order.  Events are recorded when an entry completes; while other entries of
    the batch are still in flight the observed table may already hold their reservations (event marked loose)."""
    from ebpfcat.ethercat import Terminal
    ec = StubEC()
    t = Terminal(ec)
    t.position = 7
    t.fmmu_used = [None] * n
    t.pdo_out_off, t.pdo_out_sz, t.pdo_in_off, t.pdo_in_sz = 0x1100, 4, 0x1180, 6
    cms, ev = {}, []

    def tbl():
        return [0 if x is None else x + 1 for x in t.fmmu_used]

    def reg_of(writes):
        w = [x for x in writes if x[0] == "FPWR" and 0x600 <= x[1] < 0x700]
        if len(w) == 1 and (w[0][1] - 0x600) % 0x10 == 0 and len(w[0][2]) == 9:
            a = w[0][2]
            return dict(idx=(w[0][1] - 0x600) // 0x10, logical=a[1] + 1, dir=a[7], act=a[8], size=a[2], off=a[5])
        return dict(idx=-1, logical=0, dir=0, act=0, size=0, off=0, raw=repr(w))

    async def enter(m, write, pending):
        cm = t.map_fmmu(m - 1, write)

        try:
            slot = await cm.__aenter__()
        except Exception as e:
            pending.discard(m)
            ev.append(dict(op="map", m=m, write=write, res="fail", exc=type(e).__name__, tbl=tbl(), loose=bool(pending)))
            return
        cms[m] = cm
        pending.discard(m)
        # the register write of THIS mapping: the one whose logical address is m
        w = [x for x in ec.log if x[0] == "FPWR" and 0x600 <= x[1] < 0x700 and len(x[2]) == 9 and x[2][1] == m - 1]
        ev.append(dict(op="map", m=m, write=write, res="ok", slot=slot, tbl=tbl(), reg=reg_of(w[-1:]),
                       loose=bool(pending)))

    for m, write in pre:
        await enter(m, write, set())
    pending = {m for m, _ in batch}
    await asyncio.gather(*[enter(m, w, pending) for m, w in batch])
    for m in order:
        if m in cms:
            cm = cms.pop(m)
            mark = len(ec.log)
            await cm.__aexit__(None, None, None)
            w = [x for x in ec.log[mark:] if x[0] == "FPWR" and 0x600 <= x[1] < 0x700]
            deact = -1
            if len(w) == 1 and (w[0][1] - 0x60c) % 0x10 == 0 and w[0][2][-1] == 0:
                deact = (w[0][1] - 0x60c) // 0x10
            ev.append(dict(op="unmap", m=m, deact=deact, tbl=tbl()))
    return dict(n=n, ev=ev, script=dict(pre=pre, batch=batch, order=order, concurrent=True), addr=IDENT)


def concurrent_scripts():
    import itertools
    out = []
    for pre in ([], [(3, True)], [(3, False)]):
        for k in (2, 3):
            for flags in itertools.product((True, False), repeat=k):
                batch = [(i + 1, f) for i, f in enumerate(flags)] if k == 2 else [(1, flags[0]), (2, flags[1]), (4, flags[2])]
                ms = [m for m, _ in pre + batch]
                for order in (ms, ms[::-1]):
                    out.append((pre, batch, order))
    return out


def run(ctx):
    logicals = [1, 2, 3]
    maxlen = 4 if ctx.quick else 5
    wd = ctx.workdir()
    # 1. the design: exhaustive model check of Fmmu
    T.write_cfg(wd, "mc.cfg", f"""SPECIFICATION FSpec
CONSTANTS MaxN = 4
          Logicals = {{{", ".join(str(i) for i in range(1, 5 if ctx.quick else 6))}}}
INVARIANTS NoSharing
           RegsAgree
           TypeOK
CHECK_DEADLOCK FALSE
""")
    res = T.require_clean(T.run(wd, "MC_Fmmu", "mc.cfg", timeout=600, coverage=True), "MC_Fmmu")
    if not res.ok:
        raise T.MachineryError("Fmmu.tla violates its own invariants:\n" + res.counterexample())
    ctx.tlc_stats(res)
    ctx.extra["mc_fmmu"] = dict(distinct=res.distinct, generated=res.generated, MaxN=4)
    # 1b. the same with mappings told apart from their addresses (two live mappings may carry one address); with
    #     distinct addresses FmmuAddr steps are Fmmu steps
    k = 2 if ctx.quick else 3
    T.write_cfg(wd, "mca.cfg", f"""SPECIFICATION ASpec
CONSTANTS MaxN = {k}
          Ids = {{1, 2, 3}}
          Addrs = {{1, 2, 3}}
INVARIANTS NoSharing
           RegsAgree
           CountAgree
           TypeOK
PROPERTY RefinesFmmu
CHECK_DEADLOCK FALSE
""")
    res = T.require_clean(T.run(wd, "MC_FmmuAddr", "mca.cfg", timeout=900, coverage=True), "MC_FmmuAddr")
    if not res.ok:
        raise T.MachineryError("FmmuAddr.tla violates its own invariants:\n" + res.counterexample())
    ctx.tlc_stats(res)
    ctx.extra["mc_fmmu_addr"] = dict(distinct=res.distinct, generated=res.generated, MaxN=k)
    # 2. environment scripts from TLC
    scripts = []
    # mappings ending normally or by an exception; and (one step shorter) ending while the terminal is silent
    for kinds, ml in (('"unmap", "abort"', maxlen), ('"unmap", "unmapfail", "abortfail"', maxlen - 1)):
        T.write_cfg(wd, "scripts.cfg", f"""SPECIFICATION SSpec
CONSTANTS Logicals = {{{", ".join(map(str, logicals))}}}
          MaxLen = {ml}
          EndKinds = {{{kinds}}}
INVARIANT Emit
CHECK_DEADLOCK FALSE
""")
        res = T.require_clean(T.run(wd, "FmmuScripts", "scripts.cfg", workers=1, timeout=600), "FmmuScripts")
        ctx.tlc_stats(res)
        found = [r[0] for r in T.printed_records(res, "SCRIPT")]
        if not found:
            raise T.MachineryError("no scripts enumerated")
        scripts += [sc for sc in found if sc not in scripts]
    # shorter scripts are prefixes of these; all prefixes are validated on the way
    # 3. replay on the real code, 4. validate the recorded runs
    traces = []
    loop = asyncio.new_event_loop()
    for s in scripts:
        for n in (1, 2, 3, 4):
            for addr in (ADDR_MAPS[:2] + ADDR_MAPS[3:] if ctx.quick else ADDR_MAPS):
                traces.append(loop.run_until_complete(replay(s, n, addr)))
    # mappings of one terminal set up concurrently (two sync groups sharing a terminal started together): added
    # after a seeded change - the FMMU marked used only after the awaited register write - passed the sequential scripts
    nconc = 0
    for pre, batch, order in concurrent_scripts():
        for n in (1, 2, 3, 4):
            traces.append(loop.run_until_complete(replay_concurrent(pre, batch, order, n)))
            nconc += 1
    ctx.extra["concurrent_traces"] = nconc
    loop.close()
    t0 = time.time()
    results = T.validate_traces(ctx, wd, "FmmuAddrTrace", "FmmuAddrTrace.cfg",
                                [dict(n=t["n"], ev=t["ev"], addr=t["addr"]) for t in traces], chunk=4000)
    ctx.extra["seconds_trace_validation"] = round(time.time() - t0, 1)
    ctx.exhaustive = True
    ctx.rule = (f"all map/unmap/abort scripts of length {maxlen} over {len(logicals)} mappings "
                f"(TLC-enumerated) x n=1..4 FMMUs x {len(ADDR_MAPS)} assignments of addresses to mappings (distinct, two at one address, "
                f"all at one address); non-trivial = at least two mappings live at once")
    ctx.extra["script_len"] = maxlen
    for t, (matched, length, inv) in zip(traces, results):
        ctx.traces += 1
        livemax, live = 0, 0
        for e in t["ev"]:
            if e["op"] == "map" and e.get("res") == "ok":
                live += 1
            elif e["op"] in ("unmap", "abort"):
                live -= 1
            livemax = max(livemax, live)
        ctx.evaluated((t["n"], repr(t["script"]), tuple(t["addr"])), nontrivial=livemax >= 2)
        if len(ctx.samples) < 3 and livemax >= 2:
            ctx.sample(dict(n=t["n"], ev=t["ev"]))
        if matched != length or isinstance(inv, str):
            bad = t["ev"][matched] if matched < length else None
            ctx.case_failed(dict(n=t["n"], script=t["script"], addr=t["addr"], ev=t["ev"], rejected_at=matched,
                                 rejected_event=bad),
                            f"trace rejected by Fmmu at event {matched}: {bad}" if bad else
                            f"invariant violated: {inv}")


def replay_case(case):
    loop = asyncio.new_event_loop()
    t = loop.run_until_complete(replay(case["script"], case["n"], case.get("addr", IDENT)))
    loop.close()
    return t
