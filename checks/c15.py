"""C15 - mailbox exchanges with a terminal are serialised and counted.

Spec: spec/Mailbox.tla (users, holder, counter, wire history; MC_Mailbox exhaustive for 2-3
users), spec/LockFile.tla (the lock file refinement for several processes: Create(O_EXCL),
WriteInit, OpenExisting, TryLockf, ReadByte, Next, WriteByte, Unlockf; MC_LockFile exhaustive).

Binding
 * in-process (trace validation): 2-3 asyncio tasks run the real sdo_read / expedited sdo_write /
   coe_request on one real Terminal (real MailboxLock from EtherCat.get_mbx_lock) against the
   simulated terminal of C16 (harness/coeserver) with varied start orders and response delays;
   the mails seen by the simulated terminal (sender, counter) and the mailbox reads (reader)
   are the trace, validated by TLC against Mailbox (MailboxTrace).
 * cross-process (replay + trace validation): TLC enumerates schedules of the LockFile actions
   of two participants, including the window between creating and initialising the file; each
   is replayed on the real LockFile / ParallelMailboxLock in two worker processes that execute
   one system call at a time (harness/lockworker); outcomes, file bytes and counters are
   validated by TLC against LockFile (LockFileTrace)."""
import asyncio
import itertools
import logging
import os
import shutil
import struct

from harness import coeserver, simbus, simloop
from harness import tlc as T

PROPERTY = "C15"
LEVEL = "model_checking"

MBX = 32
SLOTS = {"plain": {}, "d1": {"delay": 1}, "d3": {"delay": 3}, "abort": {"abort": True}}
LOCKDIR = os.path.join(T.WORK, f"c15lf-{os.getpid()}")


def user_od(i):
    idx = 0x2000 + i
    return {(idx, False, 1): bytes([i, 0x11]), (idx, False, 2): bytes(range(10)),
            (idx, False, 3): bytes(range(60)), (idx, True, 1): bytes(range(30))}


def sdoinfo(server, m):
    """SDO information service: OD list (two fragments) and object description"""
    body = bytes(m["body"])
    opcode = m["cmd"] & 0x7f

    def rsp(op, frags, payload):
        return struct.pack("<HBxH", 8 << 12, op, frags) + payload
    if opcode == 1:
        idx = sorted({k[0] for k in server.od})
        first = struct.pack("<H", 1) + b"".join(struct.pack("<H", i) for i in idx[:1])
        rest = b"".join(struct.pack("<H", i) for i in idx[1:])
        return [rsp(2 | 0x80, 1, first), rsp(2, 0, rest)]
    if opcode == 3:
        index, = struct.unpack_from("<H", body, 3)
        return [rsp(4, 0, struct.pack("<HHBB", index, 7, 3, 9) + b"obj")]
    return [rsp(7, 0, struct.pack("<I", 0x06020000))]


async def do_op(t, i, kind):
    from ebpfcat.ethercat import CoECmd, ODCmd
    idx = 0x2000 + i
    if kind == "rd_exp":
        return await t.sdo_read(idx, 1)
    if kind == "rd_norm":
        return await t.sdo_read(idx, 2)
    if kind == "rd_seg":
        return await t.sdo_read(idx, 3)
    if kind == "rd_ca":
        return await t.sdo_read(idx, None)
    if kind == "wr_exp":
        return await t.sdo_write(bytes([i, 0x22]), idx, 1)
    if kind == "rd_missing":            # no such object: the terminal aborts, sdo_read raises
        return await t.sdo_read(0x2F00 + i, 1)
    if kind == "wr_missing":
        return await t.sdo_write(bytes([i, 0x33]), 0x2F00 + i, 1)
    if kind == "coe_list":
        return await t.coe_request(CoECmd.SDOINFO, ODCmd.LIST_REQ, "H", 1)
    if kind == "coe_od":
        return await t.coe_request(CoECmd.SDOINFO, ODCmd.OD_REQ, "H", idx)
    raise ValueError(kind)


def run_scenario(sc):
    """sc: dict(users=[dict(name, ops=[kind...], start=n_yields)], script=[slot kind...],
               lock="task" | "file-seq" | "file-tasks").
    lock = "task": the users are tasks sharing one Terminal with the real MailboxLock.
    lock = "file-seq": every user is a participant with its own Terminal, LockFile and
        ParallelMailboxLock (from ParallelEtherCat.get_mbx_lock) on one shared lock file; the
        participants take turns operation by operation (locks of one process do not exclude each
        other, so they never overlap): the counter travels through the file only.
    lock = "file-tasks": tasks of one process sharing one Terminal whose lock is the
        ParallelMailboxLock.
    Returns the trace dict(ev=[...]) for MailboxTrace plus diagnostics."""
    from ebpfcat.ethercat import ECCmd, EtherCat, Terminal
    term = simbus.SimTerminal(station=1001)
    struct.pack_into("<HHBxxx", term.mem, 0x800, 0x1000, MBX, 0x26)
    struct.pack_into("<HHBxxx", term.mem, 0x808, 0x1400, MBX, 0x22)
    od = {}
    for i in range(1, len(sc["users"]) + 1):
        od.update(user_od(i))
    srv = coeserver.SdoServer(term, od, [SLOTS[k] for k in sc["script"]], sdoinfo=sdoinfo)
    term.mbx_server = srv
    ev = []
    writes, reads = [], []        # (task name, bytes) of mailbox writes / task names of mailbox reads
    outcomes = {}
    cur = {}                      # user -> its operation in progress (op number, begin step, sent?)
    waits = []                    # (user, op number, loop iterations from begin to its first datagram)
    cancelled = []

    def on_mail(m, raw):
        who = "?"
        for k, (name, data) in enumerate(writes):
            if data == raw:
                who = name
                del writes[:k + 1]
                break
        ev.append(dict(ev="send", u=who, cnt=m["cnt"], mt=m["mt"], svc=m["svc"], cmd=m["cmd"]))
    srv.on_mail = on_mail

    def mbx_read(off, n):
        # the master reads the whole terminal -> master mailbox: the mail in it is consumed
        cur = term._mbx_in_current
        if off == 0x1400 and cur is not None and reads:
            m = coeserver.parse_mail(cur)
            more = m["mt"] == 3 and m["svc"] == 8 and len(m["body"]) >= 3 and \
                struct.unpack_from("<H", bytes(m["body"]), 1)[0] > 0
            final = m["mt"] == 3 and m["svc"] != 1 and not more
            ev.append(dict(ev="recv", u=reads.pop(0), final=final, cnt=m["cnt"]))
        return None
    term.add_handler(0x1400, 0x1400 + MBX, mbx_read, None)

    async def main():
        ec = EtherCat("x")
        simbus.attach(ec, simbus.SimBus([term]))
        put = ec.send_queue.put_nowait

        def tagged(item):
            cmd, out, _, _, offset = item[:5]
            task = asyncio.current_task()
            name = task.get_name() if task else "?"
            st = cur.get(name)
            if st and not st["acquired"]:        # first datagram of the operation: it has the lock
                st["acquired"] = True
                waits.append((name, st["op"], asyncio.get_event_loop().steps - st["begin"]))
            if cmd is ECCmd.FPWR and offset == 0x1000:
                writes.append((name, bytes(out)))
            elif cmd is ECCmd.FPRD and offset == 0x1400:
                reads.append(name)
            return put(item)
        ec.send_queue.put_nowait = tagged
        mode = sc.get("lock", "task")
        lockfiles = []

        def terminal():
            t = Terminal(ec)
            t.position = term.station
            if mode == "task":
                t.mbx_lock = ec.get_mbx_lock(term.station)       # the real MailboxLock
            else:
                from types import SimpleNamespace
                from ebpfcat.ebpfcat import ParallelEtherCat
                from ebpfcat.lock import LockFile
                lf = LockFile(lockpath, 1000, 1004)
                lockfiles.append(lf)
                t.mbx_lock = ParallelEtherCat.get_mbx_lock(SimpleNamespace(mbx_lock_file=lf),
                                                           term.station)
            t.parse_sync_managers(bytes(term.mem[0x800:0x810]))
            return t
        t = terminal()
        terms = [t] + [terminal() for _ in sc["users"][1:]] if mode == "file-seq" else None

        async def one(tt, i, u, kind, k=0):
            """one operation of a user, run as a task of its own (named after the user) so that
            it can be cancelled; sc["cancel"] = dict(u, op, at): cancel operation number `op` of
            user `u` `at` event-loop iterations after it began - but only while it is still
            WAITING for the mailbox lock (it has not queued a single datagram yet; the first thing
            a new holder does is the mailbox status read of mbx_send)"""
            loop = asyncio.get_running_loop()
            ev.append(dict(ev="begin", u=u["name"], kind=kind))
            sub = asyncio.ensure_future(do_op(tt, i, kind))
            sub.set_name(u["name"])
            st = cur[u["name"]] = dict(op=k, begin=loop.steps, acquired=False)
            c = sc.get("cancel")
            if c and c["u"] == u["name"] and c["op"] == k:
                def tick():
                    if sub.done() or st["acquired"]:
                        return
                    if loop.steps - st["begin"] >= c["at"]:
                        cancelled.append(dict(u=u["name"], op=k, step=loop.steps - st["begin"]))
                        sub.cancel()
                    else:
                        loop.call_soon(tick)
                loop.call_soon(tick)
            try:
                await sub
                res = "ok"
            except asyncio.CancelledError:
                if not sub.cancelled():
                    raise
                res = "cancelled"
            except Exception as e:
                res = f"{type(e).__name__}: {e}"[:80]
            cur.pop(u["name"], None)
            ev.append(dict(ev="end", u=u["name"], res=res))
            outcomes.setdefault(u["name"], []).append(res)

        async def user(i, u):
            for _ in range(u["start"]):
                await asyncio.sleep(0)
            for k, kind in enumerate(u["ops"]):
                await one(t, i, u, kind, k)

        async def turn(tt, i, u, kind):
            await one(tt, i, u, kind)
        try:
            if mode == "file-seq":
                # round robin, one operation per turn, each turn a task named after its user
                for k in range(max(len(u["ops"]) for u in sc["users"])):
                    for i, u in enumerate(sc["users"], start=1):
                        if k < len(u["ops"]):
                            task = asyncio.ensure_future(turn(terms[i - 1], i, u, u["ops"][k]))
                            task.set_name(u["name"])
                            await task
            else:
                tasks = [asyncio.ensure_future(user(i, u)) for i, u in enumerate(sc["users"], start=1)]
                for task, u in zip(tasks, sc["users"]):
                    task.set_name(u["name"])
                await asyncio.gather(*tasks)
        finally:
            for lf in lockfiles:
                lf.close()

    os.makedirs(LOCKDIR, exist_ok=True)
    lockpath = os.path.join(LOCKDIR, "mbx")
    if os.path.exists(lockpath):
        os.remove(lockpath)
    logging.disable(logging.CRITICAL)
    stall = None
    try:
        simloop.run(main, budget=100000)
    except simloop.StallError as e:
        stall = str(e)
        ev.append(dict(ev="stall", u="?", what=stall))
    finally:
        logging.disable(logging.NOTSET)
    return dict(ev=ev, outcomes=outcomes, stall=stall, waits=waits, cancelled=cancelled)


# ---- in-process scenarios ---------------------------------------------------------------
OPLISTS = [["rd_exp"], ["rd_seg"], ["wr_exp", "rd_norm"], ["coe_list"], ["coe_od", "wr_exp"],
           ["rd_ca", "rd_exp"], ["rd_seg", "rd_seg", "wr_exp"],
           ["rd_missing", "rd_exp"], ["wr_exp", "wr_missing", "rd_norm"]]    # raise after the mail
SCRIPTS = [["plain"], ["d1", "d3", "plain"], ["d3", "plain", "d1", "d1"], ["plain", "abort", "d1"]]
# participants on the lock file: enough messages for the 7 -> 1 wrap, failures in between
FILE_OPLISTS = [["rd_exp", "rd_missing", "rd_exp", "rd_exp"], ["wr_exp", "wr_missing", "rd_norm"],
                ["rd_seg", "rd_exp"], ["coe_od", "rd_missing", "coe_list"], ["rd_exp"] * 5,
                ["rd_missing"] * 3, ["rd_ca", "wr_exp", "rd_seg"]]
FILE_SCRIPTS = [["plain"], ["plain", "plain", "abort"], ["abort", "d1", "plain", "plain", "abort"]]


def scenarios(ctx):
    out = []
    names = ["t1", "t2", "t3"]
    starts2 = [(0, 0), (0, 1), (3, 0), (0, 6)]
    for a, b in itertools.product(OPLISTS, OPLISTS):
        for k, st in enumerate(starts2):
            for j, sc in enumerate(SCRIPTS):
                if ctx.quick and (k + j) % 2:
                    continue
                if j == 3 and k % 2:
                    continue
                out.append(dict(users=[dict(name="t1", ops=a, start=st[0]),
                                       dict(name="t2", ops=b, start=st[1])], script=sc * 8))
    l3 = OPLISTS[:4] if ctx.quick else OPLISTS
    for n, (a, b, c) in enumerate(itertools.product(l3, l3, l3)):
        for st in ([(0, 0, 0), (2, 0, 1)] if ctx.quick else [(0, 0, 0), (2, 0, 1), (0, 4, 2), (1, 1, 0)]):
            out.append(dict(users=[dict(name=nm, ops=o, start=s) for nm, o, s in zip(names, (a, b, c), st)],
                            script=SCRIPTS[n % 3] * 10))
    # participants with the cross-process lock (ParallelMailboxLock on a LockFile), taking turns
    for a, b in itertools.product(FILE_OPLISTS, FILE_OPLISTS):
        for j, sc in enumerate(FILE_SCRIPTS):
            out.append(dict(lock="file-seq", users=[dict(name="t1", ops=a, start=0),
                                                    dict(name="t2", ops=b, start=0)], script=sc * 8))
    for a, b, c in itertools.product(FILE_OPLISTS[:3], FILE_OPLISTS[3:6], FILE_OPLISTS[:2]):
        out.append(dict(lock="file-seq", users=[dict(name=nm, ops=o, start=0) for nm, o in
                                                zip(names, (a, b, c))], script=FILE_SCRIPTS[1] * 8))
    # tasks of one process sharing one ParallelMailboxLock
    for a, b in itertools.product(OPLISTS[:4], OPLISTS[:4]):
        out.append(dict(lock="file-tasks", users=[dict(name="t1", ops=a, start=0),
                                                  dict(name="t2", ops=b, start=1)], script=["plain"] * 20))
    out += cancel_scenarios(ctx)
    for _ in range(40 if ctx.quick else 300):           # extra random cases (not gating)
        k = ctx.rng.choice([2, 3])
        out.append(dict(users=[dict(name=names[i], ops=[ctx.rng.choice(sum(OPLISTS, [])) for _ in
                                                        range(ctx.rng.randrange(1, 6))],
                                    start=ctx.rng.randrange(0, 8)) for i in range(k)],
                        script=[ctx.rng.choice(list(SLOTS)) for _ in range(40)], random=True,
                        lock=ctx.rng.choice(["task", "task", "file-seq"])))
    return out


def cancel_points(w, quick):
    """cancellation points of a wait of w event-loop iterations: every point at its start and
    around the hand-over of the lock, a stride in between"""
    pts = set(range(0, 7)) | set(range(max(0, w - 10), w))
    pts |= set(range(7, max(7, w - 10), 9 if quick else 3))
    return sorted(x for x in pts if x < w)


def cancel_scenarios(ctx):
    """a user is cancelled (task.cancel(), a timeout ...) while it is still waiting for the
    mailbox lock, with another user holding the mailbox and others queued behind or arriving
    later; the cancelled user retries with its next operation.  For every base scenario a probe
    run measures how long the victim waits; one scenario per cancellation point follows."""
    out = []
    holders = [["rd_seg"], ["coe_list", "rd_exp"], ["rd_exp"]]
    for lock in ("task", "file-tasks"):
        for h in holders:
            bases = [
                # victim t2 in the middle of the queue, t3 behind it
                ([("t1", h, 0), ("t2", ["rd_exp", "wr_exp"], 1), ("t3", ["rd_norm"], 2)], "t2"),
                # victim t3 last in the queue
                ([("t1", h, 0), ("t2", ["wr_exp"], 1), ("t3", ["rd_exp", "rd_exp"], 2)], "t3"),
                # two users: the victim retries while the holder is still busy; a third arrives late
                ([("t1", h + h, 0), ("t2", ["rd_exp", "rd_exp"], 1), ("t3", ["wr_exp"], 40)], "t2"),
            ]
            for users, victim in bases:
                base = dict(lock=lock, script=["d3", "d1"] * 12,
                            users=[dict(name=n, ops=o, start=st) for n, o, st in users])
                probe = run_scenario(base)
                w = [x[2] for x in probe["waits"] if x[0] == victim and x[1] == 0]
                if not w:
                    raise T.MachineryError(f"probe run: {victim} never sent: {probe['outcomes']}")
                for at in cancel_points(w[0], ctx.quick):
                    out.append(dict(base, cancel=dict(u=victim, op=0, at=at)))
    return out


def overlap(ev):
    """some operation begins while another user's operation is in progress"""
    running = set()
    for e in ev:
        if e["ev"] == "begin":
            if running - {e["u"]}:
                return True
            running.add(e["u"])
        elif e["ev"] == "end":
            running.discard(e["u"])
    return False


# ---- TLC runs ---------------------------------------------------------------------------
def tlc_mc_mailbox(ctx):
    wd = ctx.workdir()
    users, ops, wire = ("u1, u2, u3", 2, 6) if ctx.quick else ("u1, u2, u3", 2, 8)
    T.write_cfg(wd, "mc.cfg", f"""SPECIFICATION MSpec
CONSTANTS Users = {{{users}}}
          None = None
          InitCounters = {{0, 6}}
          MaxOps = {ops}
          MaxWire = {wire}
CONSTRAINT Bound
SYMMETRY Symm
INVARIANTS OneHolder NotInterleaved Answered CounterChain
CHECK_DEADLOCK FALSE
""")
    res = T.require_clean(T.run(wd, "MC_Mailbox", "mc.cfg", workers=4, timeout=1500), "MC_Mailbox")
    if not res.ok:
        raise T.MachineryError("Mailbox.tla violates its own invariants:\n" + res.counterexample())
    return "mc_mailbox", res, dict(users=3, MaxOps=ops, MaxWire=wire)


LAYOUTS = {   # name: ({user: (process, byte)}, ProcOf / Bytes definitions of the trace and MC modules)
    "same": ({"u1": ("P", 0), "u2": ("Q", 0)}, "ProcTwo", "BytesSame"),
    "mixed": ({"u1": ("P", 0), "u2": ("Q", 1)}, "ProcTwo", "BytesMixed"),
    "multi": ({"u1": ("P", 0), "u2": ("P", 1), "u3": ("Q", 0)}, "ProcMulti", "BytesMulti"),
}


def tlc_mc_lockfile(ctx, procof, which, users):
    wd = ctx.workdir()
    T.write_cfg(wd, "mc.cfg", f"""SPECIFICATION LSpec
CONSTANTS Users = {{{", ".join('"u%d"' % i for i in range(1, users + 1))}}}
          N = 2
          None = None
          ProcOf <- {procof}
          Bytes <- {which}
INVARIANTS MutualExclusion OwnerAgrees ValidCounters Chain ZeroOnlyFirst
CHECK_DEADLOCK FALSE
""")
    res = T.require_clean(T.run(wd, "MC_LockFile", "mc.cfg", workers=4, timeout=1500), "MC_LockFile")
    if not res.ok:
        raise T.MachineryError("LockFile.tla violates its own invariants:\n" + res.counterexample())
    return "mc_lockfile_" + which, res, dict(users=users, N=2, procs=procof)


def tlc_schedules(ctx, layout, cycles, maxfail, pre=False, maxexc=1, atomic=False):
    wd = ctx.workdir()
    T.write_cfg(wd, "s.cfg", f"""SPECIFICATION SSpec
CONSTANTS Layout = "{layout}"
          Cycles = {cycles}
          MaxFail = {maxfail}
          Pre = {"TRUE" if pre else "FALSE"}
          Modes = {{"ok", "raise", "cancel"}}
          MaxExc = {maxexc}
          Atomic = {"TRUE" if atomic else "FALSE"}
INVARIANT Emit
CHECK_DEADLOCK FALSE
""")
    res = T.require_clean(T.run(wd, "LockFileScripts", "s.cfg", workers=1, timeout=1500), "LockFileScripts")
    recs = sorted(T.printed_records(res, "SCHEDULE"), key=lambda r: repr(r[1]))
    if not recs:
        raise T.MachineryError("no schedules enumerated")
    return "schedules_" + layout + ("_pre" if pre else ""), res, \
        [dict(layout=layout, same=layout == "same", window=r[0], schedule=r[1],
              pre=[6, 7] if pre else []) for r in recs]


# ---- cross-process replay -----------------------------------------------------------------
def window_facts(schedule, pre=()):
    """what other participants do between the creator's open and its initialising write"""
    if pre:                                     # the file exists already: nobody creates it
        return dict(creator="", window_acts=[], opened_in_window=False, read_in_window=False,
                    wrote_in_window=False)
    creator = schedule[0]["p"]
    acts = []
    for s in schedule[1:]:
        if s["p"] == creator and s["a"] == "init":
            break
        if s["p"] != creator:
            acts.append(s["a"])
    return dict(creator=creator, window_acts=acts, opened_in_window="open" in acts,
                read_in_window="read" in acts, wrote_in_window="write" in acts)


def replay_schedules(ctx, scheds):
    from harness import core, lockworker
    import ebpfcat.ebpfcat                       # imported before forking: workers inherit it
    d = os.path.join(T.WORK, f"c15lock-{os.getpid()}")
    os.makedirs(d, exist_ok=True)
    pool = {}
    traces = []
    try:
        for k, sc in enumerate(scheds):
            sc["nmsgs"] = (1, 2, 1, 0)[k % 4]
            layout = LAYOUTS[sc["layout"]][0]
            path = os.path.join(d, "lock")
            if sc.get("pre"):
                with open(path, "wb") as f:
                    f.write(bytes(sc["pre"]))
                sc["nmsgs"] = 2
            ev = lockworker.replay(core.REPO, path, sc["schedule"], layout, sc["nmsgs"], pool=pool)
            traces.append(dict(pre=sc.get("pre", []), ev=[{k2: v for k2, v in e.items() if k2 != "obs"} for e in ev]))
    finally:
        for w in pool.values():
            w.stop()
        shutil.rmtree(d, ignore_errors=True)
    return traces


def validate_lock(ctx, traces, layout):
    users, procof, which = LAYOUTS[layout]
    wd = ctx.workdir()
    T.write_cfg(wd, "t.cfg", f"""SPECIFICATION TSpec
CONSTANTS Users = {{{", ".join('"%s"' % u for u in sorted(users))}}}
          N = 2
          None = None
          ProcOf <- {procof}
          Bytes <- {which}
CONSTRAINT Progress
POSTCONDITION Post
CHECK_DEADLOCK FALSE
""")
    return T.validate_traces(ctx, wd, "LockFileTrace", "t.cfg", traces, chunk=5000)


def validate_mailbox(ctx, traces):
    wd = ctx.workdir()
    return T.validate_traces(ctx, wd, "MailboxTrace", "MailboxTrace.cfg", traces, chunk=3000)


def judge_inproc(ctx, sc, tr, result):
    matched, length, inv = result
    ctx.traces += 1
    senders = {e["u"] for e in tr["ev"] if e["ev"] == "send"}
    ctx.evaluated(("in", repr(sc)), nontrivial=overlap(tr["ev"]) or
                  (sc.get("lock", "task") != "task" and len(senders) >= 2))
    if matched == length and not isinstance(inv, str):
        return
    bad = tr["ev"][matched] if matched < length else None
    case = dict(part="in-process", lock=sc.get("lock", "task"), cancel=sc.get("cancel"),
                cancelled=tr.get("cancelled", []),
                scenario={k: v for k, v in sc.items()}, rejected_at=matched,
                rejected_event=bad, outcomes=tr["outcomes"], stall=tr["stall"],
                events=tr["ev"][max(0, matched - 6):matched + 2])
    ctx.case_failed(case, f"in-process ({sc.get('lock', 'task')} lock): mailbox trace leaves Mailbox.tla "
                          f"at event {matched}: {bad} "
                          f"(users {[u['ops'] for u in sc['users']]})")


def judge_cross(ctx, sc, tr, result):
    matched, length, inv = result
    ctx.traces += 1
    facts = window_facts(sc["schedule"], sc.get("pre"))
    contended = any(e["a"] == "try" and e.get("ok") is False for e in tr["ev"])
    exits = {s.get("mode") or "ok" for s in sc["schedule"] if s["a"] == "read"}
    ctx.evaluated(("x", sc["layout"], sc["nmsgs"], bool(sc.get("pre")), repr(sc["schedule"])),
                  nontrivial=contended or bool(facts["window_acts"]) or bool(exits - {"ok"}))
    complete = length >= len(sc["schedule"])
    if matched == length and complete and not isinstance(inv, str):
        return
    bad = tr["ev"][matched] if matched < length else None
    case = dict(part="cross-process", layout=sc["layout"], same=sc["same"], nmsgs=sc["nmsgs"],
                schedule=sc["schedule"],
                pre=sc.get("pre", []), exit_modes=sorted(exits),
                rejected_hold_ends_by=(bad or {}).get("mode", ""),
                write_back_skipped=bool((bad or {}).get("skipped")),
                window=sc["window"], rejected_at=matched, rejected_event=bad,
                events=tr["ev"][:matched + 1], **facts)
    steps = " ".join(f"{s.get('u') or s['p']}.{s['a']}" + (f"({s['mode']})" if s.get("mode") else "")
                     for s in sc["schedule"])
    ctx.case_failed(case, f"cross-process: schedule [{steps}] (layout {sc['layout']}): step "
                          f"{matched} leaves LockFile.tla: {bad}")


def run(ctx):
    try:
        _run(ctx)
    finally:
        shutil.rmtree(LOCKDIR, ignore_errors=True)


def _run(ctx):
    from concurrent.futures import ThreadPoolExecutor
    quick = ctx.quick
    # schedules: (layout, cycles, failing lock attempts, existing file, exceptional exits, atomic)
    jobs = [(tlc_mc_mailbox, (ctx,)),
            (tlc_mc_lockfile, (ctx, "ProcSingle", "BytesSame", 3)),
            # process P = users u1 (terminal 0) + u2 (terminal 1); u3 (, u4) processes of their own
            (tlc_mc_lockfile, (ctx, "ProcMulti", "BytesMulti", 3 if quick else 4)),
            (tlc_schedules, (ctx, "same", 1, 1, False, 2)),
            (tlc_schedules, (ctx, "mixed", 1, 1, False, 0 if quick else 1)),
            # existing file [6, 7]: counters wrap; holds that end by exception are followed by
            # further holds of the same and of the other participant
            (tlc_schedules, (ctx, "same", 2, 0, True, 1 if quick else 2)),
            # a process holding the locks of two terminals while another process wants one of them
            (tlc_schedules, (ctx, "multi", 1, 1, True, 0, True))]
    if not quick:
        jobs += [(tlc_mc_lockfile, (ctx, "ProcSingle", "BytesMixed", 3)),
                 (tlc_schedules, (ctx, "same", 2, 1, True, 0)),
                 (tlc_schedules, (ctx, "multi", 1, 2, True, 1, True)),
                 (tlc_schedules, (ctx, "multi", 1, 1, False, 0, True))]
    with ThreadPoolExecutor(max_workers=8) as ex:
        futs = [ex.submit(f, *a) for f, a in jobs]
        # meanwhile: the in-process runs on the real code
        scs = scenarios(ctx)
        in_traces = [run_scenario(sc) for sc in scs]
        done = [f.result() for f in futs]
    scheds = []
    for name, res, info in done:
        ctx.tlc_stats(res)
        if name.startswith("schedules"):
            ctx.extra[name] = ctx.extra.get(name, 0) + len(info)
            scheds += info
        else:
            ctx.extra[name] = dict(info, distinct=res.distinct, generated=res.generated)
    if not quick and len(scheds) > 12000:
        # two cycles on one terminal: keep every schedule with steps inside a creation window
        # and a deterministic stride of the others
        keep = [s for s in scheds if s["window"] > 0]
        rest = [s for s in scheds if s["window"] == 0]
        scheds = keep[::max(1, len(keep) // 3000)] + rest[::max(1, len(rest) // 3000)]
    shutil.rmtree(LOCKDIR, ignore_errors=True)
    x_traces = replay_schedules(ctx, scheds)
    by_layout = {}
    for i, sc in enumerate(scheds):
        by_layout.setdefault(sc["layout"], []).append(i)
    with ThreadPoolExecutor(max_workers=4) as ex:
        f_in = ex.submit(validate_mailbox, ctx, [dict(ev=t["ev"]) for t in in_traces])
        f_x = {lay: ex.submit(validate_lock, ctx, [x_traces[i] for i in idx], lay)
               for lay, idx in by_layout.items()}
        r_in = f_in.result()
        r_x = {lay: f.result() for lay, f in f_x.items()}
    for sc, tr, r in zip(scs, in_traces, r_in):
        judge_inproc(ctx, sc, tr, r)
    for lay, idx in by_layout.items():
        for i, r in zip(idx, r_x[lay]):
            judge_cross(ctx, scheds[i], x_traces[i], r)
    good = [t for sc, t in zip(scs, in_traces) if overlap(t["ev"])]
    if good:
        ctx.sample(dict(part="in-process", events=good[0]["ev"][:14]))
    ctx.sample(dict(part="cross-process", schedule=scheds[0]["schedule"], events=x_traces[0]["ev"][:8]))
    ctx.extra.update(in_process_scenarios=len(scs), cross_process_schedules=len(scheds))
    ctx.exhaustive = False
    ctx.rule = ("in-process: products of operation lists (sdo_read expedited/normal/segmented/complete "
                "access, expedited sdo_write, coe_request with fragmented answer) for 2 and 3 tasks x "
                "start offsets x response-delay scripts, incl. operations that raise after their mail went "
                "out (missing object, scripted abort); the same operations by 2-3 participants taking "
                "turns on the real ParallelMailboxLock + LockFile, and by tasks sharing one "
                "ParallelMailboxLock; a waiting user cancelled at every point of its wait near its start "
                "and near the hand-over (stride in between) with users queued behind it, for both lock "
                "kinds (+ random); non-trivial = an operation begins while another user's is "
                "in progress, or two participants send through the lock file.  cross-process: every TLC-enumerated interleaving "
                "of the system-call steps of 2 processes (same / different terminal, 1 cycle each, and a "
                "process whose two tasks hold the locks of two terminals while a second process wants "
                "one of them, "
                "<= 1 failing lock attempt; on an existing file [6,7] 2 cycles each) x every hold ending by "
                "return / exception / cancellation (bounded number of exceptional ends) x 0..2 messages "
                "per hold; non-trivial = a lock attempt fails, a step falls into the creation window or "
                "a hold ends exceptionally")
    ctx.assumptions.append("POSIX lock semantics are those of the sandbox kernel; the cross-process part "
                           "interleaves at system-call granularity (open, write, lockf, pread, pwrite)")


def replay(ctx, case):
    if case.get("part") == "in-process":
        sc = case["scenario"]
        tr = run_scenario(sc)
        shutil.rmtree(LOCKDIR, ignore_errors=True)
        r = validate_mailbox(ctx, [dict(ev=tr["ev"])])[0]
        for e in tr["ev"]:
            print("  ", e)
        print("TLC matched", r[0], "of", r[1])
        judge_inproc(ctx, sc, tr, r)
    else:
        sc = dict(layout=case.get("layout", "same" if case["same"] else "mixed"),
                  same=case["same"], window=case["window"], schedule=case["schedule"],
                  pre=case.get("pre", []))
        tr = replay_schedules(ctx, [sc])[0]
        sc["nmsgs"] = case["nmsgs"]
        r = validate_lock(ctx, [tr], sc["layout"])[0]
        for e in tr["ev"]:
            print("  ", e)
        print("TLC matched", r[0], "of", r[1])
        judge_cross(ctx, sc, tr, r)


# ---- findings on the unchanged tree -------------------------------------------------------
def is_f12_creation_window(case, reason=None):
    """a participant other than the creator reads its counter byte between the creator's
    open(O_EXCL) and its initialising write: pread returns b'' -> ValueError in
    ParallelMailboxLock.__aenter__ (lock.py:80), the byte stays locked"""
    e = case.get("rejected_event") or {}
    return (case.get("part") == "cross-process" and case.get("read_in_window")
            and e.get("a") == "read" and e.get("got") == [] and e.get("p") != case.get("creator"))


# Candidate repair, validated with this check in a scratch copy (all schedules accepted).
# Tolerating the empty read alone is NOT enough: the creator's late os.write(bytes(n)) then
# wipes a counter stored during the window (14 quick schedules rejected at `init`).
CANDIDATE_FIX = r'''
--- a/ebpfcat/lock.py
+++ b/ebpfcat/lock.py
@@ -24,7 +24,7 @@
         except FileExistsError:
             self.fd = os.open(self.filename, os.O_RDWR | os.O_CLOEXEC)
         else:
-            os.write(self.fd, bytes(maximum - minimum))
+            os.ftruncate(self.fd, maximum - minimum)
 
     def close(self):
         os.close(self.fd)
@@ -77,7 +77,8 @@
                 await sleep(0)
                 continue
             break
-        self.counter, = os.pread(self.lock_file.fd, 1, self.no)
+        data = os.pread(self.lock_file.fd, 1, self.no)
+        self.counter = data[0] if data else 0
 
     async def __aexit__(self, a, b, c):
         os.pwrite(self.lock_file.fd, bytes((self.counter,)), self.no)
'''


def is_parallel_lock_not_task_safe(case, reason=None):
    """tasks of ONE process sharing a ParallelMailboxLock (ParallelEtherCat.get_mbx_lock) are not
    excluded from each other: POSIX lockf locks belong to the process, so the second task's
    non-blocking lockf succeeds while the first still holds the mailbox - interleaved exchanges,
    stolen responses, repeated counters, `counter` None (lock.py, ParallelMailboxLock.__aenter__)"""
    return case.get("part") == "in-process" and case.get("lock") == "file-tasks"


# Candidate repair for the class above, validated with this check in a scratch copy (every case
# accepted, cross-process schedules included): an asyncio.Lock around the byte lock.
CANDIDATE_FIX_TASKS = r'''
--- a/ebpfcat/lock.py
+++ b/ebpfcat/lock.py
@@ -67,23 +67,32 @@
         assert self.lock_file.minimum <= no < self.lock_file.maximum
         self.no = no - self.lock_file.minimum
         self.counter = None
+        self.task_lock = Lock()  # lockf does not exclude tasks of one process
 
     async def __aenter__(self):
-        while True:
-            try:
-                fcntl.lockf(self.lock_file.fd, fcntl.LOCK_NB | fcntl.LOCK_EX,
-                            1, self.no)
-            except OSError:
-                await sleep(0)
-                continue
-            break
-        data = os.pread(self.lock_file.fd, 1, self.no)
-        self.counter = data[0] if data else 0
+        await self.task_lock.acquire()
+        try:
+            while True:
+                try:
+                    fcntl.lockf(self.lock_file.fd,
+                                fcntl.LOCK_NB | fcntl.LOCK_EX, 1, self.no)
+                except OSError:
+                    await sleep(0)
+                    continue
+                break
+            data = os.pread(self.lock_file.fd, 1, self.no)
+            self.counter = data[0] if data else 0
+        except BaseException:
+            self.task_lock.release()
+            raise
 
     async def __aexit__(self, a, b, c):
-        os.pwrite(self.lock_file.fd, bytes((self.counter,)), self.no)
-        fcntl.lockf(self.lock_file.fd, fcntl.LOCK_UN, 1, self.no)
-        self.counter = None
+        try:
+            os.pwrite(self.lock_file.fd, bytes((self.counter,)), self.no)
+            fcntl.lockf(self.lock_file.fd, fcntl.LOCK_UN, 1, self.no)
+            self.counter = None
+        finally:
+            self.task_lock.release()
 
     def next_counter(self):
         ret = self.counter
'''
