"""One entry per claimed property: what MANIFEST.json says about its check."""
CLAIMED = {
    "C20": dict(
        category="model_checking",
        text="Fmmu.tla is model-checked exhaustively (all map/unmap histories on 1..4 FMMUs); every "
             "operation script TLC enumerates (length 4 quick / 5 thorough, 3 mappings, reads, writes, "
             "normal and exceptional exits) is replayed on the real Terminal.map_fmmu for n=1..4 and the "
             "recorded run (slot, register writes, fmmu_used after every step) is validated by TLC as a "
             "behaviour of the spec. Exhaustive within the bound, which is the right level for a small "
             "slot table whose bugs are index-arithmetic cases.",
        note="Trusts TLC, the bus stub that records register writes, and that fmmu_used is the master's "
             "table. Scripts longer than the bound and more than 3 concurrent mappings are not explored.",
        technique="TLA+ spec Fmmu + TLC exhaustive model check; TLC-enumerated scripts replayed on real "
                  "code; TLC trace validation",
        design_ref="5/C20"),
}
NOT_YET = "not yet built in this round (planned in DESIGN.md section 5)"
NOT_APPLICABLE = {}
