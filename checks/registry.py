"""One entry per claimed property: what MANIFEST.json says about its check."""
CLAIMED = {
    "C20": dict(
        category="model_checking",
        text="Fmmu.tla is model-checked exhaustively (all map/unmap histories on 1..4 FMMUs); every "
             "operation script TLC enumerates (length 4 quick / 5 thorough, 3 mappings, reads, writes, "
             "normal and exceptional exits) is replayed on the real Terminal.map_fmmu for n=1..4 and the "
             "recorded run (slot, register writes, fmmu_used after every step) is validated by TLC as a "
             "behaviour of the spec. Exhaustive within the bound, which is the right level for a small "
             "slot table whose bugs are index-arithmetic cases. Later widened: mappings of one terminal entered concurrently (one task each, the bus stub suspends at every register access), events in completion order. The logical address 0 is among the addresses used. Also two live mappings carrying the same logical address (FmmuAddr.tla tells mappings from addresses; with distinct addresses it refines Fmmu.tla). Also mappings ending while the terminal does not answer any more (end kinds unmapfail / abortfail).",
        note="Trusts TLC, the bus stub that records register writes, and that fmmu_used is the master's "
             "table. Scripts longer than the bound and more than 3 concurrent mappings are not explored.",
        technique="TLA+ spec Fmmu + TLC exhaustive model check; TLC-enumerated scripts replayed on real "
                  "code; TLC trace validation",
        design_ref="5/C20"),

    "C14": dict(
        category="model_checking",
        text="AlDriver.tla composes the terminal's AL state machine with the master's obligations as "
             "enabling conditions and is model-checked exhaustively. TLC enumerates every terminal script "
             "within the bound (start state, error flag, each transition taking 0..k polls, an error at any "
             "poll, each target; k=2 quick, 3 thorough); each is played by a simulated terminal against the "
             "real Terminal.to_operational on a real EtherCat object, and the recorded 0x120 writes, 0x130 "
             "reads and outcome are validated by TLC as a behaviour of the spec. Exhaustive within the bound. Later widened: AL status words with bits above the error indicator set (0x20, 0x40, 0x8020), decoded by the trace spec itself. Also terminals that clear the error flag on the acknowledge at once but report their old state for some more polls (AlDriver.tla: TAckEarly).",
        note="BOOTSTRAP starts and terminals reporting unrequested states are outside the bound; a stall is "
             "rejected. Trusts TLC and harness/simbus.py's AL register model.",
        technique="TLA+ spec AlDriver + TLC exhaustive model check; TLC-enumerated scripts replayed on real "
                  "code over a simulated bus; TLC trace validation",
        design_ref="5/C14"),
    "C17": dict(
        category="model_checking",
        text="Sii.tla (SII register protocol: busy bit, 4/8-byte capability) is model-checked exhaustively. "
             "Fixed-seed well-formed EEPROM images x TLC-enumerated interface scripts (read width, busy "
             "durations) run the real read_eeprom / parse_sync_managers / parse_pdos (EEPROM and SDO source) "
             "and EtherCat.eeprom_read over a simulated bus; TLC evaluates SiiImage.tla on each image and "
             "judges every returned value; register-access traces are validated against Sii.tla. Later widened: boundary category types (0, 1, 0x00FF, 0x7FFF, 0x8000, 0xFFFE) with 0-2 words first, in the middle and last. Also long busy periods (99, 100, 101, 150, 1000 polls) at every position of a read pattern. Also the boundary values of every single-byte count / length field (127, 128, 255 entries in one PDO; category lengths of 127-256 words).",
        note="Images are sampled, not exhaustive; ill-formed images are outside the precondition. Trusts "
             "simbus' SII model (its register behaviour is itself trace-validated) and a minimal expedited "
             "CoE upload server.",
        technique="TLA+ specs Sii/SiiImage + TLC model check; TLC-enumerated scripts replayed on real code; "
                  "TLC evaluation of results and trace validation",
        design_ref="5/C17"),
    "C18": dict(
        category="model_checking",
        text="Alloc.tla states the requirement on an observed allocation (exact-size regions inside their "
             "transporting datagram, pairwise disjoint, FMMU logical address mapping to the same bytes, "
             "logical windows of different groups disjoint, frame <= 1500 or a justified OverflowError); "
             "the designed address scheme (AllocRef) is model-checked against it. TLC enumerates "
             "configurations (FMMU / direct / Aerotech terminals, sizes up to 1400, 1-3 groups, regions "
             "resized around the frame limit); each is built from real terminal, device and SyncGroup "
             "objects, allocate() is run, and TLC validates pdo_assign, fmmu_maps and the assembled frame. Later widened: TLC-enumerated allocation histories of a bus (many earlier allocations, crowds of live groups, two cooperating processes with neighbouring process numbers).",
        note="Exhaustive within the bound plus seeded random configurations. An exception other than a "
             "justified OverflowError is a rejected case. The FMMU length programmed by map_fmmu and "
             "FastSyncGroup's sterile frames are not covered.",
        technique="TLA+ spec Alloc + TLC model check of the reference scheme; TLC-enumerated configurations "
                  "replayed on real code; TLC trace validation",
        design_ref="5/C18"),
    "C25": dict(
        category="model_checking",
        text="Address.tla (probe / mark-used / assign protocol) is model-checked exhaustively for 3 terminals "
             "x 4 addresses. Real scan_serial_numbers and concurrent Terminal.initialize run on a simulated "
             "bus with narrowed address ranges so that collisions are forced, varied start orders and "
             "response delays; every write of the station-address register must be in range, never written "
             "before and never an address at which a terminal answered; TLC validates each trace. Also pre-assigned addresses shared by several terminals (probes answered with working counter 2 or more). Also whole-packet transport failures (sendto raising ENOBUFS / ENETDOWN, truncated replies) aimed at the probe of an occupied address. Also buses of 16-40 terminals scanned concurrently through the real send loop (more than 15 datagrams queued at once).",
        note="Schedules are sampled (seeded), not exhaustive. 'Within the configured range' is read as "
             "lo <= a <= hi, the reading under which the property text is satisfiable by randint; the "
             "half-open reading used by the mailbox lock file is recorded in DESIGN.md as an observation "
             "outside C25. No frame loss.",
        technique="TLA+ spec Address + TLC exhaustive model check; TLC trace validation of real concurrent "
                  "initialisation on a simulated bus",
        design_ref="5/C25"),
    "C30": dict(
        category="model_checking",
        text="SlowCycle.tla (Send / Receive / Update per cycle) is model-checked exhaustively on small "
             "constants. Randomised configurations (FMMU, direct and mixed addressing; byte, word and bit "
             "variables) run the real SyncGroup.start()/run() for 4-8 cycles on a virtual-time loop and a "
             "simulated bus with scripted inputs and returned working counters (correct, off by a few, 0, and "
             ">= 256 with matching or non-matching low byte); TLC validates every trace (frames, responses, "
             "what devices saw and set, wkc_errors). Later widened: frames lost or answered late from the second cycle on (environment action Lose): what is resent carries the current outputs and cleared counters, and wkc_errors does not move. Also the same group object started again after its task ended (SlowCycle.tla: Restart), and variables declared through PDO entries wider than the variable. Also the package's terminal class that overrides allocate (AerotechBase) behind other input terminals; SlowCycle.tla describes the exchange per direction.",
        note="Expected counters are derived in the spec from the configuration, not read from the code. No "
             "lost, late or duplicated cyclic frames; cycle 1's error count is not judged.",
        technique="TLA+ spec SlowCycle + TLC exhaustive model; real SyncGroup.run on a simulated bus; TLC "
                  "batched trace validation",
        design_ref="5/C30"),

    "C06": dict(
        category="model_checking",
        text="Xadd.tla runs N instances (2 quick, 3 thorough) of the bytecode the real generator emits for "
             "`v += a` / `v -= a` over one shared memory, each with its own registers and stack, interleaved "
             "at instruction granularity by TLC (every schedule), on the eBPF machine of Ebpf.tla; at the end "
             "the variable must have changed by exactly the sum of all amounts. All statement shapes: 4 memory "
             "kinds (array map, per-CPU map, local, raw memory through the map base) x formats i I q Q x x "
             "+= / -= x constant (small, negative, 2^31-1, 2^40+7) / register / expression amounts x initial "
             "values incl. wrap-around. Exhaustive over schedules for each case. Also members of a looked-up Dict value (shared through the hash map). Also raw memory reached through a register of the program's own choice (r2, r4, r6, r8, r9). Also fixed-point amounts (variable, x register) added to integer variables.",
        note="Ebpf.tla is a model of the ISA: cross-checked against the kernel on 1 800 runs of 600 random "
             "verifier-accepted programs plus targeted packet / hash-helper / tail-call cases, 0 mismatches "
             "(harness/fidelity.py). An atomic add is one machine step, as on hardware. Per-CPU maps are "
             "modelled with one copy (all instances on one CPU).",
        technique="TLA+ spec Xadd over the eBPF machine Ebpf.tla; TLC executes the real emitted bytecode under "
                  "all interleavings",
        design_ref="5/C06"),

    "C27": dict(
        category="model_checking",
        text="Valve.tla is model-checked exhaustively (all configurations, bounded clock). TLC enumerates all "
             "histories in normal form (SetTarget, Switches, optional Advance, Update per cycle; 3 cycles quick, "
             "4 thorough; moving times {0,1,3}; both safe-state settings), each replayed on a real Valve whose "
             "coil and switches are bit variables of a real SyncGroup frame, with the module clock replaced by "
             "a virtual one; TLC validates coil, target and error after every update. Seeded longer histories "
             "are added on top. Later widened: TLC-enumerated group histories of 1-3 Valve objects in one sync group, each valve judged by its own instance of the Valve spec. Also reconfiguration (movingTime, safeState) as steps during a history.",
        note="As the property states, the position check is prescribed for the default safe state only; for "
             "safeState = True only the error reaction is judged. Resets in mid-history are not explored. "
             "'Elapsed' is read as now - lastGood >= movingTime.",
        technique="TLA+ spec Valve + TLC exhaustive model check; TLC-enumerated histories replayed on real code; "
                  "TLC trace validation",
        design_ref="5/C27"),
    "C28": dict(
        category="model_checking",
        text="Serial.tla (the EL6002 handshake as two one-place channels plus initialisation) is model-checked "
             "with free interleaving. TLC enumerates terminal timing behaviours (init and ready delays, toggle "
             "start states, write gaps, accept and announce delays 0..k, buffer scribbling); each is played "
             "cycle by cycle on the real Serial.update() through the real EL6002.Channel descriptors in a real "
             "SyncGroup frame, the application side using the real pipes; TLC validates every update's output "
             "image and delivered bytes and requires everything to be transferred at the end. Also the device pickled into a really spawned child (every 12th behaviour), the application staying in the parent on the streams of the real connect().",
        note="The terminal model is the forgiving one (it registers transmit requests from the init "
             "acknowledgement on). Pipe-full / partial writes, writes above 50 bytes and re-initialisation are "
             "not covered.",
        technique="TLA+ spec Serial + TLC model check; TLC-enumerated behaviours replayed on real code; TLC trace "
                  "validation",
        design_ref="5/C28"),

    "C15": dict(
        category="model_checking",
        text="Mailbox.tla (holder, counter chain 1..7 with 0 only first, whole exchanges on the wire) and "
             "LockFile.tla (create O_EXCL / initialise / open / lockf / read / write / unlock, with the "
             "create-initialise window) are model-checked exhaustively for 2-3 users. In-process: 2-3 asyncio "
             "tasks doing real sdo_read / expedited sdo_write / coe_request on one simulated terminal with "
             "varied start orders and delays; the mailbox headers seen by the terminal are validated by TLC. "
             "Cross-process: TLC enumerates system-call schedules for two participants including the creation "
             "window; each is replayed on the real LockFile / ParallelMailboxLock in two OS processes with "
             "gated os/fcntl calls, and TLC validates lock outcomes, file bytes and counters. Later widened: lock holds that end by exception or cancellation (TLC chooses per hold), aborting exchanges end to end on the cross-process lock, and tasks of one process sharing one cross-process lock. Also a process using the mailboxes of several terminals at once (users of one process share the record locks). Also cancellation of a user while it waits for the lock (every cancellation point near the start of the wait and around the hand-over), with users queued behind and arriving later.",
        note="Interleaving at system-call granularity; two participants replayed (three in the model); POSIX "
             "record-lock semantics are those of the sandbox kernel. Unrelated mail is kept out of these "
             "scripts (it belongs to C16).",
        technique="TLA+ specs Mailbox + LockFile, TLC exhaustive model checks; TLC trace validation of real "
                  "asyncio runs; TLC-enumerated schedules replayed on real code in separate processes",
        design_ref="5/C15"),

    "C16": dict(
        category="model_checking",
        text="CoE.tla (an SDO server per ETG.1000.6 5.6.2: expedited / normal / segmented download and upload, "
             "toggle from 0, size indication, complete access, last-segment flag and unused-bytes field, abort, "
             "interleaved unrelated mail) composed with Sdo.tla (client obligations: every message fits the "
             "mailbox; value after a download = the client's bytes; result of an upload = the server's bytes) "
             "is model-checked exhaustively on tiny mailboxes. Real sdo_read / sdo_write run on a real Terminal "
             "and EtherCat over a simulated bus for mailbox sizes 32..256, value lengths 0..3 mailboxes, "
             "subindex and complete access, with TLC-generated scripts of delays, unrelated mail, short "
             "fragments and aborts; every mailbox message both ways, the call's outcome and the server's final "
             "value are validated by TLC. The simulated server's own messages are validated by the same spec. Later widened: seven addresses (subindex 0, 1, 2, 5, 254, 255; indices 0x0001..0xFFFF) against every transfer kind, with neighbouring entries in the simulated terminal so that a misaddressed transfer lands somewhere. Also 2-3 tasks transferring on one terminal at once (all 81 ordered pairs of nine transfer kinds, reply delays of 0-5 polls), each transfer validated on its own.",
        note="Complete access and subindex access are modelled as independent objects; the outcome after a server "
             "abort is unconstrained. The server model follows the standard as read, not a physical device.",
        technique="TLA+ specs Sdo || CoE, TLC exhaustive design check; TLC-enumerated reply scripts; real "
                  "transfers on a simulated bus; TLC batched trace validation",
        design_ref="5/C16"),

    "C11": dict(
        category="model_checking",
        text="Frame.tla (Append accounting, Assemble, an independent parser WellFormed, Sterile) is model-checked "
             "exhaustively at a scaled-down frame size. TLC enumerates fill / probe / tail datagram sequences (up "
             "to 17 datagrams; lengths 0, 1, 2, 31, 32, ..., 1400, 1471 and room-1, room, room+1 around the "
             "1500-byte limit; position, node and logical addressing; 11 commands incl. writers; working-counter "
             "presets; the empty sequence). Each is replayed on real Packet and SterilePacket objects and TLC "
             "validates clause by clause: accept/reject, returned (start, stop), and the bytes of assemble / "
             "sterile (length field and type nibble, identification datagram, every header and 'more' flag, data "
             "and counter at the reported positions, size <= 1500, padding to 46, sterile copy equal except NOP "
             "in the writers' command byte). Later widened: frames with equal datagrams (the last equal to an earlier one, an earlier pair, all equal).",
        note="The 15-datagram count limit is not demanded: a rejection for count is bound from the first such "
             "rejection and then held. IRQ bytes and padding values are free. Addresses stay in the ranges "
             "struct.pack accepts.",
        technique="TLA+ spec Frame + TLC exhaustive model; TLC-enumerated sequences replayed on real code; TLC "
                  "trace validation",
        design_ref="5/C11"),
    "C13": dict(
        category="model_checking",
        text="Codec.tla defines Payload and Decoded (with a RoundTrip invariant relating them). TLC enumerates "
             "requests: 0-2 (thorough 0-3) valued format strings from {B, H, I, HI, H2xH, 4x, 8s} with boundary "
             "values, an optional trailing read-only format, raw data in {absent, count 0, count 3, b'', 1-3 "
             "bytes}, plus random requests; each is made through the real EtherCat.roundtrip with a queue "
             "consumer returning a position-dependent response; TLC validates the payload sent and the tuple "
             "returned (or the exception). Later widened: struct's whole '<' alphabet (signed and 64-bit integers, e / f / d floats incl. infinities and NaN on decoding, bools, chars, s / p strings), the spec encodes each. Later widened: 1-3 (thorough 4) concurrent calls through the REAL send loop and process_packet sharing frames, per call working counter 0 / 1, cancelled in flight or not, overflow into a second frame (CodecFrames.tla enumerates the environments).",
        note="Unsigned integer, pad and byte-string fields only; without any format the raw bytes may come back "
             "bare rather than as a 1-tuple.",
        technique="TLA+ spec Codec; TLC-enumerated requests replayed on real code; TLC trace validation",
        design_ref="5/C13"),

    "C12": dict(
        category="model_checking",
        text="SendLoop.tla (one action per suspension or mutation point of roundtrip / sendloop / process_packet / "
             "roundtrip_packet / datagram_received, plus bus return / delay / duplicate / loss) is model-checked "
             "exhaustively for 2-3 requests (4 bounded) with sizes {small, half frame, frame-filling, too big}, "
             "cancellations and per-datagram working counters 0/1: each request on the wire at most once and in "
             "submission order, completing at most once with its own bytes or an error, never through another "
             "request, and a request that can never fit fails instead of stalling. Hundreds (thorough: "
             "thousands) of workloads run on the real EtherCat object over a virtual-time loop and simulated "
             "bus; TLC validates every recorded run, the send loop's internal steps being silent actions.",
        note="Orderings are those reachable through asyncio's FIFO ready queue with varied start times, delays and "
             "cancellation points; only FPRD datagrams; at most 22 requests per run; frame-index collisions "
             "(random 30-bit index) are not explored. The spec is permissive where the property is silent "
             "(batching, skipping a request cancelled before sending).",
        technique="TLA+ spec SendLoop + TLC exhaustive model check; TLC batched trace validation of real-code runs",
        design_ref="5/C12"),

    "C01": dict(
        category="model_checking",
        text="Dsl.tla gives the denotation of integer DSL expressions as executable definitions: the SET of "
             "admissible exact values (wide two's-complement words sized so that no intermediate can "
             "overflow; two values where signed // or % may round either way), the narrowest width involved "
             "and the property's precondition. Statements `dst = <expression>` are built with the real "
             "classes (all depth-1 trees over 17 operand kinds: 8 variable formats, locals, the r/sr/w/sw "
             "register views, constants from the full 64-bit range; 10 operators, unary minus and abs; "
             "rotating destinations incl. registers and locals; fixed-seed random trees of depth 2-3), the "
             "emitted bytecode is executed by TLC on the eBPF machine from several input vectors (small, "
             "negative, boundary, random), and the destination's final bytes must be an admissible value "
             "reduced to the destination whenever the precondition holds. Later widened: hash-map variables as operands and destinations, every fourth statement inside a temporary's block, every second register destination also an operand, and the `register + constant` class under every operator. Also: the destination register inside the right operand, plainly, under unary minus / abs and in deeper subtrees. Also array-map and local variables declared with a byte order (\">h\", \"<Q\", \"!q\") as operands and as destinations (Codegen.tla reads and judges their bytes in the declared order).",
        note="Bounded depth and sampled inputs, not all programs. The precondition is read conservatively: a "
             "case outside it is skipped, never judged (about 17% of runs). Two recorded known findings "
             "(signed // % emitted unsigned; sw register not sign-extended for an 8-byte destination) are "
             "matched by predicates the spec evaluates on the case's own inputs; a statement that has one of "
             "them AND another defect is attributed to the known finding.",
        technique="TLA+ denotation Dsl + TLC executing the real emitted bytecode on the eBPF machine Ebpf.tla; "
                  "per-case verdicts",
        design_ref="5/C01"),

    "C02": dict(
        category="model_checking",
        text="Fixed.tla gives fixed-point semantics as executable definitions over exact rationals (pairs of wide "
             "two's-complement words): the value of integer / fixed-point variables, registers, integer and decimal "
             "constants; sums, differences, products, true division (always fixed point), floor division (always "
             "integer), remainder and the six comparisons; the result dropped to the destination by floor or by "
             "truncation (both admissible); and the property's precondition (operands at the finest scale the "
             "operation needs and the scaled exact result fit 64 signed bits, divisor non-zero). Statements "
             "`dst = a OP b` and `with a CMP b: ... Else ...` over ordered pairs of six operand kinds are built with "
             "the real classes; decimal constants reach the real code as Python floats made from decimal strings "
             "(0.29, 0.1, 0.57, 1.15, 0.00001, 99999.99999: none exactly representable in binary) while the "
             "specification is given their exact scaled integers; fixed-point inputs are assigned from Python through "
             "the real descriptor and the specification checks the stored bytes are the exact scaled integer. TLC "
             "executes the emitted bytecode on the eBPF machine and judges the destination bytes / the markers; the "
             "result is read back through the real Python descriptor and must be the float nearest to raw/100000. Later widened: hash-map variable operands (incl. fixed-point ones), statements inside a temporary's block, plain assignments of every constant (conversion only), values beyond 32 bits in every vector; the precondition scales each operand only as far as its own operation needs. Also integer destinations declared with a byte order and / or narrower than 8 bytes (the precondition then follows the destination's width). Also operands read as raw memory through the map's base register (`self.mx[...]`, `self.mq[...]`). Also hash-map variables (fixed-point and integer) as destinations.",
        note="Depth-1 statements and sampled input values (boundary and fixed-seed), 8-byte operands (destinations of 2, 4 and 8 bytes, array-map and hash-map). Outside "
             "the precondition a case is skipped, never judged. One recorded known finding (F1: division emitted "
             "unsigned) is matched by a flag the spec computes by stepping the case's own bytecode: a DIV or MOD "
             "executes on a negative operand; a statement that has that AND another defect is attributed to it. The "
             "Python-side read back is compared in Python (float division is outside TLA+).",
        technique="TLA+ denotation Fixed (exact rationals) + TLC executing the real emitted bytecode on the eBPF "
                  "machine Ebpf.tla; per-case verdicts; Python-side store bound through the spec",
        design_ref="5/C02"),

    "C03": dict(
        category="model_checking",
        text="Dsl.tla defines the truth value of conditions (six comparison operators on exact values, truth and "
             "bit tests, single- and multi-bit fields, ~ & | combinations), the property's precondition "
             "(compared values fit the narrowest width involved, read conservatively) and Exec: the set of "
             "marker bytes a program of nested / sequenced with / Else blocks must set. Programs are built with "
             "the real classes: every ordered pair of 15 operand kinds under rotating (thorough: all) "
             "operators, operands against constants on either side and a+1 expressions, bit tests and fields, "
             "12 condition shapes x 5 block shapes from fixed seeds; TLC executes the emitted bytecode on the "
             "eBPF machine from input vectors drawn around each program's constants (incl. equal operands and "
             "positive-versus-minus-one), and the markers found set must equal Exec. 58% of judged programs "
             "were observed on two or more different paths in the quick tier. Later widened: hash-map variable operands, programs inside a temporary's block, and conditions over fixed-point and mixed operands (C02's comparison statements, judged by Fixed.tla). Also expressions over narrow unsigned operands whose exact value may be negative (`H - H`, `I - 1`, `b * B`) on either side against signed and 8-byte operands. Also statements that leave the program (`exit` inside bodies and Else blocks; Dsl.tla: nothing runs after it).",
        note="Bounded depth and sampled inputs. A condition outside the precondition on the executed path makes the "
             "case skipped. One recorded known finding (the sw register view compared without sign extension "
             "against a 64-bit operand) is matched by a predicate the spec evaluates; a program that has it AND "
             "another defect is attributed to it.",
        technique="TLA+ denotation of conditions and blocks (Dsl.tla, Cond.tla) + TLC executing the real emitted "
                  "bytecode on the eBPF machine; per-case verdicts",
        design_ref="5/C03"),
    "C07": dict(
        category="model_checking",
        text="Bytes.tla defines Unpack / Pack for B H I Q b h i q with native, <, >, ! byte orders (validated "
             "against Python's struct on 496 vectors) and Patch; Packet.tla judges each run of a real XDP program: "
             "a read stores Unpack of exactly the declared bytes, a write leaves Patch(pkt, p, Pack(v)) with "
             "every other byte unchanged, in-place updates likewise, and the guarded body runs for every packet "
             "longer than the guard and for none shorter than its accesses need, never faulting. Programs use "
             "real PacketVar descriptors and pB/pH/pI/pQ accesses under minimumPacketSize and explicit "
             "packetSize comparisons with Else; every packet length from 0 to guard+size+2 with fixed-seed "
             "contents and boundary field values. Every program is also loaded into the kernel and a large "
             "sample of runs is cross-checked (machine = kernel) when bpf() is available. Later widened: both operands of a statement carry a format of their own (32 x 32 format pairs, five statement kinds). Also the value used in comparisons and arithmetic (`with pv + k <rel> rhs`, `other = pv + k`; Packet.tla: BranchExact), 32 formats x 6 relations.",
        note="Grid is sampled in the quick tier (about a third). Lengths between the guard and the access need are "
             "left free, as the property text allows. '=' and '@' prefixes, register-valued offsets, bit-field "
             "and multi-element formats in packets are not covered.",
        technique="TLA+ specs Bytes + Packet over the eBPF machine; TLC executes the real emitted bytecode; kernel "
                  "cross-check of programs and runs",
        design_ref="5/C07"),

    "C23": dict(
        category="model_checking",
        text="Parallel.tla models the lock-directory, interface-mutex, pin/attach and FMMU-bitmap protocol of "
             "ParallelEtherCat.run / LockFile / FMMULock one system call per step (optional crash), with switches for the "
             "unrepaired protocols. TLC verifies the four invariants (one installer at a time, dispatcher and table up "
             "while anyone runs, distinct ethertypes, distinct address windows) on the repaired protocol for all "
             "interleavings of 2 participants (with and without a crash), 3 participants (with a crash in thorough) and 3 "
             "bare FMMULock users. From the unrepaired protocols TLC extracts the shortest violating interleaving per "
             "class; from the repaired one every bounded-preemption behaviour and random behaviours. All are replayed on "
             "the real code in one OS process per participant with gated system calls (a participant blocked in flock / "
             "lockf is recognised, no timeouts); TLC evaluates the invariants on the observed states and checks every "
             "observed step against the repaired model (100 % on /repo). Later widened: start-up calls (connect, create_map, attach, pin, obj_get) may fail, the error handlers are steps; the design is verified with one failing call and failing calls are injected in the replay. Also the first participant vanishing - killed at every boundary between two calls the real code makes, or cancelled inside connect / attach / detach (Parallel.tla: PCancel) - followed by later joiners.",
        note="Verdict = invariants on observed states; model conformance is reported, not gated. bpf / XDP calls are "
             "recorders with kernel semantics; granularity is the system call. Removing the mutex or un-mutexing the "
             "stop block is caught through the old-protocol windows; reverting the FMMULock repair only through the "
             "bare-FMMULock part (invisible through run(), as TLC shows). 2-3 participants; wall time depends on "
             "machine load (16 JVM starts in quick).",
        technique="TLA+ spec Parallel + TLC exhaustive design verification of the repaired protocol; TLC-found "
                  "violating interleavings of the unrepaired protocols and TLC-enumerated behaviours of the repaired one "
                  "replayed on the real code in real processes; TLC trace validation",
        design_ref="5/C23"),

    "C24": dict(
        category="model_checking",
        text="Lifecycle.tla keeps a ledger of what a sync group holds (terminals asked OPERATIONAL, FMMU table "
             "entries, the program-table entry or the child process) and judges it when the task ends: ended "
             "cancelled, every terminal asked OPERATIONAL later asked SAFE-OPERATIONAL, no FMMU entry held, "
             "program unregistered / child stopped. A design of run() for the three kinds with Cancel enabled at "
             "every await is model-checked exhaustively. The real SyncGroup and FastSyncGroup run on a "
             "virtual-time loop and simulated bus and are cancelled after every event-loop iteration up to the "
             "end of the second cycle (thorough: and a second cancel at every later iteration); the fast kind "
             "uses a real kernel program table with the group program really loaded; the real "
             "ProcessSyncGroup.start() spawns its child and is cancelled before its first step, while booting, "
             "while cycling and at an exit race. TLC validates every recorded run. Cancelled after every event-loop iteration up to the end of cycle 2, x every later iteration for a second cancel, x every iteration later still for a third (three-writer configurations; thorough: all gating configurations). Also one terminal in turn going silent at the first cancel (a silent writer ending the task with a bus error is counted, not judged). Also groups without any written terminal (pure monitoring groups) in every kind, layouts enumerated by the number of written terminals. Also cyclic frames lost from the n-th on while register datagrams are still answered (process groups stopped three time-outs deep).",
        note="Exhaustive over cancellation iterations for the listed configurations, not over configurations. The "
             "child runs a stand-in ParallelEtherCat.run (no NIC). The harness translates lookup_elem's KeyError "
             "into the OSError register_sync_group waits for (see DESIGN.md 10, observation). The FMMU "
             "deactivation register write on the exception path is not demanded. Losses / timeouts on the bus "
             "are not injected.",
        technique="TLA+ spec Lifecycle + TLC exhaustive model check; cancellation injected at every await of the real "
                  "code; TLC batched trace validation",
        design_ref="5/C24"),
    "C29": dict(
        category="model_checking",
        text="SharedVars.tla: cells with two clients (parent, child), pairwise-disjoint storage across device "
             "instances, and bytes refining cells, model-checked. Fixed-seed random DeviceVar class sets (23 "
             "formats incl. x and multi-element, subclasses, redeclarations) on a real ProcessSyncGroup whose "
             "child is really spawned through the library's own start() path; parent and child alternate "
             "scripted reads and writes; TLC validates the merged history and the layout seen by each side. Later widened: decimals whose float product with 100000 falls below the integer in the fixed-point value pool.",
        note="Turn-taking only (no concurrent access to one variable); in-range values; class sets are sampled.",
        technique="TLA+ spec SharedVars + TLC model check; real parent and spawned child processes; TLC batched trace "
                  "validation",
        design_ref="5/C29"),

    "C26": dict(
        category="model_checking",
        text="Motor.tla states the control law exactly as the property does (desired = gain * (target - position) "
             "on exact wide words; limited to prev +- acceleration, then to +- velocity limit, then zero if an "
             "active limit switch blocks that direction) and its three consequences, model-checked on a small "
             "grid. The real FastSyncGroup([Motor]) program over the bundled EL7041 terminal is executed by TLC "
             "on the eBPF machine; the 16-bit velocity bytes and the enable bit in the final frame must equal "
             "the law evaluated on the run's own inputs. Inputs: a boundary grid aiming the desired velocity at "
             "each limit -1/0/+1 and far beyond int16 up to 2^63-1, x acceleration x velocity limit x previous "
             "velocity x both switches, two PDO layouts (FMMU and direct), plus seeded random inputs; a sample "
             "is cross-checked on the real kernel. Later widened: six layouts over every bundled motor terminal (EL7041, EL7332 with EL5042 encoder, EL7062), the meaning of the frame variables taken from device descriptions written independently of terminals.py, the PDO tables from the real parse_pdos.",
        note="Decided on the grid and samples, not for all bit-vectors (no symbolic proof was attempted: Apalache on "
             "the machine was judged out of reach in the time). Assumes output enabled (wkc_errors != 0) and the "
             "property's preconditions (limit within the output's range, previous velocity within the limit, "
             "desired velocity fits 64 bits).",
        technique="TLA+ spec Motor (law + consequences) over the eBPF machine; TLC executes the real emitted program",
        design_ref="5/C26"),
    "C19": dict(
        category="model_checking",
        text="ProcVar.tla defines Get / Set of a process variable (region start of its terminal and sync manager in "
             "the frame, byte offset, format or bit) with the laws Set-is-local, Get-after-Set, Get-is-local. "
             "Fixed-seed random terminals (ProcessDesc / PacketDesc entries, direct and in Struct channels with "
             "offsets and decoy channels, size overrides, bits, formats BHIQbhiq, FMMU and direct addressing) and "
             "devices whose update() and program() are the same statements run on both paths: the Python path on "
             "a real SyncGroup's frame buffer, the program path as the emitted FastSyncGroup bytecode executed by "
             "TLC on the same frame. Both must equal Get / Set, hence each other; four frames per configuration. Later widened: every fifth configuration takes its PDO map from the real parse_pdos over generated SII PDO categories with gap entries (true places computed from the lengths alone).",
        note="Region starts are read from the frame, not from pdo_assign. Devices linking a WHOLE Struct cannot be "
             "grouped at all (Device.get_terminals reads .sm of the Struct): counted as an observation in the "
             "evidence, not judged, since there is then no access for C19 to speak about. Byte-order prefixes "
             "belong to C07.",
        technique="TLA+ spec ProcVar over the eBPF machine; real slow path and real emitted fast path compared by TLC",
        design_ref="5/C19"),

    "C21": dict(
        category="model_checking",
        text="FastGroupFrame.tla / FastGroup.tla state the per-pass requirement on a fast group's frame: user "
             "space emits only sterile frames (write datagrams NOP); if the group's program processes the frame "
             "with output enabled, exactly the write datagrams are re-enabled, their working counters cleared and "
             "wkc_errors grows by the number of write datagrams whose returned counter differed from the expected "
             "value; otherwise the frame is unchanged. TLC executes the real FastSyncGroup bytecode per frame for "
             "16 (thorough 56) layouts (FMMU and direct, 1-4 write datagrams) x all subsets of right / wrong "
             "returned counters x output enabled / disabled; the real FastSyncGroup.run / update_devices are "
             "driven under virtual time for the frames user space emits; and over the dispatcher histories of "
             "C22 no frame returns to the bus with enabled write datagrams unless the group's program processed "
             "it in that pass. Every pass is re-run on the real kernel (machine = kernel). Later widened: every terminal class that lays out its own datagrams (overrides allocate; found by introspection, today AerotechBase) in four layout shapes.",
        note="Expected counters and the set of write datagrams are computed in the spec from the reference frame "
             "and the configuration. A wrap of wkc_errors at 2^32 is modular.",
        technique="TLA+ specs FastGroupFrame / FastGroup over the eBPF machine; TLC executes the real emitted "
                  "bytecode; kernel cross-check per pass",
        design_ref="5/C21"),
    "C22": dict(
        category="model_checking",
        text="The real emitted bytecode is the step function of the model: TLC computes a transition table by "
             "running the real EtherXDP dispatcher (86 instructions) with a real tail call into a real "
             "FastSyncGroup program on the eBPF machine for every (counter byte, index byte within the age "
             "bound or 0, registered x output x writers enabled) and judges foreign frames; every table entry is "
             "re-run through a real kernel program array (1 221 quick / 27 658 thorough entries, 0 "
             "mismatches). Dispatcher.tla then explores exhaustively, breadth first, all histories of "
             "deliveries in any order, losses, injections, enabling and unregistering with at most three frames "
             "in flight: never dropped; foreign frames pass unchanged; frames of an unregistered group reach "
             "user space with the ethertype of the identification datagram; at most two consecutive deliveries "
             "without the group's program. Later widened: frames whose identification index agrees with a group number in its low 8 / 16 / 24 bits only (they must leave the group alone and reach user space); transitions that depend on the kernel's random number are judged with the value 0. Also the slots at the edges of the program table (0, 1, 31, 62, 63; thorough: all 64) compared row by row with the modelled group.",
        note="Age bound K = 4 (quick, 20 counter values across the 255->0 wrap) / 8 (thorough, all 256). User "
             "space injects only while the group is registered (as FastSyncGroup.run does). One recorded known "
             "finding: with out-of-order returns three consecutive deliveries go by without the group's program "
             "(reproduced on the real kernel); under FIFO delivery the clause holds and is checked as gating.",
        technique="TLC computes the transition table from the real dispatcher + group bytecode (kernel cross-checked); "
                  "exhaustive BFS over frame histories on that table",
        design_ref="5/C22"),

    "C04": dict(
        category="model_checking",
        text="VarFrame.tla is the reference: a store with one cell per declared variable in which a statement changes "
             "exactly one cell; temporaries, saved registers and spilled values do not exist in it. Programs are built "
             "with the real classes: a main XDP program with 1-5 locals of every format, array-map, hash-map and packet "
             "variables, optionally a Dict whose key and value members live on the stack, and 0-2 sub-program "
             "instances (of one class or of two) with their own locals and array-map variables; every stack variable "
             "is initialised, 2-9 random statements assign one variable from a constant, from a variable of the same "
             "format or from a variable plus a constant (hash-map accesses need key temporaries, spilled values and "
             "saved registers; Dict.update() reads the members), then the program itself copies every stack variable "
             "into an array variable of its own. TLC executes the emitted bytecode on the eBPF machine from random "
             "initial memory and compares every observable variable (array, hash and packet memory) with the store. Later widened: fixed-point members followed by narrow ones in Dict key / value structures.",
        note="Random programs (fixed seed plus a share following VERIF_SEED), not all programs; stack variables are "
             "observed through the program's own later reads, so a temporary reusing the slot of a variable nobody "
             "reads any more is not reported. A program that does not run to its end on the machine is not judged here "
             "(the same programs are part of C05's corpus). One recorded known finding (F34: sub-program instances "
             "share one stack frame) is matched exactly: the spec re-runs the statements on a second store in which "
             "only the sub-program locals share a byte memory at their real addresses, and the final values must be "
             "precisely that store's.",
        technique="TLA+ reference store VarFrame + TLC executing the real emitted bytecode on the eBPF machine "
                  "Ebpf.tla; per-program verdicts",
        design_ref="5/C04"),

    "C05": dict(
        category="model_checking",
        text="Three views of every program of a corpus of 1 685 (quick) distinct generator-accepted programs - the "
             "statement generators of C01, C03, C06 and C07, hash-variable, Dict update / lookup / Else, ktime, "
             "prandom, temporaries, sub-program and per-CPU programs, and the library's own dispatcher and fast "
             "sync groups with every bundled device: (1) BPF_PROG_LOAD by the running kernel's verifier, (2) "
             "Verifier.tla, the acceptance rules the generator relies on (unwritten registers, r0 at exit, NULL "
             "check after a lookup, packet access only inside a range proven against the packet end, stack "
             "bounds / alignment / initialisation, context access, helper argument types, byte-swap width, "
             "constant shifts and divisors, jump targets, pointer arithmetic) explored by TLC over ALL paths, (3) "
             "one concrete run on the eBPF machine. A kernel rejection is a violation; the model decides alone "
             "when bpf() is unavailable. The model and the kernel are calibrated in every run on deliberately "
             "broken bytecode that both must reject. The model is Verifier2.tla (Verifier.tla plus the corrections found by X10's differential testing against the kernel); the corpus also holds C02's, C04's and X08's programs and constant shifts at the edges of the operation's width. Also branches that leave the program (exit inside with / Else blocks, 9 kinds of condition), helper calls inside Dict lookup blocks, in-place adds next to multi-element and packed variables, and the byte-order / raw-memory statement families of C01 and C02.",
        note="Kernel and model agreed on every program of the corpus (1 676 accepted and 9 rejected by both before "
             "the repair of F33; all accepted after). The model keeps two portable rules this kernel has relaxed "
             "and has no scalar range tracking: model-only rejections would be reported as imprecision, not judged. "
             "The corpus is sampled, not all programs.",
        technique="TLA+ type-state model of the verifier's rules (Verifier.tla) explored by TLC over all paths; real "
                  "kernel verifier on the same bytecode; concrete runs on the eBPF machine",
        design_ref="5/C05"),
    "C08": dict(
        category="model_checking",
        text="Layout.tla (pairwise-disjoint byte ranges of exactly each variable's size inside the map) and Store.tla "
             "(abstract value per variable; PyWrite / PyRead / ProgRun; x as decimals with five digits, tuples for "
             "multi-element formats, one value per CPU for per-CPU maps). TLC enumerates declaration sets (up to 3 "
             "variables over 7 formats, up to 6 over 3 formats, seeded sets of 4-6) spread over base class / "
             "derived class incl. redeclared names / 0-2 sub-program instances; the real classes are built with "
             "type(), positions and map size read from the real objects and judged by TLC. Histories of Python "
             "writes, real emitted programs and Python reads run on the real kernel map (every program run "
             "repeated on the eBPF machine and compared) and in lock-step on the machine alone; TLC validates "
             "every history. Later widened: byte-order-prefixed formats and in-place `+=` / `-=` on every format. Later widened: composite formats (several letters, pad bytes, packed with a byte order or natively aligned) whose size is not a multiple of their alignment; Layout.tla computes sizes by struct's rules itself.",
        note="Declaration sets bounded as stated; histories sampled with fixed seeds. Conversions between fixed-point "
             "and integer variables belong to C01 / C02.",
        technique="TLA+ specs Layout + Store; TLC-enumerated declaration sets on the real classes; real programs on "
                  "kernel and eBPF machine; TLC trace validation",
        design_ref="5/C08"),
    "C09": dict(
        category="model_checking",
        text="Store.tla, hash part: every hash-map variable an independent 64-bit cell holding its declared default "
             "after load; a Dict a finite map from key structure to value structure with capacity; Structure "
             "layouts (Python data buffer versus the program's stack offsets) must denote the same byte positions. "
             "Fixed-seed random variable sets, Structures with packed members of all sizes, and insert / lookup / "
             "update / delete / pop / iteration sequences from both sides: program-side operations are real "
             "emitted programs (update(), lookup() with Else, member access through the looked-up pointer, "
             "variable get / set) run on the kernel and on the eBPF machine, Python-side operations the real "
             "classes on the real kernel map (or a fake kernel); TLC validates the merged history. Later widened: update flags by NAME on both sides (insert-only / modify-only judged by meaning), decimals whose float product falls below the integer in every fixed-point value pool. Also array-map variables and locals of any width and byte order assigned directly to hash variables. Also declarations split over base / extending / sibling classes, and program-side constants (whole numbers and decimals) assigned to fixed-point hash variables.",
        note="LRU Dicts are not compared (contents unspecified after updates). Out-of-range writes and concurrent "
             "writers are not covered.",
        technique="TLA+ spec Store (hash part) + Layout; real programs on kernel and eBPF machine; TLC trace validation",
        design_ref="5/C09"),
    "C10": dict(
        category="model_checking",
        text="BpfCalls.tla: a registry of created maps and, for every lookup / lookup-and-delete / update / delete / "
             "get-next-key event, the obligation key buffer >= key size and value buffer >= value size (per-CPU: "
             "value size rounded up to 8 times the number of POSSIBLE CPUs); model-checked exhaustively against a "
             "kernel model that stays inside the buffers iff the obligation holds. Every bpf() call reaching the "
             "library's single syscall wrapper is recorded with the measured lengths of the Python buffers behind "
             "it while the whole user-space API is driven (array maps, per-CPU read(), hash variables of every "
             "format, Dict set / get / pop / del / iteration) on fixed-seed randomly declared maps, on this host and "
             "on simulated hosts with more possible than online CPUs; TLC validates the event list. Later widened: a per-CPU map extended in a subclass with instances of both classes; simulated hosts answer every source of a CPU count consistently (possible >= online >= process affinity), and the real host pinned to one CPU. Also byte-order-prefixed formats in half of the declarations. Also hosts whose possible-CPU list has several ranges (0-3,8-11; 0,2-3): the spec counts the CPUs from the range list.",
        note="Trusts the fake kernel's transfer sizes (taken from kernel/bpf/syscall.c) and the frame walk that finds "
             "the buffers. mmap-ed array maps carry no obligation.",
        technique="TLA+ spec BpfCalls + TLC exhaustive model check; TLC trace validation of recorded bpf() events",
        design_ref="5/C10"),
}
NOT_YET = "not yet built in this round (planned in DESIGN.md section 5)"
NOT_APPLICABLE = {}
