"""C01 - integer DSL expressions compute the exact value.

Spec: spec/Dsl.tla (denotation, precondition) + spec/Codegen.tla over the eBPF machine (Ebpf.tla).
Binding: every statement is built with the real classes (harness/dslgen.py), the emitted bytecode
is executed by TLC from each input vector, and the destination's final bytes must be among the
admissible exact results reduced to the destination, whenever the property's precondition holds.

Enumeration (seed independent): all depth-1 binary trees over operand kinds x operators with a
rotating destination (quick: every third pair), all unary trees, plus fixed-seed random trees of
depth 2 (thorough: up to 3).  VERIF_SEED only adds extra random trees."""
import itertools
import json
import os
import random

from harness import tlc as T, dslgen as G

PROPERTY = "C01"
LEVEL = "model_checking"
BIN_OPS = ["add", "sub", "mul", "floordiv", "mod", "and", "or", "xor", "lsh", "rsh"]
VAR_FMTS = list("bBhHiIqQ")
LEAVES = [("var", f) for f in VAR_FMTS] + [("local", f) for f in "bHiQ"] + \
         [("reg", k) for k in ("r", "sr", "w", "sw")] + [("hash", f) for f in "BiQ"]
CONSTS = [1, 3, -1, -7, 0, 31, 2 ** 31 - 1, -2 ** 31, 2 ** 31, 2 ** 32 - 1, 2 ** 32, 2 ** 40 + 5,
          -(2 ** 40), 2 ** 63 - 1, -2 ** 63, 100000]
DSTS = [("var", f) for f in VAR_FMTS] + [("local", "I"), ("local", "q"), ("reg", "r"), ("reg", "sr"),
                                          ("reg", "w"), ("reg", "sw"), ("hash", "q"), ("hash", "I")]


def leaf_fmt(lf):
    return G.REG_SRC_FMT[lf[1]] if lf[0] == "reg" else lf[1]


def depth1(quick):
    """deterministic list of (tree, dst)"""
    out = []
    k = 0
    operands = LEAVES + [("const", None)]
    for op in BIN_OPS:
        for a, b in itertools.product(operands, operands):
            if a[0] == "const" and b[0] == "const":
                continue
            k += 1
            if quick and k % 3:
                continue
            c = CONSTS[k % len(CONSTS)]
            if op in ("lsh", "rsh") and b[0] == "const":
                c = [1, 3, 31, 0, 7, 63, 32, 17][k % 8]
            if op in ("floordiv", "mod") and b[0] == "const" and c == 0:
                c = 3
            l = ("const", c) if a[0] == "const" else a
            r = ("const", c) if b[0] == "const" else b
            out.append((("bin", op, l, r), DSTS[k % len(DSTS)]))
    for i, (u, lf) in enumerate(itertools.product(("neg", "abs"), LEAVES)):
        for j in range(1 if quick else 3):
            out.append(((u, lf), DSTS[(i * 5 + j * 7) % len(DSTS)]))
    return out


def register_plus_constant(quick):
    """`register + constant` of a 64-bit register is a class of its own in the generator (Sum, made for address
    arithmetic) with its own operators: every operator applied to such a sum, on either side, with the other
    operand a variable, a register or a constant.  Added when sequences of statements (X08) showed
    `(r + c) - x` computed as `(r + c) + x`; the random depth-2 trees had not met the shape."""
    out = []
    k = 0
    others = [("var", "Q"), ("var", "i"), ("var", "B"), ("reg", "r"), ("local", "q"), ("const", 9)]
    for kind, inner, c in itertools.product(("r", "sr"), ("add", "sub"), (5, -7, 100000)):
        for op in BIN_OPS:
            for o in others:
                k += 1
                if quick and k % 3:
                    continue
                sm = ("bin", inner, ("reg", kind), ("const", c))
                right = o if op not in ("lsh", "rsh") or o[0] != "const" else ("const", 3)
                out.append((("bin", op, sm, right), DSTS[k % len(DSTS)]))
                if o[0] != "const":
                    out.append((("bin", op, o, sm), DSTS[(k + 5) % len(DSTS)]))
    return out


def destination_inside_right_operand(quick):
    """the destination register occurs in the RIGHT operand, plainly or under unary minus / abs or inside a deeper
    subtree: `r3 = b - r3`, `r3 = b - (-r3)`, `r3 = b * abs(r3)`, `r3 = b - (r3 + 1)`.  The generator must keep the
    register's old value until the right operand has been evaluated.  (Two seeded changes lived here: the width of
    the final register move, and the unary classes no longer reporting which registers they contain.)"""
    out = []
    k = 0
    lefts = [("var", "Q"), ("var", "b"), ("reg", "w"), ("const", 100), ("local", "q")]
    for kind in ("r", "sr", "w"):
        reg = ("reg", kind)
        rights = [reg, ("neg", reg), ("abs", reg), ("bin", "add", reg, ("const", 1)), ("bin", "mul", ("neg", reg), ("var", "B")),
                  ("neg", ("bin", "sub", reg, ("const", 3)))]
        for op in ("add", "sub", "mul", "and", "or", "xor"):
            for left in lefts:
                for right in rights:
                    k += 1
                    if quick and k % 4:
                        continue
                    out.append((("bin", op, left, right), ("reg", kind, "alias")))
    return out


BO_LEAVES = [("var", ">h"), ("var", ">H"), ("var", "<i"), ("var", ">I"), ("var", "!q"), ("var", ">Q"),
             ("local", ">i"), ("local", "<Q"), ("local", ">h")]
BO_DSTS = [("var", ">q"), ("var", "<Q"), ("var", "!q"), ("var", ">i"), ("var", ">H"), ("var", "<h"),
           ("local", ">q"), ("local", "!I")]


def byte_order_variables(quick):
    """variables declared with a byte order (">h", "<Q", "!q"; array-map and local): as operands they are swapped
    and sign-extended after loading, as destinations the value is computed in the destination's width and swapped
    before the store.  (A seeded change computed a byte-ordered 8-byte destination in 32 bits; no check had a
    byte-ordered variable outside packets.)"""
    out = []
    native = [("bin", "add", ("var", "h"), ("var", "b")), ("bin", "sub", ("var", "I"), ("var", "I")),
              ("bin", "mul", ("var", "I"), ("var", "I")), ("neg", ("var", "h")), ("var", "i"), ("var", "Q"),
              ("bin", "add", ("reg", "sr"), ("const", 2 ** 33)), ("bin", "lsh", ("var", "B"), ("const", 35))]
    k = 0
    for d in BO_DSTS:
        for t in native:
            k += 1
            if not quick or (k + BO_DSTS.index(d)) % 2:
                out.append((t, d))
    dsts = [("var", "q"), ("var", "I"), ("reg", "sr"), ("hash", "q"), ("var", ">q"), ("local", "!I")]
    for li, lf in enumerate(BO_LEAVES):
        trees = [lf, ("bin", "add", lf, ("var", "h")), ("bin", "rsh", lf, ("const", 3)), ("neg", lf),
                 ("bin", "sub", ("var", "B"), lf), ("bin", "mul", lf, BO_LEAVES[(li + 4) % len(BO_LEAVES)])]
        for ti, t in enumerate(trees):
            for di, d in enumerate(dsts):
                if not quick or (li + ti + di) % 2 == 0:
                    out.append((t, d))
    return out


def random_tree(rng, depth):
    if depth == 0 or rng.random() < 0.15:
        if rng.random() < 0.2:
            return ("const", rng.choice(CONSTS))
        return rng.choice(LEAVES)
    c = rng.random()
    if c < 0.12:
        return (rng.choice(("neg", "abs")), random_tree(rng, depth - 1))
    op = rng.choice(BIN_OPS)
    l, r = random_tree(rng, depth - 1), random_tree(rng, depth - 1)
    if l[0] == "const" and r[0] == "const":
        l = rng.choice(LEAVES)
    if op in ("lsh", "rsh") and rng.random() < 0.7:
        r = ("const", rng.choice([0, 1, 2, 5, 8, 16, 31]))
    return ("bin", op, l, r)


def vectors(rng, st, tree, count):
    """input vectors: small positives, small negatives, then boundary / random mixes"""
    lv = G.leaves_of(tree)
    out = [[(3 + 4 * i) % 11 + 1 for i in range(len(lv))],
           [-((2 + 5 * i) % 9 + 1) for i in range(len(lv))]]
    # top bit of the first operand's own width set, every other operand a small positive number: the
    # corner where signedness of shifts, divisions and extensions shows (added after an independently seeded
    # change - unsigned >> signed amount emitted as an arithmetic shift - was caught by only 2 runs)
    out.append([((1 << (8 * st["inputs"][0][1] - 1)) | 0x10) if i == 0 else (i % 3) + 1
                for i in range(len(lv))])
    count += 1
    while len(out) < count:
        v = []
        for (off, size, signed, *_) in st["inputs"]:
            c = rng.random()
            if c < 0.5:
                v.append(rng.choice(G.boundary(size, signed)))
            elif c < 0.75:
                v.append(rng.randrange(0, 40))
            else:
                v.append(rng.getrandbits(8 * size))
        out.append(v)
    return out


def tree_has(tree, kinds):
    if tree[0] == "bin":
        return tree[1] in kinds or tree_has(tree[2], kinds) or tree_has(tree[3], kinds)
    if tree[0] in ("neg", "abs"):
        return tree[0] in kinds or tree_has(tree[1], kinds)
    return False


def run(ctx):
    fixed = random.Random(20260922)
    stmts = depth1(ctx.quick) + register_plus_constant(ctx.quick) + destination_inside_right_operand(ctx.quick) + \
        byte_order_variables(ctx.quick)
    for _ in range(300 if ctx.quick else 2500):
        stmts.append((random_tree(fixed, 2 if ctx.quick or fixed.random() < 0.6 else 3), fixed.choice(DSTS)))
    for _ in range(60 if ctx.quick else 400):
        stmts.append((random_tree(ctx.rng, 2), ctx.rng.choice(DSTS)))
    nvec = 4 if ctx.quick else 7
    cases, meta, refused = [], [], []
    vrng = random.Random(77)
    for si, (tree, dst) in enumerate(stmts):
        # every fourth statement sits inside the block of a temporary (which then occupies a register, usually r0)
        scope = (None, "stmp", None, None, None, "tmp", None, None)[si % 8]
        # a register destination that is also an operand (`r3 = 10 - r3`): every second such statement
        alias = dst[0] == "reg" and (si % 2 == 0 or len(dst) > 2)
        dst = dst[:2]
        try:
            st = G.statement(tree, dst, scope=scope, alias_dst=alias)
        except G.NotGenerated as e:
            refused.append((repr(tree), repr(dst), str(e)[:120]))
            continue
        for vals in vectors(vrng, st, tree, nvec):
            cases.append(G.case(st, vals))
            meta.append(dict(tree=tree, dst=dst, values=vals, depth=G.depth_of(tree), scope=scope, dst_is_operand=alias))
    if not cases:
        raise T.MachineryError("no C01 case could be built")
    wd = ctx.workdir()
    verdict = {}
    PAR = 12                              # cases are independent: several single-worker TLC processes side by side
    CH = max(1, -(-len(cases) // PAR))

    def chunk(start):
        path = os.path.join(wd, f"cases{start}.json")
        json.dump(cases[start:start + CH], open(path, "w"))
        res = T.run(wd, "Codegen", "Codegen.cfg", timeout=3000, deadlock=False, env={"TRACE_FILE": path}, workers=1)
        os.remove(path)
        return start, res
    from concurrent.futures import ThreadPoolExecutor
    with ThreadPoolExecutor(PAR) as ex:
        results = list(ex.map(chunk, range(0, len(cases), CH)))
    for start, res in results:
        if res.error:
            raise T.MachineryError("Codegen failed:\n" + res.error[:3000])
        ctx.tlc_stats(res)
        for rec in T.printed_records(res, "VERDICT"):
            verdict[start + rec[0]] = rec[1:]
    counts = dict(ok=0, skipped=0, wrong=0, fault=0)
    for i, m in enumerate(meta, 1):
        v = verdict.get(i)
        if v is None:
            raise T.MachineryError(f"no verdict for case {i}: {m}")
        kind, st_, observed, expected, sdn, uon, swn = v
        counts[kind] += 1
        ctx.traces += 1
        ctx.evaluated((repr(m["tree"]), repr(m["dst"]), tuple(m["values"])), nontrivial=kind != "skipped")
        if kind == "ok" and i % 997 == 3:
            ctx.sample(dict(tree=m["tree"], dst=m["dst"], values=m["values"], verdict=kind))
        if kind in ("wrong", "fault"):
            case = dict(tree=m["tree"], dst=m["dst"], values=m["values"], depth=m["depth"], verdict=kind,
                        status=st_, observed=observed, admissible=expected,
                        signed_div_neg=sdn, unary_on_narrow=uon, sw_negative=swn,
                        dst_size=(4 if m['dst'][1] in ('w', 'sw') else 8) if m['dst'][0] == 'reg' else G.fsize(m['dst'][1]),
                        has_div=tree_has(m["tree"], ("floordiv", "mod")),
                        has_unary=tree_has(m["tree"], ("neg", "abs")))
            ctx.case_failed(case, f"{m['tree']} -> {m['dst']} on {m['values']}: {kind} "
                                  f"{st_ or ''} observed {observed} admissible {expected}")
    ctx.exhaustive = False
    ctx.rule = ("depth-1 binary trees over 17 operand kinds (8 variable formats, 4 locals, 4 register "
                "views, constants) x 10 operators with rotating destinations, all unary trees, fixed-seed "
                "random trees of depth 2-3, each on several input vectors (small, negative, boundary, "
                "random); non-trivial = inside the property's precondition (not skipped)")
    ctx.extra.update(verdicts=counts, statements=len(stmts), refused=len(refused), refused_examples=refused[:8],
                     vectors_per_statement=nvec)
    ctx.assumptions += ["spec/Ebpf.tla is the ISA (cross-checked against the kernel, harness/fidelity.py)",
                        "the precondition is read conservatively (DESIGN.md 5/C01): a case outside it is "
                        "skipped, never judged"]
