"""C26 - the fast Motor device commands exactly its limited control law.

Spec: spec/Motor.tla (the law on exact integers + its consequences), spec/MC_Motor.tla (the
consequences, exhaustively on a small grid), spec/MotorRun.tla over spec/Ebpf.tla (the binding).
The program the REAL generator emits for FastSyncGroup([Motor]) linked to the bundled EL7041 is
executed by TLC on every input of a boundary grid + seeded random inputs; the expected command is
computed in the spec from the memory the program starts on."""
import random

from harness import tlc as T, progs, pvgroup as FG

PROPERTY = "C26"
LEVEL = "model_checking"

U32 = 2 ** 32
I16MAX = 32767


# ---- the real group -----------------------------------------------------------------------------

LAYOUTS = {
    # the map an EL7041 reports for out_pdos 1601/1602/1604 and in_pdos 1A01/1A03 (ENC control 6
    # bytes, STM control 2, STM velocity 2; ENC status 2 + counter 4 + latch 4, STM status 2)
    "fmmu": dict(use_fmmu=True, position=5, in_sz=12, out_sz=10,
                 pdos={(0x7010, 1): ("OUT", 6, 0), (0x7010, 2): ("OUT", 6, 1), (0x7010, 3): ("OUT", 6, 2),
                       (0x7010, 0x21): ("OUT", 8, "H"),
                       (0x6000, 0x11): ("IN", 2, "I"),
                       (0x6010, 1): ("IN", 10, 0), (0x6010, 2): ("IN", 10, 1), (0x6010, 4): ("IN", 10, 3),
                       (0x6010, 0xc): ("IN", 11, 3), (0x6010, 0xd): ("IN", 11, 4)}),
    # the same entries at other places, addressed without FMMU (two datagrams of its own)
    "nofmmu": dict(use_fmmu=False, position=9, in_sz=9, out_sz=5,
                   pdos={(0x7010, 1): ("OUT", 0, 5), (0x7010, 2): ("OUT", 0, 6), (0x7010, 3): ("OUT", 0, 7),
                         (0x7010, 0x21): ("OUT", 3, "H"),
                         (0x6000, 0x11): ("IN", 5, "I"),
                         (0x6010, 1): ("IN", 0, 0), (0x6010, 2): ("IN", 0, 1), (0x6010, 4): ("IN", 0, 3),
                         (0x6010, 0xc): ("IN", 1, 0), (0x6010, 0xd): ("IN", 1, 7)}),
}
FMTSZ = {"b": 1, "B": 1, "h": 2, "H": 2, "i": 4, "I": 4, "q": 8, "Q": 8}


def build(layout):
    """FastSyncGroup([Motor]) on an EL7041 with a hand-written PDO map; returns (Built, mot, frame)
    where mot says where each quantity lives and in which format the real declarations give it"""
    from ebpfcat.ethercat import SyncManager
    from ebpfcat.terminals import EL7041
    from ebpfcat.devices import Motor
    L = LAYOUTS[layout]
    sm = {"IN": SyncManager.IN, "OUT": SyncManager.OUT}
    ec = FG.simple_ec()
    t = EL7041(ec)
    t.position = L["position"]
    t.use_fmmu = L["use_fmmu"]
    t.pdo_in_sz, t.pdo_out_sz = L["in_sz"], L["out_sz"]
    t.pdo_in_off, t.pdo_out_off = 0x1100, 0x1000
    t.pdos = {k: (sm[s], off, what) for k, (s, off, what) in L["pdos"].items()}
    m = Motor()
    m.velocity = t.velocity
    m.encoder = t.stepcounter
    m.low_switch = t.low_switch
    m.high_switch = t.high_switch
    m.enable = t.enable
    b = FG.build_fast(ec, [m])
    sg = b.inst
    frame = bytes(FG.ETH) + sg.packet.assemble(0)
    # where the terminal's regions are, read off the frame itself
    dgs = FG.datagrams(frame, FG.ETH)
    if L["use_fmmu"]:
        (rd,) = [d for d in dgs if d[0] == 10]          # LRD
        (wr,) = [d for d in dgs if d[0] == 11]          # LWR
    else:
        (rd,) = [d for d in dgs if d[0] == 4]           # FPRD
        (wr,) = [d for d in dgs if d[0] == 5]           # FPWR
    if rd[3] != L["in_sz"] or wr[3] != L["out_sz"]:
        raise T.MachineryError(f"unexpected frame layout {dgs}")
    base = {"IN": rd[2], "OUT": wr[2]}

    def fmt_of(desc, key):                 # the format the terminal class declares, else the map's
        return desc.size if desc.size is not None else L["pdos"][key][2]

    def var(desc):
        key = (desc.index, desc.subindex)
        s, off, _ = L["pdos"][key]
        f = fmt_of(desc, key)
        if isinstance(f, int):
            return dict(off=base[s] + off, bit=f)
        return dict(off=base[s] + off, n=FMTSZ[f], s=int(f.islower()))

    def prop(name):
        f = getattr(Motor, name).fmt
        return dict(off=m.__dict__[name], n=FMTSZ[f], s=int(f.islower()))

    mot = dict(fd=1, target=prop("target"), gain=prop("proportional"), acc=prop("max_acceleration"),
               vmax=prop("max_velocity"), sen=prop("set_enable"),
               pos=var(EL7041.stepcounter), vel=var(EL7041.velocity),
               low=var(EL7041.low_switch), high=var(EL7041.high_switch), en=var(EL7041.enable))
    wkc = dict(off=sg.__dict__["wkc_errors"], n=4)
    return b, mot, frame, wkc, (rd, wr)


# ---- inputs ---------------------------------------------------------------------------------------

def fits(v, lo, hi):
    return lo <= v <= hi


def split_diff(diff, alt):
    """(target, position) with target - position = diff, target unsigned 32, position signed 32"""
    if alt == 1 and fits(diff - 1, 0, U32 - 1):
        return diff - 1, -1
    if alt == 2 and fits(diff + 2 ** 31 - 1, 0, U32 - 1):
        return diff + 2 ** 31 - 1, 2 ** 31 - 1
    if diff >= 0:
        return (diff, 0) if diff < U32 else (U32 - 1, -(diff - (U32 - 1)))
    return 0, -diff


GAINS = [1, 2, 3, 7, 1000, 65536, 2 ** 31, 2 ** 31 - 1, U32 - 1, 1532540863, 649657]


def realise(d, alt):
    """inputs (target, pos, gain) whose desired velocity is exactly d, or None"""
    order = GAINS[alt % 3:] + GAINS[:alt % 3] if alt else GAINS
    for g in order:
        if d % g:
            continue
        diff = d // g
        if -(2 ** 31 - 1) <= diff <= U32 - 1 + 2 ** 31:
            t, p = split_diff(diff, alt)
            if fits(t, 0, U32 - 1) and fits(p, -2 ** 31, 2 ** 31 - 1):
                return t, p, g
    return None


def grid():
    """the deterministic boundary grid (thorough = all of it, quick = every 13th)"""
    out = []
    n = 0
    for vmax in (0, 1, 256, 1000, I16MAX - 1, I16MAX):
        prevs = sorted({p for p in (-vmax, -vmax + 1, -1, 0, 1, vmax - 1, vmax) if abs(p) <= vmax})
        accs = sorted({0, 1, 50, I16MAX - vmax, I16MAX + 1 - vmax, I16MAX + 1, 65535, 65536,
                       2 ** 31 - 1, 2 ** 31, U32 - 1})
        for prev in prevs:
            for acc in accs:
                aimed = sorted({x + e for x in (prev - acc, prev + acc, -vmax, vmax, 0) for e in (-1, 0, 1)})
                far = [s * x for x in (I16MAX, I16MAX + 1, I16MAX + 2, 65536, 100000, 2 ** 31, U32)
                       for s in (1, -1)] + [2 ** 63 - 1, -(2 ** 63) + 2 ** 31]
                for d in aimed:
                    for sw in range(4):
                        r = realise(d, n % 3)
                        n += 1
                        if r:
                            out.append(dict(zip(("target", "pos", "gain"), r), acc=acc, vmax=vmax,
                                            prev=prev, low=sw & 1, high=sw >> 1, fam="aimed"))
                for d in far:
                    r = realise(d, n % 3)
                    n += 1
                    if r:
                        out.append(dict(zip(("target", "pos", "gain"), r), acc=acc, vmax=vmax, prev=prev,
                                        low=n & 1, high=(n >> 1) & 1, fam="far"))
    # raw extremes of the three inputs of the product
    for vmax in (1000, I16MAX):
        for prev in (-vmax, 0, vmax):
            for acc in (1, I16MAX + 1, U32 - 1):
                for target in (0, 1, 2 ** 31 - 1, 2 ** 31, U32 - 1):
                    for pos in (-2 ** 31, -1, 0, 1, 2 ** 31 - 1):
                        for gain in (0, 1, 2, 2 ** 31 - 1, 2 ** 31, U32 - 1):
                            n += 1
                            if fits(gain * (target - pos), -2 ** 63, 2 ** 63 - 1):
                                out.append(dict(target=target, pos=pos, gain=gain, acc=acc, vmax=vmax,
                                                prev=prev, low=n & 1, high=(n >> 1) & 1, fam="raw"))
    return out


def logu(rng, top):
    """random magnitude with a log-uniform number of bits"""
    bits = rng.randrange(0, top.bit_length() + 1)
    return min(top, rng.randrange(1 << bits) if bits else 0)


def randoms(rng, count):
    out = []
    while len(out) < count:
        vmax = rng.choice((logu(rng, I16MAX), rng.randrange(I16MAX + 1)))
        prev = rng.randint(-vmax, vmax)
        acc = logu(rng, U32 - 1)
        gain = logu(rng, U32 - 1)
        target = rng.choice((logu(rng, U32 - 1), rng.randrange(U32)))
        pos = rng.choice((1, -1)) * logu(rng, 2 ** 31 - 1)
        if rng.random() < .3:                           # near the target: the interesting region
            pos = max(-2 ** 31, min(2 ** 31 - 1, min(target, 2 ** 31 - 1) - rng.randint(-40, 40)))
        if not fits(gain * (target - pos), -2 ** 63, 2 ** 63 - 1):
            continue
        out.append(dict(target=target, pos=pos, gain=gain, acc=acc, vmax=vmax, prev=prev,
                        low=rng.randrange(2), high=rng.randrange(2), fam="random"))
    return out


# ---- cases ------------------------------------------------------------------------------------------

def put(buf, v, value):
    buf[v["off"]:v["off"] + v["n"]] = (value % (1 << (8 * v["n"]))).to_bytes(v["n"], "little")


def putbit(buf, b, value):
    buf[b["off"]] = (buf[b["off"]] & ~(1 << b["bit"])) | (bool(value) << b["bit"])


def make_case(built, inp, fill):
    """fill: Random used for everything the property does not talk about (other frame bytes,
    set_enable, the counter of enabling passes)"""
    b, mot, frame, wkc, (rd, wr) = built
    pkt = bytearray(frame)
    for d in (rd, wr):                                   # process data of both regions: arbitrary
        pkt[d[2]:d[2] + d[3]] = bytes(fill.randrange(256) for _ in range(d[3]))
    put(pkt, mot["pos"], inp["pos"])
    put(pkt, mot["vel"], inp["prev"])
    putbit(pkt, mot["low"], inp["low"])
    putbit(pkt, mot["high"], inp["high"])
    props = bytearray(b.maps[0]["vs"])
    for name, key in (("target", "target"), ("gain", "gain"), ("acc", "acc"), ("vmax", "vmax")):
        put(props, mot[name], inp[key])
    sen = fill.choice((0, 0, 1, 1, 2, 256, U32 - 1, fill.randrange(U32)))
    put(props, mot["sen"], sen)
    put(props, wkc, fill.choice((1, 1, 2, 77, U32 - 1)))      # non-zero: the outputs are enabled
    c = progs.case(b, pkt=bytes(pkt), arr={1: bytes(props)}, fuel=600)
    c["mot"] = mot
    return c, sen


def kernel_crosscheck(ctx, builts, cases, meta, verdicts):
    """machine = kernel on the Motor program itself: a sample of the cases (every 23rd) is also run
    by the real kernel (BPF_PROG_TEST_RUN on the loaded program with the same map contents); the
    velocity bytes must be the ones the machine produced.  Not a verdict on the code: a mismatch is a
    machinery failure, absence of a usable kernel only drops the cross-check."""
    import os
    from harness import kernel
    if not kernel.available():
        ctx.extra["kernel_crosscheck"] = "kernel not usable"
        return
    fds, n = {}, 0
    try:
        for name, built in builts.items():
            fds[name] = kernel.prog_load(built[0].code)
        for i in range(0, len(cases), 23):
            c, m = cases[i], meta[i]
            b, mot = builts[m["layout"]][0], builts[m["layout"]][1]
            kernel.map_update(b.maps[0]["fd"], bytes(4), bytes(c["arr"][0]["bytes"]))
            rv, out = kernel.test_run(fds[m["layout"]], bytes(c["pkt"]))
            got = list(out[mot["vel"]["off"]:mot["vel"]["off"] + mot["vel"]["n"]])
            if got != verdicts[i + 1][0][5] or rv != 3:
                raise T.MachineryError(f"machine and kernel disagree on {m}: kernel {got} rv={rv}, "
                                       f"machine {verdicts[i + 1][0][5]}")
            n += 1
    except kernel.VerifierReject as e:
        ctx.extra["kernel_crosscheck"] = f"verifier rejected the Motor program: {e}"[:300]
        return
    finally:
        for fd in fds.values():
            os.close(fd)
    ctx.extra["kernel_crosscheck"] = f"{n} cases also run by the kernel: same velocity bytes as the machine"


def law(i):
    """used ONLY to describe a failing case for the defect predicate (never to judge)"""
    d = i["gain"] * (i["target"] - i["pos"])
    return max(i["prev"] - i["acc"], min(i["prev"] + i["acc"], d))


def run(ctx):
    # 1. the consequences of the law, exhaustively on a small grid
    wd = ctx.workdir()
    c = (2, 1, 2, 3, 3) if ctx.quick else (3, 2, 3, 5, 4)
    T.write_cfg(wd, "MC_Motor_t.cfg",
                "INIT Init\nNEXT Next\nCONSTANTS\n  TMax = %d\n  PMax = %d\n  GMax = %d\n  AMax = %d\n"
                "  VMax = %d\nINVARIANTS PreHolds\n LawIsIntLaw\n ConsequencesHold\n IntConsequences\n"
                "CHECK_DEADLOCK FALSE\n" % c)
    res = T.run(wd, "MC_Motor", "MC_Motor_t.cfg", workers=4, timeout=900, deadlock=False)
    T.require_clean(res, "MC_Motor")
    ctx.tlc_stats(res)
    if not res.ok:
        ctx.case_failed(dict(kind="law-theorem", violated=res.invariant_violated),
                        "a consequence the property draws from the law fails on the small grid:\n"
                        + res.counterexample()[:1500])
    ctx.extra["law_grid_states"] = res.distinct

    # 2. the emitted program against the law
    try:
        builts = {name: build(name) for name in LAYOUTS}
    except T.MachineryError:
        raise
    except Exception as e:                               # the property requires a program: a case result
        ctx.evaluated("build", nontrivial=True)
        ctx.case_failed(dict(kind="not-built", error=f"{type(e).__name__}: {e}"),
                        f"FastSyncGroup([Motor]) on an EL7041 cannot be assembled: {type(e).__name__}: {e}")
        return
    g = grid()
    ctx.extra["grid_size_full"] = len(g)
    inputs = g[::13] if ctx.quick else g
    inputs = inputs + randoms(ctx.rng, 300 if ctx.quick else 2000)
    fill = random.Random(2626)                           # seed-independent filler for the grid
    cases, meta = [], []
    for n, inp in enumerate(inputs):
        layout = "fmmu" if n % 3 else "nofmmu"
        cs, sen = make_case(builts[layout], inp, fill if inp["fam"] != "random" else ctx.rng)
        cases.append(cs)
        meta.append(dict(inp, layout=layout, set_enable=sen))
    verdicts = FG.run_sharded(ctx, "MotorRun", "MotorRunObserve.cfg", cases, "VERDICT",
                              shards=8)
    ctx.rule = ("boundary grid of (desired velocity aimed at each limit -1/0/+1 and far beyond the output's "
                "range, acceleration limit, velocity limit, previous velocity, switches) pruned by the "
                "property's preconditions (quick: every 13th) + seeded random inputs, on two PDO layouts; "
                "non-trivial = preconditions hold (TLC's judgement) and the law's three stages do not all "
                "coincide with the desired velocity")
    ctx.assumptions.append("the group's outputs are enabled (wkc_errors != 0), as after SyncGroupBase.run's "
                           "start-up; with wkc_errors == 0 the device programs are not executed")
    ctx.extra["layouts"] = sorted(LAYOUTS)
    kernel_crosscheck(ctx, builts, cases, meta, verdicts)
    for i, m in enumerate(meta, 1):
        v = verdicts.get(i)
        if not v or len(v) != 1:
            raise T.MachineryError(f"{0 if not v else len(v)} verdicts for case {i}: {m}")
        pre, commanded, enable, thm, st, got, exp, accfits = v[0]
        ctx.traces += 1
        key = tuple(m[k] for k in ("target", "pos", "gain", "acc", "vmax", "prev", "low", "high", "layout"))
        d = m["gain"] * (m["target"] - m["pos"])
        ctx.evaluated(key, nontrivial=bool(pre) and not (law(m) == d and abs(d) <= m["vmax"]
                                                          and not (m["low"] and d < 0)
                                                          and not (m["high"] and d > 0)))
        if i % 499 == 1:
            ctx.sample(dict(m, velocity_bytes=got, expected_bytes=exp))
        case = dict(m, desired=d, acc_limited=law(m), acc_limited_fits_output=accfits,
                    final=st, velocity_bytes=got, expected_bytes=exp, precondition=pre)
        if not pre and m["fam"] != "random":
            raise T.MachineryError(f"grid case outside the preconditions according to TLC: {m}")
        if not thm:
            ctx.case_failed(dict(case, kind="law-theorem"), f"consequences of the law fail on {m}")
        if not commanded:
            ctx.case_failed(dict(case, kind="velocity"),
                            f"Motor program wrote velocity bytes {got} (final state {st}), the law gives "
                            f"{exp}: target={m['target']} pos={m['pos']} gain={m['gain']} acc={m['acc']} "
                            f"vmax={m['vmax']} prev={m['prev']} low={m['low']} high={m['high']} "
                            f"(desired {d}, acceleration-limited {law(m)})")
        if not enable:
            ctx.case_failed(dict(case, kind="enable"),
                            f"enable bit does not follow set_enable={m['set_enable']} (final state {st})")


# ---- defect classes seen on the unchanged tree (for tallying failures; not used for judging) -------

DEFECT_PREDICATES = {
    # F14: Motor.program stores the acceleration-limited value into the 16-bit output BEFORE clamping
    # it to the velocity limit, so it wraps whenever it does not fit the output
    "F14-stored-before-velocity-clamp":
        lambda case: case.get("kind") == "velocity" and case["acc_limited_fits_output"] is False,
}
