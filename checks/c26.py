"""C26 - the fast Motor device commands exactly its limited control law.

Spec: spec/Motor.tla (the law on exact integers + its consequences), spec/MC_Motor.tla (the
consequences, exhaustively on a small grid), spec/MotorRun.tla over spec/Ebpf.tla (the binding).
The program the REAL generator emits for FastSyncGroup([Motor]) linked to EVERY bundled terminal a
Motor can be linked to (EL7041, EL7332 channels, EL7062 channels; encoder of the same terminal, of an
EL5042 or of an EL7041; PDO tables from the package's own parse_pdos over the device's CoE
dictionary, harness/motorterms.py) is executed by TLC on every input of a boundary grid + seeded
random inputs; the expected command is computed in the spec from the memory the program starts on.
What the bytes of the frame MEAN (velocity and position are signed numbers of the mapped width) comes
from the device description, not from the terminal class under test."""
import random

from harness import tlc as T, progs, pvgroup as FG

PROPERTY = "C26"
LEVEL = "model_checking"

U32 = 2 ** 32
I16MAX = 32767


# ---- the real groups --------------------------------------------------------------------------------
# Every bundled terminal class a Motor can be linked to (harness/motorterms.py): EL7041, both
# channels of the EL7332 (encoder from another bundled terminal) and of the EL7062.  The terminal
# objects are the bundled classes; their PDO tables come from the package's own parse_pdos over the
# device's CoE dictionary (one EL7041 layout keeps a hand-written table at other places, addressed without FMMU).  Where a
# quantity lives and what it is (velocity and position: SIGNED numbers of the mapped width) is taken
# from the device description, never from the class under test.

HAND = {
    "direct": dict(in_sz=9, out_sz=5,
                   pdos={(0x7010, 1): ("OUT", 0, 5), (0x7010, 2): ("OUT", 0, 6), (0x7010, 3): ("OUT", 0, 7),
                         (0x7010, 0x21): ("OUT", 3, "H"),
                         (0x6000, 0x11): ("IN", 5, "I"),
                         (0x6010, 1): ("IN", 0, 0), (0x6010, 2): ("IN", 0, 1), (0x6010, 4): ("IN", 0, 3),
                         (0x6010, 0xc): ("IN", 1, 0), (0x6010, 0xd): ("IN", 1, 7)}),
}
LAYOUTS = {
    "EL7041/hand-direct": dict(motor=("EL7041", 1), fmmu=False, position=9, hand="direct"),
    "EL7041": dict(motor=("EL7041", 1), fmmu=True, position=3),
    "EL7332.1+EL5042.2": dict(motor=("EL7332", 1), fmmu=True, position=7,
                              encoder=dict(kind="EL5042", chan=2, fmmu=False, position=9)),
    "EL7332.2+EL7041": dict(motor=("EL7332", 2), fmmu=False, position=12,
                            encoder=dict(kind="EL7041", chan=1, fmmu=True, position=4)),
    "EL7062.1": dict(motor=("EL7062", 1), fmmu=True, position=2),
    "EL7062.2": dict(motor=("EL7062", 2), fmmu=False, position=6),
}
FMTSZ = {"b": 1, "B": 1, "h": 2, "H": 2, "i": 4, "I": 4, "q": 8, "Q": 8}


def build(layout):
    """FastSyncGroup([Motor]) on the layout's bundled terminals; returns dict(b, mot, frame, wkc, dgs,
    outbits, posbits): mot says where each quantity lives and what it is"""
    from ebpfcat.devices import Motor
    from harness import motorterms as MT
    L = LAYOUTS[layout]
    kind, chan = L["motor"]
    ec = FG.simple_ec()
    mt, mwhere = MT.make_terminal(ec, kind, L["position"], L["fmmu"], 0x1100, 0x1000,
                                  hand=HAND[L["hand"]] if L.get("hand") else None)
    descr = [dict(position=mt.position, use_fmmu=mt.use_fmmu, in_sz=mt.pdo_in_sz, out_sz=mt.pdo_out_sz,
                  in_off=0x1100, out_off=0x1000, rw=True)]
    enc = L.get("encoder")
    if enc:
        et, ewhere = MT.make_terminal(ec, enc["kind"], enc["position"], enc["fmmu"], 0x1180, 0x1080)
        ekind, echan, eno = enc["kind"], enc["chan"], 1
        descr.append(dict(position=et.position, use_fmmu=et.use_fmmu, in_sz=et.pdo_in_sz,
                          out_sz=et.pdo_out_sz, in_off=0x1180, out_off=0x1080, rw=False))
    else:
        et, ewhere, ekind, echan, eno = mt, mwhere, kind, chan, 0
    m = Motor()
    ch = MT.channel(mt, kind, chan)
    m.velocity = getattr(ch, MT.attr_name(kind, "velocity"))
    m.low_switch = getattr(ch, MT.attr_name(kind, "low"))
    m.high_switch = getattr(ch, MT.attr_name(kind, "high"))
    m.enable = getattr(ch, MT.attr_name(kind, "enable"))
    m.encoder = getattr(MT.channel(et, ekind, echan), MT.attr_name(ekind, "counter"))
    b = FG.build_fast(ec, [m])
    sg = b.inst
    frame = bytes(FG.ETH) + sg.packet.assemble(0)
    reg, dgs = MT.regions(frame, descr, FG.ETH)          # the regions, read off the frame itself

    def var(tno, where, role, signed=None):
        sm, byte, bit, nbytes = MT.locate(where, role)
        if nbytes is None:
            return dict(off=reg[tno, sm] + byte, bit=bit)
        return dict(off=reg[tno, sm] + byte, n=nbytes, s=signed)

    def prop(name):
        f = getattr(Motor, name).fmt
        return dict(off=m.__dict__[name], n=FMTSZ[f], s=int(f.islower()))

    R, ER = MT.ROLES[kind][chan], MT.ROLES[ekind][echan]
    mot = dict(fd=1, target=prop("target"), gain=prop("proportional"), acc=prop("max_acceleration"),
               vmax=prop("max_velocity"), sen=prop("set_enable"),
               pos=var(eno, ewhere, ER["counter"], 1), vel=var(0, mwhere, R["velocity"], 1),
               low=var(0, mwhere, R["low"]), high=var(0, mwhere, R["high"]), en=var(0, mwhere, R["enable"]))
    wkc = dict(off=sg.__dict__["wkc_errors"], n=4)
    return dict(b=b, mot=mot, frame=frame, wkc=wkc, dgs=dgs, outbits=8 * mot["vel"]["n"],
                posbits=8 * mot["pos"]["n"])


# ---- inputs ---------------------------------------------------------------------------------------

def fits(v, lo, hi):
    return lo <= v <= hi


def split_diff(diff, alt, posbits=32):
    """(target, position) with target - position = diff, target unsigned 32, position signed"""
    pmax = 2 ** (posbits - 1) - 1
    if posbits > 32 and alt == 0:                         # a position far outside 32 bits
        t = U32 - 1 - (abs(diff) % 1000)
        if fits(t - diff, -pmax - 1, pmax):
            return t, t - diff
    if alt == 1 and fits(diff - 1, 0, U32 - 1):
        return diff - 1, -1
    if alt == 2 and fits(diff + 2 ** 31 - 1, 0, U32 - 1):
        return diff + 2 ** 31 - 1, 2 ** 31 - 1
    if diff >= 0:
        return (diff, 0) if diff < U32 else (U32 - 1, -(diff - (U32 - 1)))
    return 0, -diff


GAINS = [1, 2, 3, 7, 1000, 65536, 2 ** 31, 2 ** 31 - 1, U32 - 1, 1532540863, 649657]


def realise(d, alt, posbits=32):
    """inputs (target, pos, gain) whose desired velocity is exactly d, or None"""
    pmax = 2 ** (posbits - 1) - 1
    order = GAINS[alt % 3:] + GAINS[:alt % 3] if alt else GAINS
    for g in order:
        if d % g:
            continue
        diff = d // g
        if -pmax <= diff <= U32 - 1 + pmax + 1:
            t, p = split_diff(diff, alt, posbits)
            if fits(t, 0, U32 - 1) and fits(p, -pmax - 1, pmax):
                return t, p, g
    return None


def grid(outbits=16, posbits=32):
    """the deterministic boundary grid for a signed velocity output of `outbits` bits and a signed
    position of `posbits` bits (the tiers take every k-th element)"""
    OM, TOP, pmax = 2 ** (outbits - 1) - 1, 2 ** outbits, 2 ** (posbits - 1) - 1
    out = []
    n = 0
    for vmax in (0, 1, 256, 1000, OM - 1, OM):
        prevs = sorted({p for p in (-vmax, -vmax + 1, -1, 0, 1, vmax - 1, vmax) if abs(p) <= vmax})
        accs = sorted(a for a in {0, 1, 50, OM - vmax, OM + 1 - vmax, OM + 1, TOP - 1, TOP,
                                  2 ** 31 - 1, 2 ** 31, U32 - 1} if a < U32)
        for prev in prevs:
            for acc in accs:
                aimed = sorted({x + e for x in (prev - acc, prev + acc, -vmax, vmax, 0) for e in (-1, 0, 1)})
                far = [s * x for x in sorted({OM, OM + 1, OM + 2, TOP, 100000, 2 ** 31, U32})
                       for s in (1, -1)] + [2 ** 63 - 1, -(2 ** 63) + 2 ** 31]
                for d in aimed:
                    for sw in range(4):
                        r = realise(d, n % 3, posbits)
                        n += 1
                        if r:
                            out.append(dict(zip(("target", "pos", "gain"), r), acc=acc, vmax=vmax,
                                            prev=prev, low=sw & 1, high=sw >> 1, fam="aimed"))
                for d in far:
                    r = realise(d, n % 3, posbits)
                    n += 1
                    if r:
                        out.append(dict(zip(("target", "pos", "gain"), r), acc=acc, vmax=vmax, prev=prev,
                                        low=n & 1, high=(n >> 1) & 1, fam="far"))
    # raw extremes of the three inputs of the product
    for vmax in (1000, OM):
        for prev in (-vmax, 0, vmax):
            for acc in (1, OM + 1, U32 - 1):
                for target in (0, 1, 2 ** 31 - 1, 2 ** 31, U32 - 1):
                    for pos in (-pmax - 1, -2 ** 31, -1, 0, 1, 2 ** 31 - 1, pmax):
                        for gain in (0, 1, 2, 2 ** 31 - 1, 2 ** 31, U32 - 1):
                            n += 1
                            if fits(gain * (target - pos), -2 ** 63, 2 ** 63 - 1):
                                out.append(dict(target=target, pos=pos, gain=gain, acc=acc, vmax=vmax,
                                                prev=prev, low=n & 1, high=(n >> 1) & 1, fam="raw"))
    return out


def logu(rng, top):
    """random magnitude with a log-uniform number of bits"""
    bits = rng.randrange(0, top.bit_length() + 1)
    return min(top, rng.randrange(1 << bits) if bits else 0)


def randoms(rng, count, outbits=16, posbits=32):
    OM, pmax = 2 ** (outbits - 1) - 1, 2 ** (posbits - 1) - 1
    out = []
    while len(out) < count:
        vmax = rng.choice((logu(rng, OM), rng.randrange(OM + 1)))
        prev = rng.randint(-vmax, vmax)
        acc = logu(rng, U32 - 1)
        gain = logu(rng, U32 - 1)
        target = rng.choice((logu(rng, U32 - 1), rng.randrange(U32)))
        pos = rng.choice((1, -1)) * logu(rng, pmax)
        if rng.random() < .3:                           # near the target: the interesting region
            pos = max(-pmax - 1, min(pmax, min(target, pmax) - rng.randint(-40, 40)))
        if not fits(gain * (target - pos), -2 ** 63, 2 ** 63 - 1):
            continue
        out.append(dict(target=target, pos=pos, gain=gain, acc=acc, vmax=vmax, prev=prev,
                        low=rng.randrange(2), high=rng.randrange(2), fam="random"))
    return out


# ---- cases ------------------------------------------------------------------------------------------

def put(buf, v, value):
    buf[v["off"]:v["off"] + v["n"]] = (value % (1 << (8 * v["n"]))).to_bytes(v["n"], "little")


def putbit(buf, b, value):
    buf[b["off"]] = (buf[b["off"]] & ~(1 << b["bit"])) | (bool(value) << b["bit"])


def make_case(built, inp, fill):
    """fill: Random used for everything the property does not talk about (other frame bytes,
    set_enable, the counter of enabling passes)"""
    b, mot, frame, wkc = built["b"], built["mot"], built["frame"], built["wkc"]
    pkt = bytearray(frame)
    for d in built["dgs"][1:]:                           # all process data: arbitrary
        pkt[d[2]:d[2] + d[3]] = bytes(fill.randrange(256) for _ in range(d[3]))
    put(pkt, mot["pos"], inp["pos"])
    put(pkt, mot["vel"], inp["prev"])
    putbit(pkt, mot["low"], inp["low"])
    putbit(pkt, mot["high"], inp["high"])
    props = bytearray(b.maps[0]["vs"])
    for name, key in (("target", "target"), ("gain", "gain"), ("acc", "acc"), ("vmax", "vmax")):
        put(props, mot[name], inp[key])
    sen = fill.choice((0, 0, 1, 1, 2, 256, U32 - 1, fill.randrange(U32)))
    put(props, mot["sen"], sen)
    put(props, wkc, fill.choice((1, 1, 2, 77, U32 - 1)))      # non-zero: the outputs are enabled
    c = progs.case(b, pkt=bytes(pkt), arr={1: bytes(props)}, fuel=600)
    c["mot"] = mot
    return c, sen


def kernel_crosscheck(ctx, builts, cases, meta, verdicts):
    """machine = kernel on the Motor program itself: a sample of the cases (every 23rd) is also run
    by the real kernel (BPF_PROG_TEST_RUN on the loaded program with the same map contents); the
    velocity bytes must be the ones the machine produced.  Not a verdict on the code: a mismatch is a
    machinery failure, absence of a usable kernel only drops the cross-check."""
    import os
    from harness import kernel
    if not kernel.available():
        ctx.extra["kernel_crosscheck"] = "kernel not usable"
        return
    fds, n = {}, 0
    try:
        for name, built in builts.items():
            fds[name] = kernel.prog_load(built["b"].code)
        for i in range(0, len(cases), 23):
            c, m = cases[i], meta[i]
            b, mot = builts[m["layout"]]["b"], builts[m["layout"]]["mot"]
            kernel.map_update(b.maps[0]["fd"], bytes(4), bytes(c["arr"][0]["bytes"]))
            rv, out = kernel.test_run(fds[m["layout"]], bytes(c["pkt"]))
            got = list(out[mot["vel"]["off"]:mot["vel"]["off"] + mot["vel"]["n"]])
            if got != verdicts[i + 1][0][5] or rv != 3:
                raise T.MachineryError(f"machine and kernel disagree on {m}: kernel {got} rv={rv}, "
                                       f"machine {verdicts[i + 1][0][5]}")
            n += 1
    except kernel.VerifierReject as e:
        ctx.extra["kernel_crosscheck"] = f"verifier rejected the Motor program: {e}"[:300]
        return
    finally:
        for fd in fds.values():
            os.close(fd)
    ctx.extra["kernel_crosscheck"] = f"{n} cases also run by the kernel: same velocity bytes as the machine"


def law(i):
    """used ONLY to describe a failing case for the defect predicate (never to judge)"""
    d = i["gain"] * (i["target"] - i["pos"])
    return max(i["prev"] - i["acc"], min(i["prev"] + i["acc"], d))


def run(ctx):
    # 1. the consequences of the law, exhaustively on a small grid
    wd = ctx.workdir()
    c = (2, 1, 2, 3, 3) if ctx.quick else (3, 2, 3, 5, 4)
    T.write_cfg(wd, "MC_Motor_t.cfg",
                "INIT Init\nNEXT Next\nCONSTANTS\n  TMax = %d\n  PMax = %d\n  GMax = %d\n  AMax = %d\n"
                "  VMax = %d\nINVARIANTS PreHolds\n LawIsIntLaw\n ConsequencesHold\n IntConsequences\n"
                "CHECK_DEADLOCK FALSE\n" % c)
    res = T.run(wd, "MC_Motor", "MC_Motor_t.cfg", workers=4, timeout=900, deadlock=False)
    T.require_clean(res, "MC_Motor")
    ctx.tlc_stats(res)
    if not res.ok:
        ctx.case_failed(dict(kind="law-theorem", violated=res.invariant_violated),
                        "a consequence the property draws from the law fails on the small grid:\n"
                        + res.counterexample()[:1500])
    ctx.extra["law_grid_states"] = res.distinct

    # 2. the emitted program against the law
    try:
        builts = {name: build(name) for name in LAYOUTS}
    except T.MachineryError:
        raise
    except Exception as e:                               # the property requires a program: a case result
        ctx.evaluated("build", nontrivial=True)
        ctx.case_failed(dict(kind="not-built", error=f"{type(e).__name__}: {e}"),
                        f"FastSyncGroup([Motor]) on a bundled motor terminal cannot be assembled: "
                        f"{type(e).__name__}: {e}")
        return
    # each layout takes its share of the grid that fits its widths (velocity output, position)
    groups = {}
    for name, bt in builts.items():
        groups.setdefault((bt["outbits"], bt["posbits"]), []).append(name)
    stride = {(16, 32): (37, 1), (16, 64): (101, 11), (32, 32): (61, 7)}
    fill = random.Random(2626)                           # seed-independent filler for the grid
    cases, meta = [], []
    sizes = {}
    for widths, names in sorted(groups.items()):
        g = grid(*widths)
        sizes[f"{widths[0]}-bit output, {widths[1]}-bit position"] = len(g)
        sub = g[::stride[widths][0 if ctx.quick else 1]]
        nrand = (40 if ctx.quick else 220) * len(names)
        for i, inp in enumerate(sub + randoms(ctx.rng, nrand, *widths)):
            layout = names[(i // 5) % len(names)]        # blocks of 5: every layout sees every switch state
            cs, sen = make_case(builts[layout], inp, fill if inp["fam"] != "random" else ctx.rng)
            cases.append(cs)
            meta.append(dict(inp, layout=layout, set_enable=sen, outbits=widths[0]))
    ctx.extra["grid_size_full"] = sizes
    verdicts = FG.run_sharded(ctx, "MotorRun", "MotorRunObserve.cfg", cases, "VERDICT",
                              shards=8 if ctx.quick else 12)
    ctx.rule = ("boundary grid of (desired velocity aimed at each limit -1/0/+1 and far beyond the output's "
                "range, acceleration limit, velocity limit, previous velocity, switches) pruned by the "
                "property's preconditions (a fixed stride per tier) + seeded random inputs, on every bundled "
                "terminal a Motor can be linked to (EL7041 x 2 PDO layouts, EL7332 channels 1/2 with the encoder of "
                "an EL5042 / EL7041, EL7062 channels 1/2; PDO tables from the package's own parse_pdos); "
                "non-trivial = preconditions hold (TLC's judgement) and the law's three stages do not all "
                "coincide with the desired velocity")
    ctx.assumptions.append("the group's outputs are enabled (wkc_errors != 0), as after SyncGroupBase.run's "
                           "start-up; with wkc_errors == 0 the device programs are not executed")
    ctx.extra["layouts"] = sorted(LAYOUTS)
    kernel_crosscheck(ctx, builts, cases, meta, verdicts)
    for i, m in enumerate(meta, 1):
        v = verdicts.get(i)
        if not v or len(v) != 1:
            raise T.MachineryError(f"{0 if not v else len(v)} verdicts for case {i}: {m}")
        pre, commanded, enable, thm, st, got, exp, accfits = v[0]
        ctx.traces += 1
        key = tuple(m[k] for k in ("target", "pos", "gain", "acc", "vmax", "prev", "low", "high", "layout"))
        d = m["gain"] * (m["target"] - m["pos"])
        ctx.evaluated(key, nontrivial=bool(pre) and not (law(m) == d and abs(d) <= m["vmax"]
                                                          and not (m["low"] and d < 0)
                                                          and not (m["high"] and d > 0)))
        if i % 499 == 1:
            ctx.sample(dict(m, velocity_bytes=got, expected_bytes=exp))
        case = dict(m, desired=d, acc_limited=law(m), acc_limited_fits_output=accfits,
                    final=st, velocity_bytes=got, expected_bytes=exp, precondition=pre)
        if not pre and m["fam"] != "random":
            raise T.MachineryError(f"grid case outside the preconditions according to TLC: {m}")
        if not thm:
            ctx.case_failed(dict(case, kind="law-theorem"), f"consequences of the law fail on {m}")
        if not commanded:
            ctx.case_failed(dict(case, kind="velocity"),
                            f"Motor program on {m['layout']} wrote velocity bytes {got} (final state {st}), the law gives "
                            f"{exp}: target={m['target']} pos={m['pos']} gain={m['gain']} acc={m['acc']} "
                            f"vmax={m['vmax']} prev={m['prev']} low={m['low']} high={m['high']} "
                            f"(desired {d}, acceleration-limited {law(m)})")
        if not enable:
            ctx.case_failed(dict(case, kind="enable"),
                            f"enable bit on {m['layout']} does not follow set_enable={m['set_enable']} "
                            f"(final state {st})")


# ---- defect classes seen on the unchanged tree (for tallying failures; not used for judging) -------

DEFECT_PREDICATES = {
    # F14: Motor.program stores the acceleration-limited value into the 16-bit output BEFORE clamping
    # it to the velocity limit, so it wraps whenever it does not fit the output
    "F14-stored-before-velocity-clamp":
        lambda case: case.get("kind") == "velocity" and case["acc_limited_fits_output"] is False,
}
