"""C12 - every datagram request gets exactly its own response.

Spec: spec/SendLoop.tla (one action per suspension / mutation point of roundtrip, sendloop,
process_packet, roundtrip_packet, datagram_received; properties P1-P6), MC_SendLoop (exhaustive
model of the design), SendLoopTrace (trace validation).
Binding: harness/slrun.py runs workloads of concurrent `ec.roundtrip(FPRD, station, offset,
data=n)` clients on the *real* EtherCat object over simloop/simbus (random sizes up to and beyond
the frame limit, start orders, cancellation points, per-frame bus behaviour: returned / delayed /
duplicated / lost, per-datagram working counter 0/1 through existing / missing stations) and
records submit / cancel / sendto / bus / recv / outcome / stall events; TLC decides for every
recorded run whether it is a behaviour of SendLoop (the internal steps of the send loop are silent).
"""
import hashlib
import json
import random
import time

from harness import tlc as T

PROPERTY = "C12"
LEVEL = "model_checking"

PRESENT = [1001, 1002, 1003]
ABSENT = [2001, 2002]
LIMIT = 1500 - 16 - 12          # largest data length that fits into a frame of its own

MC_COMMON = """SPECIFICATION MCSpec
CONSTANTS MaxFrame = 4
          Header = 0
          Overhead = 0
"""
SAFETY = """INVARIANTS TypeOK
           P1_Once
           P2_Order
           P4_Own
           P6_Rest
PROPERTIES P3_OnceDone
           P5_Indep
CHECK_DEADLOCK FALSE
"""
LIVE = """INVARIANTS TypeOK
PROPERTIES P6_Progress
CHECK_DEADLOCK FALSE
"""


# ---------------------------------------------------------------------------------------------
# workloads

def _req(i, station, size, start=0, cancel=None, on=None):
    """cancel: virtual ms; on: (event, hops) - cancel hops ready-queue rounds after the request's
    frame was sent / came back"""
    return dict(id=i, station=station, offset=0x1000 + 97 * i, size=size, start=start, cancel=cancel,
                cancel_on=dict(ev=on[0], hops=on[1]) if on else None)


def _wl(name, reqs, bus=(), order=None, horizon=100):
    return dict(name=name, reqs=reqs, order=order or [q["id"] for q in reqs], present=PRESENT,
                bus=list(bus), horizon=horizon)


def _b(kind, delay=0, delay2=0):
    return dict(kind=kind, delay=delay, delay2=delay2)


def handmade():
    """deterministic scenarios around the corners of the property"""
    P, A = PRESENT[0], ABSENT[0]
    out = [
        _wl("single", [_req(1, P, 8)]),
        _wl("batch-mixed-wkc", [_req(1, P, 8), _req(2, A, 8), _req(3, PRESENT[1], 100)]),
        _wl("exact-fit", [_req(1, P, LIMIT)]),
        _wl("exact-fit-then-small", [_req(1, P, LIMIT), _req(2, P, 1)]),
        _wl("two-halves-and-one", [_req(1, P, 730), _req(2, P, 730), _req(3, P, 1)]),
        _wl("overflow-chain", [_req(1, P, 800), _req(2, P, 800), _req(3, A, 800), _req(4, P, 3)]),
        _wl("sixteen-tiny", [_req(i, P if i % 3 else A, 1 + i % 4) for i in range(1, 18)]),
        _wl("lost", [_req(1, P, 8), _req(2, P, 9, start=1)], bus=[_b("lose")]),
        _wl("dup", [_req(1, P, 8), _req(2, A, 9)], bus=[_b("dup", 0, 2)]),
        _wl("overtake", [_req(1, P, 8), _req(2, P, 9, start=1)], bus=[_b("delay", 5), _b("return")]),
        _wl("cancel-queued", [_req(1, P, 8, cancel=0), _req(2, P, 9)]),
        _wl("cancel-in-flight-wkc1", [_req(1, P, 8, cancel=1), _req(2, P, 9)], bus=[_b("delay", 3)]),
        _wl("cancel-in-flight-wkc0-last", [_req(1, P, 8), _req(2, A, 9, cancel=1)], bus=[_b("delay", 3)]),
        _wl("cancel-in-flight-wkc0-first", [_req(1, A, 8, cancel=1), _req(2, P, 9)], bus=[_b("delay", 3)]),
        _wl("cancel-in-flight-wkc0-mid", [_req(1, P, 8), _req(2, A, 9, cancel=1), _req(3, P, 7),
                                          _req(4, A, 6)], bus=[_b("delay", 3)]),
        _wl("cancel-at-recv", [_req(1, P, 8, on=("recv", 0)), _req(2, P, 9)]),
        _wl("cancel-after-completion-before-wakeup", [_req(1, P, 8, on=("recv", 1)), _req(2, P, 9)]),
        _wl("cancel-after-wakeup", [_req(1, P, 8, on=("recv", 2)), _req(2, P, 9)]),
        _wl("cancel-at-recv-wkc0-first", [_req(1, A, 8, on=("recv", 0)), _req(2, P, 9)]),
        _wl("cancel-after-completion-wkc0-first", [_req(1, A, 8, on=("recv", 1)), _req(2, P, 9)]),
        _wl("cancel-at-sendto", [_req(1, P, 8), _req(2, A, 9, on=("sendto", 0)), _req(3, A, 7)]),
        _wl("cancel-lost", [_req(1, P, 8, cancel=2), _req(2, P, 9)], bus=[_b("lose")]),
        _wl("too-big-alone", [_req(1, P, LIMIT + 1)]),
        _wl("too-big-among-others", [_req(1, P, 8), _req(2, P, 1600), _req(3, P, 9), _req(4, P, 5, start=2)]),
        _wl("too-big-cancelled", [_req(1, P, 8), _req(2, P, 1500, cancel=0), _req(3, P, 9)]),
    ]
    return out


def generate(rng, name):
    style = rng.choice(["burst", "burst", "spread", "spread", "mixed", "many"])
    n = rng.randint(14, 22) if style == "many" else rng.randint(2, 8)
    toobig = rng.random() < 0.10
    reqs = []
    for i in range(1, n + 1):
        if style == "many":
            size = rng.randint(1, 24)
        else:
            c = rng.random()
            if c < 0.35:
                size = rng.randint(1, 64)
            elif c < 0.55:
                size = rng.randint(65, 700)
            elif c < 0.75:
                size = rng.randint(700, 760)          # about half a frame
            elif c < 0.9:
                size = rng.randint(1380, LIMIT)       # frame-filling
            else:
                size = LIMIT
        station = rng.choice(PRESENT) if rng.random() < 0.72 else rng.choice(ABSENT)
        start = 0 if style == "burst" else rng.choice([0, 0, 0, 1, 1, 2, 3]) if style != "mixed" \
            else rng.choice([0, 0, 2, 2, 2, 4])
        cancel = on = None
        c = rng.random()
        if c < 0.2:
            cancel = start + rng.choice([0, 0, 1, 1, 2, 3, 5])
        elif c < 0.32:
            on = (rng.choice(["sendto", "recv", "recv"]), rng.choice([0, 0, 1, 1, 2, 3]))
        reqs.append(_req(i, station, size, start, cancel, on))
    if toobig:
        rng.choice(reqs)["size"] = rng.choice([LIMIT + 1, LIMIT + 2, 1500, 1600, 2000])
    bus = []
    for _ in range(16):
        c = rng.random()
        if c < 0.4:
            bus.append(_b("return"))
        elif c < 0.7:
            bus.append(_b("delay", rng.choice([1, 2, 3, 4])))
        elif c < 0.8:
            bus.append(_b("lose"))
        else:
            bus.append(_b("dup", rng.choice([0, 1, 2]), rng.choice([0, 1, 3, 4])))
    order = [q["id"] for q in reqs]
    rng.shuffle(order)
    return dict(name=name, reqs=reqs, order=order, present=PRESENT, bus=bus, horizon=100)


# ---------------------------------------------------------------------------------------------
# classification helpers: facts about a rejected run, computed from its own events (they do not
# decide anything; they let known-finding predicates recognise a defect class)

def compact(e):
    return {k: v for k, v in e.items() if k == "ev" or v not in (0, "", [])}


def facts(events, matched):
    ev = events[:matched + 1]
    bad = events[matched] if matched < len(events) else None
    sizes = {e["r"]: e["size"] for e in ev if e["ev"] == "submit"}
    out = dict(limit=LIMIT, sizes=[sizes[r] for r in sorted(sizes)],
               too_big=sorted(r for r, s in sizes.items() if s > LIMIT),
               rejected=compact(bad) if bad else None)
    if bad and bad["ev"] == "outcome":
        r = bad["r"]
        fr = next((e for e in ev if e["ev"] == "sendto" and r in e["d"]), None)
        out["own"] = None
        if fr:
            f = fr["f"]
            k = fr["d"].index(r)
            b = next((e for e in ev if e["ev"] == "bus" and e["f"] == f), None)
            first_recv = next((i for i, e in enumerate(ev) if e["ev"] == "recv" and e["f"] == f), None)
            cancelled = [e["r"] for e in ev if e["ev"] == "cancel" and e["r"] in fr["d"]]
            out["own"] = dict(frame=f, pos=k, dgrams=fr["d"], bus=b["kind"] if b else None,
                              wkc=b["wkc"] if b else None,
                              own_wkc=b["wkc"][k] if b and b["kind"] != "lose" else None,
                              cancelled_before=cancelled, received=first_recv is not None,
                              earlier_cancelled_unprocessed=[
                                  x for j, x in enumerate(fr["d"][:k])
                                  if b and b["wkc"][j] == 0 and x in cancelled])
    return out


def is_f4(case, reason=""):
    """a cancelled request whose datagram comes back with working counter 0 poisons the later
    requests of its frame: the rejected event is an InvalidStateError outcome of a request whose
    own frame has come back and has, before the request's own datagram, the datagram of a request
    that was cancelled earlier and came back with working counter 0"""
    fx = case.get("facts", {})
    rej = fx.get("rejected") or {}
    own = fx.get("own") or {}
    return (rej.get("ev") == "outcome" and rej.get("kind") == "error"
            and rej.get("exc") == "InvalidStateError" and own.get("received") is True
            and len(own.get("earlier_cancelled_unprocessed", [])) > 0)


def is_f5(case, reason=""):
    """a request that can never fit into a frame stalls the send loop"""
    fx = case.get("facts", {})
    rej = fx.get("rejected") or {}
    return rej.get("ev") == "stall" and rej.get("exc") == "StallError" and len(fx.get("too_big", [])) > 0


# ---------------------------------------------------------------------------------------------

def nontrivial(events):
    multi = any(e["ev"] == "sendto" and len(e["d"]) >= 2 for e in events)
    spice = any(e["ev"] == "cancel" or (e["ev"] == "bus" and (e["kind"] != "return" or 0 in e["wkc"]))
                for e in events)
    return multi and spice


def model_check(ctx, wd):
    """the design: SendLoop satisfies P1-P6 for all interleavings within the bound"""
    full = 'Sizes = {1, 2, 4, 5}\n Faults = {"delay", "lose", "dup"}\n MaxFrames = 4\n'
    both = SAFETY.replace("CHECK_DEADLOCK", "           P6_Progress\nCHECK_DEADLOCK")
    if ctx.quick:
        # 3 requests, the middle one cancellable, no duplicated frames (the full 3-request model,
        # 1.2 M states, is run by the thorough tier: ~15 s on an idle machine but minutes on a
        # loaded one), and 2 requests with everything, including the liveness property
        runs = [("safety-3", 'MaxReq = 3\n Cancellable = {2}\n Sizes = {1, 2, 4, 5}\n'
                             ' Faults = {"delay", "lose"}\n MaxFrames = 4\n', SAFETY),
                ("all-2", "MaxReq = 2\n Cancellable = {1, 2}\n " + full, both)]
    else:
        runs = [("safety-3", "MaxReq = 3\n Cancellable = {1, 2, 3}\n " + full, SAFETY),
                ("all-2", "MaxReq = 2\n Cancellable = {1, 2}\n " + full, both),
                ("safety-4", 'MaxReq = 4\n Cancellable = {2}\n Sizes = {1, 2, 4, 5}\n Faults = {"lose"}\n'
                             ' MaxFrames = 3\n', "CONSTRAINT FrameBound\n" + SAFETY),
                ("progress-3", 'MaxReq = 3\n Cancellable = {1, 2, 3}\n Sizes = {1, 2, 4, 5}\n'
                               ' Faults = {"delay", "lose"}\n MaxFrames = 4\n', LIVE)]
    for tag, consts, props in runs:
        cfg = T.write_cfg(wd, f"mc_{tag}.cfg", MC_COMMON + " " + consts + props)
        res = T.require_clean(T.run(wd, "MC_SendLoop", cfg, timeout=1500, coverage=(tag == "all-2")),
                              f"MC_SendLoop/{tag}")
        if not res.ok or not res.finished:
            raise T.MachineryError(f"SendLoop.tla violates its own properties ({tag}):\n"
                                   + res.counterexample() + res.out[-1500:])
        ctx.tlc_stats(res)
        ctx.extra["mc_" + tag.replace("-", "_")] = dict(
            distinct=res.distinct, generated=res.generated, wall_s=round(res.wall, 1),
            constants=" ".join(consts.split()))


def validate(ctx, wd, workloads):
    from harness import slrun
    t0 = time.time()
    runs = [slrun.run_workload(w) for w in workloads]
    t1 = time.time()
    results = T.validate_traces(ctx, wd, "SendLoopTrace", "SendLoopTrace.cfg",
                                [dict(ev=r["events"],
                                      fr=[e["d"] for e in r["events"] if e["ev"] == "sendto"])
                                 for r in runs], chunk=400, timeout=1500)
    ctx.extra["real_runs_s"] = round(t1 - t0, 1)
    ctx.extra["trace_validation_s"] = round(time.time() - t1, 1)
    return runs, results


def judge(ctx, workloads, runs, results):
    for w, r, (matched, length, inv) in zip(workloads, runs, results):
        ev = r["events"]
        ctx.traces += 1
        ctx.evaluated(hashlib.sha1(json.dumps(w, sort_keys=True).encode()).hexdigest()[:16],
                      nontrivial=nontrivial(ev))
        if len(ctx.samples) < 3 and nontrivial(ev) and len(ev) < 30:
            ctx.sample(dict(workload=w["name"], events=[compact(e) for e in ev]))
        if matched != length or isinstance(inv, str):
            fx = facts(ev, matched)
            case = dict(workload=w, events=[compact(e) for e in ev], rejected_at=matched, facts=fx,
                        sendloop_died=r["died"])
            cls = "F4" if is_f4(case) else "F5" if is_f5(case) else "unclassified"
            ctx.extra.setdefault("rejected_by_class", {}).setdefault(cls, 0)
            ctx.extra["rejected_by_class"][cls] += 1
            if matched != length:
                reason = (f"[{cls}] run rejected by SendLoop at event {matched} of {length}: "
                          f"{fx['rejected']}; facts: "
                          f"{ {k: v for k, v in fx.items() if k != 'rejected'} }")
            else:
                reason = f"invariant violated: {inv}"
            ctx.case_failed(case, reason)


def run(ctx):
    wd = ctx.workdir()
    model_check(ctx, wd)
    ngate = 180 if ctx.quick else 3000
    nextra = 40 if ctx.quick else 600
    workloads = handmade()
    workloads += [generate(random.Random(120000 + i), f"gate-{i}") for i in range(ngate)]
    workloads += [generate(random.Random(ctx.rng.getrandbits(48)), f"seed-{ctx.seed}-{i}")
                  for i in range(nextra)]
    runs, results = validate(ctx, wd, workloads)
    judge(ctx, workloads, runs, results)
    ctx.exhaustive = False
    ctx.rule = ("one evaluation = one workload of concurrent roundtrip clients run on the real EtherCat "
                "object and validated by TLC against SendLoop; non-trivial = some frame carried >= 2 "
                "datagrams and the run had a cancellation, a working counter 0 or a bus fault "
                f"({len(handmade())} hand-made + {ngate} fixed-seed + {nextra} VERIF_SEED workloads)")
    ctx.extra["events_total"] = sum(len(r["events"]) for r in runs)
    ctx.assumptions += [
        "requests are identified on the wire by their (station, offset); returned bytes are compared "
        "through crc32 tokens",
        "event-loop orderings are those of asyncio's FIFO ready queue under virtual time; variation "
        "comes from start times, task creation order, response delays and cancellation times",
        "the frame limit (1500 bytes, 16 header, 12 per datagram) is a constant of the specification",
    ]


def replay(ctx, case):
    wd = ctx.workdir()
    w = case["workload"]
    runs, results = validate(ctx, wd, [w])
    judge(ctx, [w], runs, results)
