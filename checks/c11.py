"""C11 - assembled EtherCAT frames are well-formed with exact datagram positions.

Spec: spec/Frame.tla (packet accounting, Assemble, the independent parser WellFormed, Sterile),
      MC_Frame (exhaustive model with a scaled-down frame size), FrameScripts (TLC enumerates the
      datagram sequences from the specification's own packet), FrameTrace (trace validation).
Binding: every enumerated sequence is replayed on a real ethercat.Packet (append results and
      returned positions, assemble(index, ethertype)) and on a real ebpfcat.SterilePacket
      (append / append_writer, assemble and sterile); the recorded events and the produced bytes
      are judged by TLC, clause by clause, against Frame.tla.  Python only drives and records."""
import json
import signal

from harness import tlc as T

PROPERTY = "C11"
LEVEL = "model_checking"

# The empty packet (no datagram accepted) is part of "every sequence of datagrams accepted into a
# frame"; its frame consists of the identification datagram alone.  Set to False to leave it out.
INCLUDE_EMPTY = True

PACKET_CLAUSES = ["produced", "size", "header", "parse", "ident", "dgrams", "positions", "equal"]
# (for the sterile class "equal" subsumes the header, ident and dgrams clauses)
STERILE_CLAUSES = ["produced", "size", "parse", "equal", "sterile_produced", "sterile", "sterile_equal"]


class Hang(Exception):
    pass


def _alarm(*_):
    raise Hang("step budget exceeded")


def make_data(n, seed):
    return bytes((seed + 7 * j) % 256 for j in range(n))


def replay_script(script, kind):
    """drive one real packet object through the script; record what it did"""
    from ebpfcat.ethercat import Packet, ECCmd
    from ebpfcat.ebpfcat import SterilePacket
    p = Packet() if kind == "packet" else SterilePacket()
    ev = []
    old = signal.signal(signal.SIGALRM, _alarm)
    signal.setitimer(signal.ITIMER_REAL, 5.0)
    try:
        for op in script["ops"]:
            data = make_data(op["len"], op["seed"])
            writer = bool(op["writer"]) and kind == "sterile"
            e = dict(op="append", cmd=op["cmd"], idx=op["idx"], addr=list(op["addr"]),
                     data=list(data), wkc=op["wkc"], writer=writer, start=-1, stop=-1, exc="")
            try:
                cmd = ECCmd(op["cmd"])
                if kind == "packet":
                    r = p.append(cmd, data, op["idx"], *op["addr"], wkc=op["wkc"])
                    if (isinstance(r, tuple) and len(r) == 2
                            and all(isinstance(x, int) and abs(x) < 2 ** 31 for x in r)):
                        e["start"], e["stop"] = r
                    else:
                        e["exc"] = "returned " + repr(r)[:80]
                elif writer:
                    p.append_writer(cmd, data, op["idx"], *op["addr"], counter=op["wkc"])
                else:
                    p.append(cmd, data, op["idx"], *op["addr"], counter=op["wkc"])
                e["res"] = "ok"
            except Hang:
                raise
            except Exception as ex:
                e["res"] = "rejected"
                e["exc"] = type(ex).__name__
            ev.append(e)
        t = dict(kind=kind, index=script["index"], ethertype=script["ethertype"], ev=ev,
                 has_asm=False, asm=[], asm_exc="", has_ster=False, ster=[], ster_exc="")
        try:
            b = p.assemble(script["index"], script["ethertype"])
            if isinstance(b, (bytes, bytearray)):
                t["has_asm"], t["asm"] = True, list(b)
            else:
                t["asm_exc"] = "returned " + type(b).__name__
        except Hang:
            raise
        except Exception as ex:
            t["asm_exc"] = f"{type(ex).__name__}: {ex}"[:200]
        if kind == "sterile":
            try:
                b = p.sterile(script["index"], script["ethertype"])
                if isinstance(b, (bytes, bytearray)):
                    t["has_ster"], t["ster"] = True, list(b)
                else:
                    t["ster_exc"] = "returned " + type(b).__name__
            except Hang:
                raise
            except Exception as ex:
                t["ster_exc"] = f"{type(ex).__name__}: {ex}"[:200]
    except Hang:
        t = dict(kind=kind, index=script["index"], ethertype=script["ethertype"],
                 ev=ev + [dict(op="hang")], has_asm=False, asm=[], asm_exc="hang",
                 has_ster=False, ster=[], ster_exc="hang")
    finally:
        signal.setitimer(signal.ITIMER_REAL, 0)
        signal.signal(signal.SIGALRM, old)
    for c in (PACKET_CLAUSES if kind == "packet" else STERILE_CLAUSES):
        t["ev"].append(dict(op="check", what=c))
    return t


def random_script(rng):
    """extra random datagram sequences (seed-dependent, never used for gating)"""
    ops = []
    size = 16
    for k in range(rng.randint(1, 18)):
        room = 1500 - size - 12
        n = rng.choice([rng.randint(0, 40), rng.randint(0, 300), max(0, room - rng.randint(0, 2)),
                        room + rng.randint(1, 50) if room >= 0 else 0,
                        max(0, room // rng.randint(1, 4))])
        form = rng.choice(["pos", "node", "log"])
        if form == "log":
            addr = [rng.choice([rng.randint(0, 2 ** 31 - 1), rng.randint(-2 ** 31, -1),
                                rng.randint(0, 0x10000)])]
        else:
            addr = [rng.randint(-32768, 32767), rng.randint(0, 65535)]
        ops.append(dict(cmd=rng.randint(0, 14), form=form, writer=rng.random() < 0.5,
                        idx=rng.randint(0, 255), addr=addr, len=n, seed=rng.randint(0, 255),
                        wkc=rng.choice([0, 1, rng.randint(0, 65535)])))
        if size + n + 12 <= 1500:
            size += n + 12
    return dict(ops=ops, index=rng.choice([rng.randint(-2 ** 31, 2 ** 31 - 1),
                                           rng.randint(2000, 1000000000)]),
                ethertype=rng.choice([0x88A4, rng.randint(0, 65535)]), random=True)


def strip(t):
    """the events without the data bytes (they follow from len/seed), for reports"""
    out = []
    for e in t["ev"]:
        e = dict(e)
        if "data" in e:
            e["len"] = len(e.pop("data"))
        out.append(e)
    return out


def judge(ctx, wd, scripts):
    """replay every script on both classes and let TLC validate the recorded runs"""
    traces, meta = [], []
    for s in scripts:
        for kind in ("packet", "sterile"):
            traces.append(replay_script(s, kind))
            meta.append((s, kind))
    keys = ("kind", "index", "ethertype", "ev", "has_asm", "asm", "has_ster", "ster")
    results = T.validate_traces(ctx, wd, "FrameTrace", "FrameTrace.cfg",
                                [{k: t[k] for k in keys} for t in traces], chunk=800, timeout=900)
    for (s, kind), t, (matched, length, inv) in zip(meta, traces, results):
        ctx.traces += 1
        acc = sum(1 for e in t["ev"] if e.get("res") == "ok")
        rej = sum(1 for e in t["ev"] if e.get("res") == "rejected")
        ctx.evaluated((kind, json.dumps(s, sort_keys=True)), nontrivial=acc >= 2)
        if acc >= 3 and rej >= 1 and len(ctx.samples) < 3:
            ctx.sample(dict(kind=kind, index=s["index"], ethertype=s["ethertype"],
                            frame_len=len(t["asm"]),
                            ev=[{k: v for k, v in e.items() if k != "exc"} for e in strip(t)
                                if e["op"] == "append"]))
        if matched != length or isinstance(inv, str):
            bad = strip(t)[matched] if matched < length else None
            clause = bad.get("what", bad["op"]) if bad else "invariant"
            ctx.case_failed(
                dict(kind=kind, script=s, accepted=acc, rejected=rej, rejected_at=matched,
                     rejected_event=bad, clause=clause, frame_len=len(t["asm"]),
                     asm_exc=t["asm_exc"], ster_exc=t["ster_exc"],
                     lens=[op["len"] for op in s["ops"]],
                     results=[e.get("res") for e in t["ev"] if e["op"] == "append"],
                     frame_head=t["asm"][:48]),
                f"{kind} trace rejected by Frame at event {matched} ({clause}): {bad}"
                if bad else f"invariant violated: {inv}")
    return traces


def run(ctx):
    wd = ctx.workdir()
    # 1. the design: exhaustive model of Frame with a small frame size
    mc_max = 64 if ctx.quick else 76
    T.write_cfg(wd, "mc.cfg", f"""SPECIFICATION MSpec
CONSTANTS MaxSize = {mc_max}
          Lens = {{0, 1, 2, 7, 30}}
          Index = 2000
          Ethertype = 34980
INVARIANTS FrameInv
           SterileInv
           SizeInv
           RejectInv
CHECK_DEADLOCK FALSE
""")
    res = T.require_clean(T.run(wd, "MC_Frame", "mc.cfg", workers=4, timeout=600), "MC_Frame")
    if not res.ok:
        raise T.MachineryError("Frame.tla violates its own invariants:\n" + res.counterexample())
    ctx.tlc_stats(res)
    ctx.extra["mc_frame"] = dict(distinct=res.distinct, generated=res.generated, MaxSize=mc_max)
    # 2. datagram sequences from TLC
    if ctx.quick:
        fams, variants, tail = ["l0", "mix", "l86", "l87", "l730", "l1471"], [0], 1
        probe_at = [0, 1, 2, 14, 15]
    else:
        fams = ["l0", "l1", "l2", "l31", "l32", "mix", "l86", "l87", "l730", "l1400", "l1471"]
        variants, tail = [0, 1], 1
        probe_at = list(range(16))
    T.write_cfg(wd, "scripts.cfg", f"""SPECIFICATION SSpec
CONSTANTS MaxSize = 1500
          Families = {{{", ".join(json.dumps(f) for f in fams)}}}
          MaxFill = 15
          TailDepth = {tail}
          Variants = {{{", ".join(map(str, variants))}}}
          ProbeAt = {{{", ".join(map(str, probe_at))}}}
INVARIANT Emit
CHECK_DEADLOCK FALSE
""")
    res = T.require_clean(T.run(wd, "FrameScripts", "scripts.cfg", workers=1, timeout=900),
                          "FrameScripts")
    ctx.tlc_stats(res)
    seen, scripts = set(), []
    for (s,) in T.printed_records(res, "SCRIPT"):
        key = json.dumps(s, sort_keys=True)
        if key in seen or (s["accepted"] == 0 and not INCLUDE_EMPTY):
            continue
        seen.add(key)
        scripts.append(s)
    if len(scripts) < 100:
        raise T.MachineryError(f"only {len(scripts)} scripts enumerated")
    ctx.extra["scripts"] = len(scripts)
    ctx.extra["max_ops"] = max(len(s["ops"]) for s in scripts)
    # 3. + 4. replay and validate; then seed-dependent random extras
    judge(ctx, wd, scripts)
    # frames with EQUAL datagrams (the same register polled twice in one frame): the last datagram equal to an
    # earlier one, an earlier pair equal to each other, all equal.  Added after a seeded change (the 'more' flag
    # decided by comparing a datagram's value with the last one) went unnoticed: TLC's families never repeat one.
    dups = []
    for k, sc in enumerate(s for s in scripts if len(s["ops"]) >= 3):
        if k % (7 if ctx.quick else 2):
            continue
        ops = [dict(o) for o in sc["ops"]]
        j = (k // 7) % (len(ops) - 1)
        variants_ = [ops[:-1] + [dict(ops[j])], [dict(ops[j])] + ops[1:j] + [dict(ops[j])] + ops[j + 1:],
                     [dict(ops[0]) for _ in ops[:4]]]
        for v in variants_:
            d = dict(sc, ops=v, duplicates=True)
            d.pop("accepted", None)
            dups.append(d)
    judge(ctx, wd, dups)
    ctx.extra["scripts_with_equal_datagrams"] = len(dups)
    extra = [random_script(ctx.rng) for _ in range(100 if ctx.quick else 1500)]
    judge(ctx, wd, extra)
    ctx.exhaustive = True
    ctx.rule = (f"all fill/probe/tail datagram sequences TLC enumerates from Frame.tla "
                f"({len(fams)} length families x 0..15 fill datagrams, probe after {probe_at} of them, probe lengths around the "
                f"1500-byte boundary x tails of depth {tail} x {len(variants)} attribute variants, "
                f"up to {ctx.extra['max_ops']} datagrams), each on Packet and SterilePacket, plus "
                f"{len(extra)} random sequences; non-trivial = at least two datagrams accepted")


def replay(ctx, case):
    wd = ctx.workdir()
    judge(ctx, wd, [case["script"]])
