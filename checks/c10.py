"""C10 - user-space map calls never overrun Python buffers.

Spec: spec/BpfCalls.tla (registry of created maps + the buffer-size obligation of each bpf() map
command), MC_BpfCalls (exhaustive: obligation <=> every byte the kernel model touches lies inside
the caller's buffers), BpfCallsTrace (validation of recorded event lists).

Binding: harness/fakekernel.py replaces `ebpfcat.bpf.bpf` and records every call reaching it with
the MEASURED length of the Python object behind each address (found by walking the callers' frames).
The driver declares random maps with the real classes (harness/mapdecl.py), loads the program and
issues every user-space operation the library offers: array variables through the mmap, per-CPU
`read()` + indexing, hash variables of every format (defaults applied by `load()`, get, set), Dict
set / get / pop / del / iteration / values / items / `in` / keys / get / setdefault / popitem /
clear, and FastEtherCat.register_sync_group's prog-array calls.  TLC judges every event.

Environments: the host itself (possible CPUs read from /sys/devices/system/cpu/possible, the real
os.cpu_count()), and simulated hosts in the fake kernel: same number of possible and online CPUs,
and hosts with more possible than online CPUs (hot-pluggable CPUs, most virtual machines)."""
import json
import os
import random

from harness import tlc as T
from harness import fakekernel, mapdecl

PROPERTY = "C10"
LEVEL = "model_checking"
EVFIELDS = ("op", "fd", "type", "ks", "vs", "max", "keybuf", "valbuf", "nextbuf", "keynull", "res")


class Driver:
    """issues user-space operations on one program instance; every exception of the library is a
    result of the operation (recorded), never a failure of the driver"""

    def __init__(self, rng, fk, decl, built):
        self.rng, self.fk, self.decl, self.built = rng, fk, decl, built
        self.log = []
        self.keys = {}

    def do(self, label, fn):
        self.fk.label = label
        try:
            r = fn()
            self.log.append((label, "ok"))
            return r
        except Exception as e:                   # noqa: a case result
            self.log.append((label, type(e).__name__))
            return None
        finally:
            self.fk.label = None

    def start(self):
        from ebpfcat.bpf import ProgType
        self.p = self.do(dict(op="init"), lambda: self.built.cls(ProgType.XDP, "GPL"))
        if self.p is None:
            return False
        self.do(dict(op="load"), self.p.load)
        self.p.loaded = True
        for dd in self.decl["dicts"]:
            K, _ = self.built.structs[dd["name"]]
            pool = []
            for _ in range(self.rng.randint(2, 4)):
                k = K()
                for m, f in dd["key"]:
                    setattr(k, m, self.rng.choice([0, 1, mapdecl.rand_value(self.rng, f)]))
                pool.append(k)
            self.keys[dd["name"]] = pool
        return True

    def value(self, dd):
        _, V = self.built.structs[dd["name"]]
        v = V()
        for m, f in dd["value"]:
            setattr(v, m, mapdecl.rand_value(self.rng, f))
        return v

    def step(self):
        rng, p, decl = self.rng, self.p, self.decl
        kinds = []
        for a in decl["arrays"]:
            kinds += [("percpu", a)] * 2 if a["percpu"] else [("array", a)]
        if decl["hash"]:
            kinds += [("hash", decl["hash"])] * 3
        for dd in decl["dicts"]:
            kinds += [("dict", dd)] * 4
        kind, d = rng.choice(kinds)
        if kind == "array":
            v = rng.choice(d["vars"])
            if rng.random() < 0.5:
                n = int(v["fmt"].lstrip("<>!")[:-1] or 1) if v["fmt"] != "x" else 1
                if v["fmt"] == "x":
                    val = rng.randint(-10 ** 6, 10 ** 6) / 100
                elif n > 1:
                    val = tuple(mapdecl.rand_value(rng, v["fmt"][-1]) for _ in range(n))
                else:
                    val = mapdecl.rand_value(rng, v["fmt"])
                self.do(dict(op="array.set", fmt=v["fmt"]), lambda: setattr(p, v["name"], val))
            else:
                self.do(dict(op="array.get", fmt=v["fmt"]), lambda: getattr(p, v["name"]))
        elif kind == "percpu":
            if rng.random() < 0.5:
                self.do(dict(op="percpu.read"), lambda: getattr(p, d["name"]).read())
            else:
                v = rng.choice(d["vars"])
                self.do(dict(op="percpu.get", fmt=v["fmt"]), lambda: list(getattr(p, v["name"])))
        elif kind == "hash":
            v = rng.choice(d["vars"])
            if rng.random() < 0.5:
                self.do(dict(op="hashvar.get", fmt=v["fmt"]), lambda: getattr(p, v["name"]))
            else:
                val = rng.randint(-1000, 1000) if v["fmt"] == "x" else mapdecl.rand_value(rng, v["fmt"])
                self.do(dict(op="hashvar.set", fmt=v["fmt"]), lambda: setattr(p, v["name"], val))
        else:
            t = getattr(p, d["name"])
            k = rng.choice(self.keys[d["name"]])
            op = rng.choice(["set", "set", "get", "pop", "pop_default", "del", "iter", "values", "items",
                             "in", "keys", "get_default", "setdefault", "popitem", "clear"])
            lab = dict(op="dict." + op, ks=t.key.stack, vs=t.value.stack)
            if op == "set":
                v = self.value(d)
                self.do(lab, lambda: t.__setitem__(k, v))
            elif op == "get":
                self.do(lab, lambda: t[k])
            elif op == "pop":
                self.do(lab, lambda: t.pop(k))
            elif op == "pop_default":
                self.do(lab, lambda: t.pop(k, None))
            elif op == "del":
                self.do(lab, lambda: t.__delitem__(k))
            elif op == "iter":
                self.do(lab, lambda: list(t))
            elif op == "values":
                self.do(lab, lambda: list(t.values()))
            elif op == "items":
                self.do(lab, lambda: list(t.items()))
            elif op == "in":
                self.do(lab, lambda: k in t)
            elif op == "keys":
                self.do(lab, lambda: list(t.keys()))
            elif op == "get_default":
                self.do(lab, lambda: t.get(k))
            elif op == "setdefault":
                v = self.value(d)
                self.do(lab, lambda: t.setdefault(k, v))
            elif op == "popitem":
                self.do(lab, t.popitem)
            else:
                self.do(lab, t.clear)


def sync_group_ops(fk, rng):
    """FastEtherCat.register_sync_group: lookup / update / delete on the program array"""
    import ebpfcat.ebpfcat as ec
    from ebpfcat.bpf import MapType

    class SG:
        file_descriptor = 7

        def load(self):
            pass

        def close(self):
            pass

    fe = ec.FastEtherCat.__new__(ec.FastEtherCat)
    fe.sync_groups = {}
    fk.label = dict(op="sync.create")
    fe.programs = ec.create_map(MapType.PROG_ARRAY, 4, 4, ec.FastEtherCat.MAX_PROGS)   # as connect() does
    state = random.getstate()
    random.seed(rng.random())
    try:
        fk.label = dict(op="sync.register")
        cms = [fe.register_sync_group(SG()) for _ in range(rng.randint(1, 3))]
        entered = []
        for cm in cms:
            try:                                 # whatever the library raises is its result
                cm.__enter__()
                entered.append(cm)
            except Exception as e:               # noqa
                fk.events.append(dict(fakekernel.FakeKernel._blank(), op="note", res=type(e).__name__,
                                      label=dict(op="sync.register")))
        for cm in entered:
            try:
                cm.__exit__(None, None, None)
            except Exception:                    # noqa
                pass
    finally:
        random.setstate(state)
        fk.label = None


def one_config(rng, env, nops, with_sync):
    decl = mapdecl.rand_decl(rng, ordered=0.5)   # half of the declarations also use formats with a byte order
    fk = fakekernel.FakeKernel(possible=env.get("mask") or env["possible"], online=env["online"], affinity=env.get("affinity"),
                                pin=env.get("pin"))
    with fk:
        built = mapdecl.build(decl)
        d = Driver(rng, fk, decl, built)
        if d.start():
            for _ in range(nops):
                d.step()
        if with_sync:
            sync_group_ops(fk, rng)
    return decl, fk.events, d.log


def inherited_percpu_config(env, order):
    """a per-CPU map declared in a base class and extended in a subclass; instances of both classes exist, created in
    either order, and each reads its map (a seeding agent noticed that the map descriptor, shared by all instances,
    carries the size).  -> (decl, events, log) like one_config"""
    from ebpfcat.bpf import ProgType
    from ebpfcat.ebpf import EBPF
    from ebpfcat.arraymap import PerCPUArrayMap
    fk = fakekernel.FakeKernel(possible=env.get("mask") or env["possible"], online=env["online"], affinity=env.get("affinity"),
                                pin=env.get("pin"))
    log = []
    with fk:
        pm = PerCPUArrayMap()
        Base = type("Base", (EBPF,), dict(license="GPL", pm=pm, a=pm.globalVar("I")))
        Sub = type("Sub", (Base,), dict(b=pm.globalVar("Q"), c=pm.globalVar("Q"), d=pm.globalVar("I")))
        insts = {}
        for name in order:
            try:
                fk.label = dict(op="init", cls=name)
                insts[name] = p = (Base if name == "base" else Sub)(ProgType.XDP, "GPL")
                fk.label = dict(op="load", cls=name)
                p.load()
                p.loaded = True
                log.append((f"init {name}", "ok"))
            except Exception as e:               # noqa: a case result
                log.append((f"init {name}", type(e).__name__))
        for name in ("sub", "base", "sub"):
            if name in insts:
                try:
                    fk.label = dict(op="percpu-read", cls=name)
                    insts[name].pm.read()
                    _ = [insts[name].a[i] for i in range(len(insts[name].a))]
                    log.append((f"read {name}", "ok"))
                except Exception as e:           # noqa
                    log.append((f"read {name}", type(e).__name__))
        fk.label = None
    decl = dict(arrays=[dict(name="pm", percpu=True, vars=[dict(name="a", fmt="I")], inherited=True, order=list(order))],
                hash=None, dicts=[])
    return decl, fk.events, log


def run(ctx):
    wd = ctx.workdir()
    # 1. the design: obligation <=> kernel model stays inside the buffers
    fds = "{1}" if ctx.quick else "{1, 2}"
    T.write_cfg(wd, "mc.cfg", f"""SPECIFICATION MSpec
CONSTANTS Fds = {fds}
          Sizes = {{1, 5, 8}}
          Cpus = {{1, 3}}
          BufSizes = {{0, 1, 4, 5, 8, 16, 24}}
INVARIANTS Safe
           Tight
CHECK_DEADLOCK FALSE
""")
    res = T.require_clean(T.run(wd, "MC_BpfCalls", "mc.cfg", workers=4, timeout=900), "MC_BpfCalls")
    if not res.ok:
        raise T.MachineryError("BpfCalls.tla violates its own design properties:\n" + res.counterexample())
    ctx.tlc_stats(res)
    ctx.extra["mc_bpfcalls"] = dict(distinct=res.distinct, generated=res.generated)

    # 2. real code on the fake kernel
    host = fakekernel.possible_cpus()
    # every kind of CPU count a host has is given its own value somewhere: possible >= online >= affinity of
    # the process; on the real host the process is also really confined (taskset / cpuset / container)
    envs = [dict(name="host", possible=host, online=None),
            dict(name="sim-equal", possible=4, online=4),
            dict(name="sim-equal", possible=1, online=1),
            dict(name="sim-hotplug", possible=8, online=2, affinity=1),
            dict(name="sim-hotplug", possible=5, online=4),
            dict(name="sim-confined", possible=6, online=6, affinity=2),
            dict(name="host-confined", possible=host, online=None, pin=1 if host > 1 else None),
            # possible masks that are not one contiguous range (the kernel prints them as a list of ranges)
            dict(name="sim-sparse", possible=8, mask="0-3,8-11", online=8),
            dict(name="sim-sparse", possible=3, mask="0,2-3", online=3),
            dict(name="sim-sparse", possible=4, mask="0,2,4,6", online=4),
            dict(name="sim-sparse", possible=6, mask="0-1,4-5,8,31", online=4, affinity=2)]
    nconf = 150 if ctx.quick else 1200
    nops = 30 if ctx.quick else 60
    runs = []
    for i in range(nconf):
        # gating enumeration is seed-independent; ctx.rng adds a quarter more
        rng = random.Random(f"c10-{i}")
        runs.append((rng, envs[i % len(envs)], i))
    for i in range(nconf // 4):
        runs.append((random.Random(ctx.rng.random()), envs[ctx.rng.randrange(len(envs))], f"r{i}"))
    for j, env in enumerate(envs):
        for order in (("sub", "base"), ("base", "sub")):
            runs.append((None, env, f"inherit-{j}-{order[0]}"))
    traces, meta = [], []
    for rng, env, ident in runs:
        env = dict(env)
        if env["online"] is None:
            env["online_seen"] = os.cpu_count()
        if rng is None:
            decl, events, log = inherited_percpu_config(env, ("sub", "base") if ident.endswith("sub") else ("base", "sub"))
        else:
            decl, events, log = one_config(rng, env, nops, with_sync=rng.random() < 0.3)
        for e in events:
            for f in ("keybuf", "valbuf", "nextbuf"):
                if e[f] < 0:
                    raise T.MachineryError(f"buffer behind a user pointer not found: {e}")
        # the range list, not a number: the specification counts the possible CPUs itself
        ranges = fakekernel.parse_cpulist(env["mask"]) if env.get("mask") else \
            (fakekernel.host_possible_ranges() if env["online"] is None else [[0, env["possible"] - 1]])
        traces.append(dict(possible=ranges, ev=[{f: e[f] for f in EVFIELDS} for e in events]))
        meta.append(dict(env=env, decl=decl, events=events, log=log, ident=ident))

    rejects = {}
    chunk = 400
    for start in range(0, len(traces), chunk):
        part = traces[start:start + chunk]
        path = os.path.join(wd, f"traces_{start}.json")
        with open(path, "w") as f:
            json.dump(part, f)
        res = T.run(wd, "BpfCallsTrace", "BpfCallsTrace.cfg", workers=1, timeout=900, deadlock=False,
                    env={"TRACE_FILE": path})
        if res.error or not res.ok:
            raise T.MachineryError(f"BpfCallsTrace failed:\n{res.error}\n{res.out[-2000:]}")
        ctx.tlc_stats(res)
        done = {r[0]: (r[1], r[2]) for r in T.printed_records(res, "RESULT")}
        for i in range(1, len(part) + 1):
            if i not in done or done[i][0] != done[i][1]:
                raise T.MachineryError(f"trace {start + i} not validated to its end: {done.get(i)}")
        for tid, l, why in T.printed_records(res, "REJECT"):
            rejects.setdefault(start + tid - 1, []).append((l - 1, why))
        os.remove(path)

    ctx.exhaustive = False
    ctx.rule = ("one evaluation per bpf() map command reaching ebpfcat.bpf.bpf; distinct = (API operation, "
                "format, map type, key/value size, measured buffer sizes, result); non-trivial = the command "
                "names a registered map, i.e. the kernel would use the buffers")
    ops_seen = {}
    for ti, (t, m) in enumerate(zip(traces, meta)):
        ctx.traces += 1
        for e in m["events"]:
            if e["op"] in ("create", "prog_load", "mmap", "note"):
                continue
            lab = e.get("label") or {}
            ops_seen[lab.get("op", "?")] = ops_seen.get(lab.get("op", "?"), 0) + 1
            ctx.evaluated((lab.get("op"), lab.get("fmt"), e["op"], e["type"], e["ks"], e["vs"], e["keybuf"],
                           e["valbuf"], e["nextbuf"], e["res"]), nontrivial=e["known"])
        if ti % 50 == 0:
            ctx.sample(dict(env=m["env"], decl=m["decl"],
                            events=[{f: e[f] for f in EVFIELDS} for e in m["events"][:12]]))
        for (idx, why) in rejects.get(ti, []):
            e = m["events"][idx]
            need = e["vs"] if e["type"] not in ("percpu", "percpu_hash") \
                else fakekernel.roundup8(e["vs"]) * m["env"]["possible"]       # for the report only
            case = dict(env=m["env"], why=why, label=e.get("label"), api=e.get("api"), fmt=e.get("fmt"),
                        event={f: e[f] for f in EVFIELDS}, declval=e.get("declval"), declkey=e.get("declkey"),
                        found=dict(key=e.get("khow"), val=e.get("vhow"), next=e.get("nhow")),
                        kernel_transfers=need, decl=m["decl"], ident=m["ident"], index=idx)
            ctx.case_failed(case, f"{why}: {(e.get('label') or {}).get('op')} fmt={(e.get('label') or {}).get('fmt') or e.get('fmt')!r} -> bpf "
                                  f"{e['op']} on {e['type']} map (key {e['ks']}, value {e['vs']}) with key buffer "
                                  f"{e['keybuf']}, value buffer {e['valbuf']}, next-key buffer {e['nextbuf']}; "
                                  f"possible CPUs {m['env']['possible']}, online {m['env'].get('online') or m['env'].get('online_seen')}, "
                                  f"process confined to {m['env'].get('affinity') or m['env'].get('pin') or 'all'} ({m['env']['name']}"
                                  f"{' mask ' + m['env']['mask'] if m['env'].get('mask') else ''})")
    ctx.extra["api_operations"] = ops_seen
    ctx.extra["environments"] = envs
    ctx.assumptions.append("the fake kernel's transfer sizes follow kernel/bpf/syscall.c (bpf_map_value_size); "
                           "simulated hosts differ from the real one only in the CPU counts reported")
    classify(ctx)


# ---- tally of failures by defect class (reporting only; nothing is suppressed) ------------------------
def pred_f10(case, reason=None):
    """HashGlobalVarDesc.__get__ sizes the value buffer from the variable's own format"""
    return (case["label"] or {}).get("op") == "hashvar.get" and case["why"] == "value buffer too small" \
        and case["event"]["vs"] == 8 and case["event"]["valbuf"] == case["declval"] < 8


def pred_cpu_count(case, reason=None):
    """PerCPUReader.read sizes the buffer with another CPU count of the host (online CPUs, CPUs the process is
    confined to) instead of the possible CPUs"""
    env = case["env"]
    counts = {env.get("online"), env.get("affinity"), env.get("pin"), env.get("online_seen")} - {None}
    stride = fakekernel.roundup8(case["event"]["vs"])
    return (case["label"] or {}).get("op") in ("percpu.read", "percpu-read") and case["why"] == "value buffer too small" \
        and any(n < env["possible"] and case["event"]["valbuf"] == stride * n for n in counts)


def classify(ctx):
    tally = {"F10 hash variable read with its own format": 0, "per-CPU buffer from another CPU count than the possible CPUs": 0,
             "not explained": 0}
    for case, reason in ctx.failures:
        if pred_f10(case):
            tally["F10 hash variable read with its own format"] += 1
        elif pred_cpu_count(case):
            tally["per-CPU buffer from another CPU count than the possible CPUs"] += 1
        else:
            tally["not explained"] += 1
    ctx.extra["failure_tally"] = tally
    if ctx.failures:
        print("C10 failure tally:", json.dumps(tally))
