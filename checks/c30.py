"""C30 - slow sync groups exchange process data and check working counters.

Spec: spec/SlowCycle.tla (cycle = Send ; Receive ; Update), MC_SlowCycle (exhaustive on small
constants, arbitrary and honest segment), SlowCycleTrace (batched trace validation).

Binding: the real SyncGroup.start()/run() runs on harness.simloop (virtual time; the module's
`monotonic` is the loop clock) with a real SimpleEtherCat attached to harness.simbus.  Terminals
are real EBPFTerminal objects with PacketDesc and ProcessDesc variables (bytes, 16-bit words,
bits 0-7, ProcessDesc through PDO entries as wide as or wider than the variable), FMMU and
directly addressed; the group really maps the FMMUs and walks the AL state machine through the
simulated terminals.  For the group's cyclic frames the transport policy lets the simulated
segment process the frame (inputs come out of the terminals' memory through the FMMUs the group
programmed, outputs go in) and then overrides the returned working counters as the case script
says (correct, off by a few, 0, >= 256 with matching or non-matching low byte); a frame may
also be left unanswered or be answered only after the group has given up on it and sent again
(the harness then delivers the late response to whatever the group is waiting for).  In two of
five cases the group's task is cancelled (while it waits for a response, or between an update
and the next frame) and the SAME group object is started again with the same devices, whose
variables have been read and written before; that is a Restart in the trace and the run after
it has to meet the same demands.  Recording
devices (Device subclasses with TerminalVar links) log in update() what they read and set.
The trace - frames on the wire, responses, and per cycle the device log with wkc_errors - is
validated by TLC against SlowCycle; Python decides nothing.
"""
import asyncio
import logging
import random

from harness import tlc as T

PROPERTY = "C30"
LEVEL = "model_checking"

PROFILES = ("low", "low", "low", "high_match", "high_mismatch", "high_mixed")
MODES = ("fmmu", "direct", "mixed", "aero")   # "aero": with the package's AerotechBase terminals
RESTARTS = (1, 3)                        # index % 5 of the cases that start the group twice
LOSSKINDS = ("none", "lost", "late")     # the kind of unanswered frame a run is sure to contain
JAVA_ENV = {"JAVA_TOOL_OPTIONS": "-XX:ParallelGCThreads=2"}


# ---------------------------------------------------------------------------------------------
# case generation (pure function of the seed and the size parameters)

def gen_case(seed, index, big=False):
    rng = random.Random(seed)
    profile = PROFILES[index % len(PROFILES)]
    mode = MODES[(index // len(PROFILES)) % len(MODES)]
    ncycles = rng.randint(4, 8 if big else 6)
    nterm = rng.randint(1, 4 if big else 3)
    terms, tvars = [], []
    if mode == "aero":
        nterm = max(nterm, 2)
    stations = rng.sample(range(1, 30000), nterm)
    # kind of terminal: "fmmu" / "direct" = EBPFTerminal with use_fmmu True / False; "aero" =
    # a subclass of terminals.AerotechBase, the package's terminal class with an allocate of
    # its own (first in_size bytes of a larger input PDO through an FMMU plus a one-byte FPRD,
    # first out_size bytes of the output PDO by FPWR plus a one-byte FPWR)
    kinds = [dict(fmmu="fmmu", direct="direct",
                  mixed=rng.choice(["fmmu", "fmmu", "direct", "direct", "aero"]),
                  aero=rng.choice(["fmmu", "direct", "aero", "aero"]))[mode] for _ in range(nterm)]
    need_in = set()
    if mode == "aero":
        # for sure: an FMMU input terminal at a lower station than an Aerotech input terminal
        a, b = sorted(rng.sample(range(nterm), 2), key=lambda i: stations[i])
        kinds[a], kinds[b] = rng.choice(["fmmu", "fmmu", "aero"]), "aero"
        need_in = {a, b}
    for i in range(nterm):
        in_sz, out_sz = rng.randint(0, 3), rng.randint(0, 3)
        if i in need_in:
            in_sz = in_sz or rng.randint(1, 3)
        if in_sz == 0 and out_sz == 0:
            if rng.random() < 0.5:
                in_sz = rng.randint(1, 3)
            else:
                out_sz = rng.randint(1, 3)
        kind = kinds[i]
        terms.append(dict(station=stations[i], kind=kind, fmmu=kind == "fmmu",
                          nfmmu=rng.randint(2, 4), in_sz=in_sz, out_sz=out_sz,
                          pdo_in_sz=in_sz + (rng.randint(1, 4) if kind == "aero" and in_sz else 0),
                          pdo_out_sz=out_sz + (rng.randint(1, 4) if kind == "aero" and out_sz else 0),
                          in_off=0x1000 + 0x80 * i + rng.choice([0, 3, 0x10, 0x22]),
                          out_off=0x1800 + 0x80 * i + rng.choice([0, 5, 0x10, 0x22])))
        # inputs: may overlap each other
        for _ in range(rng.randint(1, 3) if in_sz else 0):
            kind = rng.choice("BBHbbb")
            if kind == "H" and in_sz >= 2:
                tvars.append(dict(term=i, sm="in", pos=rng.randint(0, in_sz - 2), n=2, bit=-1))
            elif kind == "B":
                tvars.append(dict(term=i, sm="in", pos=rng.randint(0, in_sz - 1), n=1, bit=-1))
            else:
                tvars.append(dict(term=i, sm="in", pos=rng.randint(0, in_sz - 1), n=1,
                                  bit=rng.randint(0, 7)))
        # outputs: disjoint footprints
        pos = 0
        while pos < out_sz:
            kind = rng.choice("BHbbx")
            if kind == "H" and pos + 2 <= out_sz:
                tvars.append(dict(term=i, sm="out", pos=pos, n=2, bit=-1))
                pos += 2
                continue
            if kind == "B":
                tvars.append(dict(term=i, sm="out", pos=pos, n=1, bit=-1))
            elif kind == "b":
                for b in sorted(rng.sample(range(8), rng.randint(1, 3))):
                    tvars.append(dict(term=i, sm="out", pos=pos, n=1, bit=b))
            pos += 1
    if not tvars:
        t0 = terms[0]
        tvars.append(dict(term=0, sm="in" if t0["in_sz"] else "out", pos=0, n=1, bit=-1))
    # how the terminal class declares the variable: PacketDesc(sm, pos, size), or
    # ProcessDesc(index, subindex[, size]) resolved through the terminal's PDO mapping, whose
    # entry may be wider than the variable (a bit - bit 0 included - of a byte or word entry,
    # a byte of a word entry) or exactly it (then without an explicit size)
    for v in tvars:
        sz = terms[v["term"]]["in_sz" if v["sm"] == "in" else "out_sz"]
        v["desc"] = rng.choice(["packet", "process"])
        fits_word = v["pos"] + 2 <= sz
        if v["bit"] >= 0:
            v["entry"], v["explicit"] = rng.choice("BH" if fits_word else "B"), True
        elif v["n"] == 1:
            v["entry"] = rng.choice("BH" if fits_word else "B")
            v["explicit"] = v["entry"] == "H" or rng.random() < 0.3
        else:
            v["entry"] = rng.choice("HB")
            v["explicit"] = v["entry"] == "B" or rng.random() < 0.3
    ndev = rng.randint(1, 3)
    links = [[] for _ in range(ndev)]        # per device: indices into tvars
    for vi, v in enumerate(tvars):
        if v["sm"] == "out":
            if rng.random() < 0.9:
                links[rng.randrange(ndev)].append(vi)
        else:
            for d in range(ndev):
                if rng.random() < 0.6:
                    links[d].append(vi)
    if not any(links):
        links[0].append(0)

    def value(v):
        if v["bit"] >= 0:
            return rng.randint(0, 1)
        top = 256 ** v["n"] - 1
        return rng.choice([0, 1, top, rng.randint(0, top), rng.randint(0, top)])

    losskind = LOSSKINDS[(index // (len(PROFILES) * len(MODES))) % len(LOSSKINDS)]

    def one_run(ncycles):
        """one start() of the group: the devices' plans, the segment's script, and how the
        run's task ends ("send": cancelled while it waits for the answer to the frame after
        the last update; "sleep": cancelled between that update and the next frame)"""
        # what the devices do in update number c (1-based)
        cycles = []
        for c in range(1, ncycles + 1):
            plans = []
            for d in range(ndev):
                ops = []
                for vi in links[d]:
                    v = tvars[vi]
                    if v["sm"] == "in":
                        ops += [("get", vi)] * rng.choice([0, 1, 1, 1, 2])
                    else:
                        ops += [("set", vi, value(v)) for _ in range(rng.choice([0, 1, 1, 2]))]
                rng.shuffle(ops)
                plans.append(ops)
            cycles.append(dict(plans=plans))
        # what the segment does with the j-th cyclic frame the group sends (1-based): answered in
        # time, never answered ("lost"), or answered after the group's 20 ms patience ("late")
        nframes = ncycles + 6
        forced = (rng.randint(2, ncycles), 0)     # a wrong counter from the second frame on, for sure
        forced_loss = rng.choice([f for f in range(2, ncycles + 1) if f != forced[0]] or [0])
        frames = []
        for j in range(1, nframes + 1):
            wk = []
            for dg in range(8):
                wrong = rng.random() < 0.45 or (j, dg) == forced
                wk.append(_wkc_kind(rng, profile, wrong, must_high=(j, dg) == forced))
            fate, delay = "answer", rng.choice([0, 0, 0.0005, 0.004, 0.009, 0.012, 0.019])
            r = rng.random()
            if losskind != "none" and j != forced[0] and j <= ncycles + 2:
                if j == forced_loss:
                    fate = losskind
                elif r < 0.08:
                    fate = "lost"
                elif r < 0.16:
                    fate = "late"
            if fate == "late":
                delay = rng.choice([0.021, 0.026, 0.033, 0.047])
            frames.append(dict(
                fate=fate, delay=delay, wkc=wk,
                inputs=[[rng.choice([0, 255, rng.randint(0, 255), rng.randint(0, 255)])
                         for _ in range(t["in_sz"])] for t in terms]))
        return dict(ncycles=ncycles, cycles=cycles, frames=frames,
                    stop=rng.choice(["send", "send", "sleep"]))

    # the same group object may be started again after its task ended (same devices, whose
    # variables have been written before): 2 of 5 cases, independent of profile/mode/losskind
    nruns = 1 + (index % 5 in RESTARTS) + (big and index % 5 == 3)
    runs = [one_run(ncycles)] + [one_run(rng.randint(2, 4)) for _ in range(nruns - 1)]
    return dict(seed=seed, index=index, big=big, profile=profile, mode=mode, ncycles=ncycles,
                losskind=losskind, terms=terms, vars=tvars, ndev=ndev, links=links, runs=runs,
                cycletime=rng.choice([0.01, 0.01, 0.002, 0.03]))


def _wkc_kind(rng, profile, wrong, must_high):
    """how the returned counter of one datagram is made: ("nat",) what the segment computes,
    ("exp", d) expected + d, ("abs", v)"""
    if not wrong:
        return rng.choice([("nat",), ("exp", 0)])
    low = [("exp", 1), ("exp", -1), ("exp", 2), ("abs", 0), ("abs", 255), ("exp", 7),
           ("abs", rng.randint(0, 255))]
    match = [("exp", 256), ("exp", 512), ("exp", 256 * rng.randint(1, 255)), ("exp", 0xff00)]
    mismatch = [("exp", 257), ("exp", 255), ("abs", 256), ("abs", 65535), ("abs", 0x8000),
                ("abs", rng.randint(256, 65535))]
    if profile == "low":
        return rng.choice(low)
    if profile == "high_match":
        return rng.choice(match if must_high or rng.random() < 0.6 else low)
    if profile == "high_mismatch":
        return rng.choice(mismatch if must_high or rng.random() < 0.6 else low)
    return rng.choice(match + mismatch if must_high else match + mismatch + low)


# ---------------------------------------------------------------------------------------------
# one run of the real code

class _Run:
    def __init__(self):
        self.ev = []
        self.run = 0            # which start() of the group is running
        self.nupd = 0           # updates recorded so far in this run
        self.lost = self.late = self.stray = 0
        self.ran, self.reads, self.sets = [], [], []
        self.returned, self.sent, self.expected = [], [], []
        self.cfg = None


def run_case(case, budget=60000):
    from harness import simbus, simloop
    import ebpfcat.ebpfcat as E
    from ebpfcat.ethercat import SyncManager

    h = _Run()
    terms, tvars = case["terms"], case["vars"]

    # terminal classes with PacketDesc variables
    tclasses, tpdos = [], []
    for i, t in enumerate(terms):
        attrs, pdos = {}, {}
        for vi, v in enumerate(tvars):
            if v["term"] == i:
                size = v["bit"] if v["bit"] >= 0 else ("B" if v["n"] == 1 else "H")
                sm = SyncManager.IN if v["sm"] == "in" else SyncManager.OUT
                if v["desc"] == "packet":
                    attrs[f"pv{vi}"] = E.PacketDesc(sm, v["pos"], size)
                else:
                    pdos[0x6000 + 0x10 * vi, 1] = (sm, v["pos"], v["entry"])
                    attrs[f"pv{vi}"] = E.ProcessDesc(0x6000 + 0x10 * vi, 1, size) \
                        if v["explicit"] else E.ProcessDesc(0x6000 + 0x10 * vi, 1)
        if t["kind"] == "aero":
            from ebpfcat import terminals
            attrs.update(in_size=t["in_sz"], out_size=t["out_sz"])
            tclasses.append(type(f"Term{i}", (terminals.AerotechBase,), attrs))
        else:
            tclasses.append(type(f"Term{i}", (E.EBPFTerminal,), attrs))
        tpdos.append(pdos)

    class RecDev(E.Device):
        def update(self):
            h.ran.append(self.idx + 1)
            cyc = case["runs"][h.run]["cycles"]
            plan = cyc[h.nupd]["plans"][self.idx] if h.nupd < len(cyc) else []
            for op in plan:
                name = f"v{op[1]}"
                if op[0] == "get":
                    h.reads.append(dict(v=op[1] + 1, val=int(getattr(self, name))))
                else:
                    setattr(self, name, bool(op[2]) if tvars[op[1]]["bit"] >= 0 else op[2])
                    h.sets.append(dict(v=op[1] + 1, val=op[2]))
    for vi in range(len(tvars)):
        tv = E.TerminalVar()
        tv.__set_name__(RecDev, f"v{vi}")
        setattr(RecDev, f"v{vi}", tv)

    async def main():
        loop = asyncio.get_running_loop()
        sims = [simbus.SimTerminal(f"S{i}", fmmus=t["nfmmu"], station=t["station"])
                for i, t in enumerate(terms)]
        bus = simbus.SimBus(sims)
        ec = E.SimpleEtherCat("x")
        objs = []
        for i, t in enumerate(terms):
            o = tclasses[i](ec)
            o.name = f"T{i}"
            o.position = t["station"]
            o.use_fmmu = t["fmmu"]
            o.pdo_in_sz, o.pdo_out_sz = t["pdo_in_sz"], t["pdo_out_sz"]
            o.pdo_in_off = t["in_off"] if t["in_sz"] else None
            o.pdo_out_off = t["out_off"] if t["out_sz"] else None
            o.fmmu_used = [None] * t["nfmmu"]
            o.pdos = tpdos[i]
            objs.append(o)
        devs = []
        for d in range(case["ndev"]):
            dev = RecDev()
            dev.idx = d
            for vi in case["links"][d]:
                setattr(dev, f"v{vi}", getattr(objs[tvars[vi]["term"]], f"pv{vi}"))
            devs.append(dev)
        E.SyncGroup.packet_index = 1000
        sg = E.SyncGroup(ec, devs)
        sg.cycletime = case["cycletime"]
        state = dict(frames=0, run=0, restart=False, cancelled=False, t_send=0.0)

        def cancel(r):
            if r == state["run"] and not state["cancelled"] and sg.task is not None \
                    and not sg.task.done():
                state["cancelled"] = True
                sg.task.cancel()

        def snapshot():
            return dict(
                terms=[dict(station=t["station"], fmmu_in=t["kind"] != "direct",
                            fmmu_out=t["kind"] == "fmmu", in_off=t["in_off"],
                            out_off=t["out_off"],
                            fm=[dict(logical=f["logical"], length=f["length"], phys=f["phys"],
                                     dir=f["type"]) for f in s.fmmus()])
                       for t, s in zip(terms, sims)],
                vars=[dict(term=v["term"] + 1, sm=v["sm"], pos=v["pos"], n=v["n"], bit=v["bit"])
                      for v in tvars],
                ndev=case["ndev"])

        def harvest():
            if h.ran or h.reads or h.sets:
                h.ev.append(dict(t="update", ran=h.ran, reads=h.reads, sets=h.sets,
                                 errs=int(sg.wkc_errors)))
                h.ran, h.reads, h.sets = [], [], []
                h.nupd += 1

        def dgs(frame):
            return [dict(cmd=d["cmd"], adp=d["adp"], ado=d["ado"], laddr=d["laddr"],
                         len=d["len"], data=list(d["data"]), wkc=d["wkc"])
                    for d in simbus.parse_frame(frame)["dgrams"][1:]]

        def deliver(resp, ret, exp, idx, nudged=False):
            """the response reaches the master: it is the answer to the frame on the wire if
            the master is waiting for one with this index, else a stray frame (not an event)"""
            if not nudged and abs(loop.time() - (state["t_send"] + 0.02)) < 1e-7:
                # the very instant the group's patience with the frame on the wire ends: whether
                # asyncio hands the response over or times out is a tie the property does not
                # speak about; the segment is a little later instead
                loop.call_later(1e-5, deliver, resp, ret, exp, idx, True)
                return
            fut = ec.wait_futures.get(idx)
            if fut is not None and not fut.done():
                h.returned.append(ret)
                h.expected = exp
                h.ev.append(dict(t="recv", dg=dgs(resp)))
                cur = case["runs"][state["run"]]
                if cur["stop"] == "sleep" and h.nupd + 1 >= cur["ncycles"]:
                    # ends the run shortly after the update that this response causes
                    loop.call_later(1e-4, cancel, state["run"])
            else:
                h.stray += 1
            ec.datagram_received(resp, None)

        def policy(frame):
            if sg.task is None or simbus.frame_index(frame) != sg.packet_index:
                return [("return", 0.0)]
            harvest()
            cur = case["runs"][state["run"]]
            if h.cfg is None:
                h.cfg = snapshot()
            if state["restart"]:
                state["restart"] = False
                h.ev.append(dict(t="restart", cfg=snapshot()))
            if h.ev and h.ev[-1]["t"] == "send":
                # sent again with no response accepted in between: the group gave up waiting
                h.ev.append(dict(t="lost", errs=int(sg.wkc_errors)))
            state["frames"] += 1
            state["t_send"] = loop.time()
            j = state["frames"]
            sent = dgs(frame)
            h.ev.append(dict(t="send", dg=sent))
            h.sent.append([d["wkc"] for d in sent])
            if h.nupd >= cur["ncycles"] or j > len(cur["frames"]):
                loop.call_soon(cancel, state["run"])
                return [("lose",)]
            sc = cur["frames"][j - 1]
            if sc["fate"] == "lost":
                h.lost += 1
                return [("lose",)]
            for t, s, data in zip(terms, sims, sc["inputs"]):
                if t["in_sz"]:
                    s.mem[t["in_off"]:t["in_off"] + t["in_sz"]] = bytes(data)
            resp = bytearray(bus.process(frame))
            pf = simbus.parse_frame(bytes(resp))["dgrams"][1:]
            ret, exp = [], []
            for n, (d, s0) in enumerate(zip(pf, sent)):
                e = (d["wkc"] - s0["wkc"]) & 0xffff      # terminals that processed it on the bus
                kind = sc["wkc"][n] if n < len(sc["wkc"]) else ("nat",)
                w = d["wkc"] if kind[0] == "nat" else \
                    (e + kind[1]) & 0xffff if kind[0] == "exp" else kind[1]
                p = d["pos"] + d["len"]
                resp[p:p + 2] = w.to_bytes(2, "little")
                ret.append(w)
                exp.append(e)
            h.late += sc["fate"] == "late"
            if sc["delay"] <= 0:
                loop.call_soon(deliver, bytes(resp), ret, exp, sg.packet_index)
            else:
                loop.call_later(sc["delay"], deliver, bytes(resp), ret, exp, sg.packet_index)
            return [("lose",)]

        saved = E.monotonic
        E.monotonic = loop.time
        tr, sendtask = simbus.attach(ec, bus, policy)
        try:
            for r, cur in enumerate(case["runs"]):
                # r > 0: the same group object, with the same devices, is started again
                state.update(run=r, frames=0, restart=r > 0, cancelled=False)
                h.nupd, h.run = 0, r
                task = sg.start()
                over = False
                try:
                    await task
                    harvest()
                    over = "ended"
                except asyncio.CancelledError:
                    harvest()
                    if not state["cancelled"]:
                        over = "cancelled"
                except Exception as e:      # the run loop died: an outcome for the spec to judge
                    harvest()
                    over = "crash"
                    exc = f"{type(e).__name__}: {e}"[:300]
                if state["restart"]:        # started again but never got to send a frame
                    state["restart"] = False
                    h.ev.append(dict(t="restart", cfg=snapshot()))
                    over = over or "nothing sent after restart"
                if over:
                    h.ev.append(dict(t=over, exc=exc) if over == "crash" else dict(t=over))
                    break
        finally:
            E.monotonic = saved
            sendtask.cancel()

    logging.disable(logging.CRITICAL)
    try:
        try:
            simloop.run(main, budget=budget)
        except simloop.StallError as e:
            h.ev.append(dict(t="stall", exc=str(e)))
    finally:
        logging.disable(logging.NOTSET)
    if h.cfg is None:       # the group never sent a cyclic frame
        h.cfg = dict(terms=[dict(station=t["station"], fmmu_in=t["kind"] != "direct",
                            fmmu_out=t["kind"] == "fmmu", in_off=t["in_off"],
                                 out_off=t["out_off"], fm=[]) for t in terms],
                     vars=[dict(term=v["term"] + 1, sm=v["sm"], pos=v["pos"], n=v["n"], bit=v["bit"])
                           for v in tvars], ndev=case["ndev"])
        if not h.ev:
            h.ev.append(dict(t="nothing sent"))
    return h


# ---------------------------------------------------------------------------------------------

def validate(ctx, wd, traces, chunk=400, timeout=900):
    """batched TLC validation; -> [(matched, length, why)] (harness.tlc.validate_traces plus the
    Why column of SlowCycleTrace)"""
    import json
    import os
    out = []
    for start in range(0, len(traces), chunk):
        part = traces[start:start + chunk]
        path = os.path.join(wd, f"traces_{start}.json")
        with open(path, "w") as f:
            json.dump(part, f)
        env = dict(JAVA_ENV)
        env["TRACE_FILE"] = path
        res = T.run(wd, "SlowCycleTrace", "SlowCycleTrace.cfg", workers=1, timeout=timeout,
                    deadlock=False, env=env, heap="1g")
        if res.error or res.invariant_violated:
            raise T.MachineryError("trace validation SlowCycleTrace failed:\n"
                                   f"{res.error or res.counterexample()}\n{res.out[-2000:]}")
        ctx.tlc_stats(res)
        recs = {r[0]: r[1:] for r in T.printed_records(res, "RESULT")}
        if len(recs) != len(part):
            raise T.MachineryError(f"SlowCycleTrace: {len(recs)} results for {len(part)} traces\n"
                                   + res.out[-3000:])
        out += [tuple(recs[i]) for i in range(1, len(part) + 1)]
        os.remove(path)
    return out


def _judge(ctx, case, h, result):
    matched, length, why = result
    ctx.traces += 1
    wrong2 = any(w != e for ret in h.returned[1:] for w, e in zip(ret, h.expected))
    nreads = sum(len(e["reads"]) for e in h.ev if e["t"] == "update")
    nsets = sum(len(e["sets"]) for e in h.ev if e["t"] == "update")
    high = any(w >= 256 for ret in h.returned for w in ret)
    ctx.evaluated((case["seed"], case["index"], case["big"]),
                  nontrivial=wrong2 and nreads > 0 and nsets > 0)
    key = ("high" if high else "low") + "/" + case["mode"]
    unanswered = sum(1 for i, e in enumerate(h.ev) if e["t"] == "lost"
                     and any(x["t"] == "update" for x in h.ev[:i]))
    lk = ctx.extra.setdefault("runs_with_unanswered_frame_after_first_cycle",
                              dict(none=0, lost=0, late=0))
    if unanswered:
        lk["late" if h.late else "lost"] += 1
    else:
        lk["none"] += 1
    ctx.extra["stray_responses"] = ctx.extra.get("stray_responses", 0) + h.stray
    nrestart = sum(1 for e in h.ev if e["t"] == "restart")
    rs = ctx.extra.setdefault("runs_by_number_of_restarts", {})
    rs[str(nrestart)] = rs.get(str(nrestart), 0) + 1
    ctx.extra.setdefault("runs_by_kind", {}).setdefault(key, 0)
    ctx.extra["runs_by_kind"][key] += 1
    if matched == length:
        if len(ctx.samples) < 3 and wrong2 and nreads and nsets:
            ctx.sample(dict(seed=case["seed"], index=case["index"], mode=case["mode"],
                            profile=case["profile"], cfg=h.cfg, ev=h.ev[:7]))
        return
    bad = h.ev[matched]
    cyc = sum(1 for e in h.ev[:matched + 1] if e["t"] == "send")
    fail = dict(
        seed=case["seed"], index=case["index"], big=case["big"], mode=case["mode"],
        profile=case["profile"], ncycles=case["ncycles"], losskind=case["losskind"],
        starts=len(case["runs"]), stops=[r["stop"] for r in case["runs"]],
        frames_lost=h.lost, frames_late=h.late, stray_responses=h.stray,
        events=[e["t"] for e in h.ev],
        rejected_at=matched, rejected_event=bad["t"], rejected_cycle=cyc, why=why,
        expected=h.expected, returned_wkc=h.returned, sent_wkc=h.sent,
        errs=[e["errs"] for e in h.ev if e["t"] == "update"],
        event=bad if bad["t"] != "send" else dict(t="send", wkc=[d["wkc"] for d in bad["dg"]]),
        cfg=h.cfg)
    ctx.case_failed(fail, f"trace rejected by SlowCycle at event {matched} ({bad['t']}, frame "
                          f"{cyc}; events {' '.join(e['t'] for e in h.ev[:matched + 1])}): {why}; "
                          f"returned counters {h.returned[:cyc]}, expected {h.expected}, frame "
                          f"counters sent {h.sent[:cyc]}")


def _mc_one(wd, honest, quick):
    cycles = 1 if quick else 3
    wk = "{0, 1, 2, 258}" if quick and not honest else "{0, 1, 2, 257, 258}"
    T.write_cfg(wd, "mc.cfg", f"""SPECIFICATION MCSpec
CONSTANTS MaxCycles = {cycles}
          ByteVals = {{0, 1, 2, 3}}
          InVals = {{0, 3}}
          WkcVals = {wk}
          Honest = {"TRUE" if honest else "FALSE"}
CONSTRAINT Bound
INVARIANTS TypeOK
           ErrAccounting
           ClearedOnWire
           OutputsOnWire
           HonestDetect
""")
    return T.run(wd, "MC_SlowCycle", "mc.cfg", workers=4, timeout=900, heap="1g", env=JAVA_ENV)


def model_check_start(ctx):
    """the two exhaustive models run in the background while Python drives the real code"""
    import concurrent.futures
    pool = concurrent.futures.ThreadPoolExecutor(2)
    return pool, [(honest, pool.submit(_mc_one, ctx.workdir(f"C30-mc{int(honest)}"), honest, ctx.quick))
                  for honest in (False, True)]


def model_check_finish(ctx, started):
    pool, futs = started
    try:
        for honest, fut in futs:
            res = T.require_clean(fut.result(), "MC_SlowCycle")
            if not res.ok:
                raise T.MachineryError("SlowCycle.tla violates its own invariants / deadlocks:\n"
                                       + res.counterexample())
            ctx.tlc_stats(res)
            ctx.extra[f"mc_slowcycle_{'honest' if honest else 'any'}"] = dict(
                distinct=res.distinct, generated=res.generated,
                cycles=(1 if ctx.quick else 3) + 1, wall=round(res.wall, 1))
    finally:
        pool.shutdown(wait=True)


def run(ctx):
    wd = ctx.workdir()
    # 1. the design
    started = model_check_start(ctx)
    # 2. real runs: deterministic gating set, then VERIF_SEED extras
    n_gate, n_extra = (300, 40) if ctx.quick else (1500, 300)
    cases = [gen_case(30000 + i, i, big=False) for i in range(n_gate)]
    if not ctx.quick:
        cases += [gen_case(90000 + i, i, big=True) for i in range(600)]
    cases += [gen_case(ctx.rng.randrange(2 ** 31), i, big=not ctx.quick) for i in range(n_extra)]
    try:
        runs = [run_case(c) for c in cases]
    finally:
        model_check_finish(ctx, started)
    # 3. TLC judges
    results = validate(ctx, wd, [dict(cfg=h.cfg, ev=h.ev) for h in runs])
    ctx.rule = ("one case = one configuration (1-3 terminals [thorough: 4], FMMU / direct / mixed, "
                "byte, word and bit variables, 1-3 recording devices) run for 4-6 [8] cycles of the "
                "real SyncGroup.run with scripted inputs, response delays, returned working counters "
                "and (two thirds of the runs) frames that are never answered or answered after the "
                "group's 20 ms patience, in the second cycle or later, and (two fifths of the runs) the "
                "same group cancelled and started again for 2-4 more cycles; non-trivial = some datagram returns a wrong counter in a cycle >= 2 and "
                "the devices both read an input and set an output")
    ctx.exhaustive = False
    ctx.extra["gating_runs"] = len(cases) - n_extra
    ctx.extra["seeded_runs"] = n_extra
    ctx.assumptions += [
        "a frame is answered in time, late or never, but at most once (no duplicated responses); a "
        "response that arrives while the group waits for one is the response to the frame on the "
        "wire, one that arrives while it waits for none is a stray frame and not an event",
        "no response arrives at the very instant the group's 20 ms wait for the frame on the wire "
        "ends (asyncio then drops a response it has already taken; the harness delivers 10 us later)",
        "a send that follows a send with no response accepted in between is read as the group "
        "having given up waiting (Lose); the 20 ms themselves are not part of the specification",
        "the first (identification) datagram of a frame is not a process-data datagram",
        "two settings of one output in one update: the last one counts; output variables do not "
        "overlap and belong to one device",
    ]
    for c, h, r in zip(cases, runs, results):
        _judge(ctx, c, h, r)


def replay(ctx, case):
    wd = ctx.workdir()
    c = gen_case(case["seed"], case["index"], big=case.get("big", False))
    h = run_case(c)
    r = validate(ctx, wd, [dict(cfg=h.cfg, ev=h.ev)])[0]
    _judge(ctx, c, h, r)
    print(f"replayed seed={case['seed']} index={case['index']}: matched {r[0]} of {r[1]} events; {r[2]}")
