"""C22 - the dispatcher keeps fast groups running under loss and injection.

Spec: spec/DispatcherTable.tla (phase 1) + spec/Dispatcher.tla (phase 2) over spec/Ebpf.tla.
The REAL emitted bytecode is the step function of the model: EtherXDP().assemble() and a real
FastSyncGroup's program (real devices over hand-configured terminals) are handed to TLC, which
computes the transition table T[counter byte, frame index byte, variant] by running them (tail call
included) on the machine; with the kernel available every entry is executed again through a real
PROG_ARRAY + PROG_TEST_RUN and must agree.  TLC then explores all histories of deliveries (any
order), losses, injections, Enable and Unregister with <= 3 frames in flight breadth-first and
judges the invariants of the property."""
import json
import os

from harness import tlc as T, kernel
from harness import fastgroup as FG

PROPERTY = "C22"
LEVEL = "model_checking"

GATING = ["TableCovers", "NeverDropped", "KeepsRunning", "KeepsRunningWeak", "KeepsRunningBusOnly", "Drains",
          "UnregEthertype", "UnregNeverRuns", "OwnCounterOnly"]


def table(ctx, tag="C22"):
    """build the programs with the real classes, let TLC compute the table, re-execute it in the kernel.
    -> (rig, entries, table path, workdir, K, cbs)"""
    lay = FG.HISTORY_LAYOUT      # one direct and one FMMU terminal, two write datagrams, ethertype != 0x88A4
    r = FG.build(lay, g=5)
    if ctx.quick:
        K, cbs = 4, [(246 + i) % 256 for i in range(20)]           # across the 255 -> 0 wrap
        starts = cbs[:2]
    else:
        K, cbs = 8, list(range(256))
        starts = cbs
    nd = 2 * K + 2
    his = []
    for cb, d, v in [(255, 1, 4), (255, 0, 5), (254, 1, 3), (7, 0, 4), (8, nd - 1, 4), (9, 1, 1), (10, 3, 5),
                     (0, 1, 4), (1, 1, 5), (cbs[3], 2, 2)]:
        if cb in cbs:
            ix = 0 if d == nd - 1 else (cb - d) % 256
            for hi in ([255, 255, 255], [1, 2, 3], [255, 0, 0]):
                his.append(dict(cb=cb, ix=ix, v=v, hi=hi))
    ff = FG.foreign_frames(r, ctx.rng, 6 if ctx.quick else 40)
    foreign = [(p, cbs[(3 * i) % len(cbs)], True) for i, (_, p) in enumerate(ff)] + \
              [(p, cbs[(5 * i + 1) % len(cbs)], False) for i, (_, p) in enumerate(ff)]
    labels = [lab for lab, _ in ff] + [lab for lab, _ in ff]
    # any slot of the program table may be handed out (register_sync_group: randrange(MAX_PROGS)): the edges and
    # some slots in between (thorough: all of them) must behave exactly like the modelled group
    groups = [h for h in ([0, 1, 31, 62, 63] if ctx.quick else range(64)) if h != r.g]
    gcbs = [cbs[0], 255] if ctx.quick else [6, 7]      # an even and an odd counter value
    entries, fverd, res = FG.run_table(ctx, r, K, cbs, his, foreign, workers=6, groups=groups, gcbs=gcbs)
    nd_ = 2 * K + 2
    ngr = 0
    for (cb, ix, v), rec in sorted(res.groups.items()):
        for gj in rec["groups"]:
            ngr += 1
            ctx.traces += 1
            ctx.evaluated(("slot", gj["h"], cb, ix, v), nontrivial=gj["row"]["cb2"] != cb)
            if not gj["same"]:
                diff = {k: (gj["row"][k], rec["base"][k]) for k in rec["base"] if gj["row"][k] != rec["base"][k]}
                ctx.case_failed(dict(kind="slot-dependent", group=gj["h"], modelled_group=r.g, counter=cb, index=ix,
                                     variant=FG.VARIANTS[v - 1], differs=diff, row=gj["row"], base=rec["base"]),
                                f"a group at slot {gj['h']} of the program table is not treated like group {r.g}: delivery "
                                f"at counter byte {cb}, index byte {ix}, {FG.VARIANTS[v - 1]}: (slot {gj['h']}, group "
                                f"{r.g}) differ in {diff}")
    ctx.extra["slots"] = dict(groups=list(groups), counter_values=gcbs, deliveries=ngr)
    ctx.extra["table"] = dict(entries=len(entries), K=K, counter_values=len(cbs), variants=len(FG.VARIANTS),
                              program_sizes=[len(r.disp.insns), len(r.group.insns)], tlc_wall=round(res.wall, 1))
    # the effect of a delivery depends on the counter's low byte only
    for h in his:
        a = entries[(h["cb"], h["ix"], h["v"], tuple(h["hi"]))]
        b = entries[(h["cb"], h["ix"], h["v"], (0, 0, 0))]
        same = all(a[k] == b[k] for k in FG.ROW_FIELDS) and a["pkt"] == b["pkt"] and a["props"] == b["props"]
        if not same:
            ctx.case_failed(dict(kind="upper-counter-bytes-matter", key=[h["cb"], h["ix"], h["v"]], hi=h["hi"],
                                 with_hi={k: a[k] for k in FG.ROW_FIELDS}, without={k: b[k] for k in FG.ROW_FIELDS}),
                            f"delivery at counter byte {h['cb']} / index {h['ix']} behaves differently when the "
                            f"upper counter bytes are {h['hi']}: the low-byte abstraction of the model is unsound")
    # one implementation test per transition of the model
    if kernel.available():
        try:
            n, bad = FG.kernel_check_entries(r, entries, foreign, fverd)
            n3, bad3 = FG.kernel_check_groups(r, res.groups)
            n, bad = n + n3, bad + bad3
        except kernel.VerifierReject as e:
            ctx.case_failed(dict(kind="verifier-reject", log=e.log[-600:]),
                            f"the kernel verifier rejects a generated program: {str(e)[-300:]}")
            n, bad = 0, []
        ctx.extra["kernel"] = dict(executed=n, mismatches=len(bad))
        if bad:
            # the machine hands out 0 where the kernel hands out a random number: a transition that depends on it is
            # not a fault of the machine.  Compute the table again with all-ones; where THAT agrees with the kernel
            # the transition is oracle dependent, and the table for 0 stays in force (the property speaks about every
            # value the random source may give, 0 included)
            e2, f2, _ = FG.run_table(ctx, r, K, cbs, his, foreign, workers=6, orc=[255] * 8)
            n2, bad2 = FG.kernel_check_entries(r, e2, foreign, f2)
            if bad2:
                raise T.MachineryError(f"machine and kernel disagree on {len(bad2)} of {n2} transitions also with the "
                                       f"other oracle value, e.g. {bad2[:3]}")
            ctx.extra["kernel"].update(oracle_dependent_transitions=len(bad),
                                       note="these transitions depend on the random source; judged with the value 0")
    else:
        ctx.extra["kernel"] = "bpf() not available: table not re-executed in the kernel"
        ctx.assumptions.append("kernel bpf() unavailable: the machine of Ebpf.tla is trusted for the table")
    wd = ctx.workdir(tag)
    tpath = os.path.join(wd, "table.json")
    with open(tpath, "w") as f:
        json.dump(FG.table_json(entries, K, cbs, starts, r.sterile[FG.INDEX0]), f)
    return r, entries, (foreign, fverd, labels), tpath, wd, K, cbs


def run(ctx):
    r, entries, (foreign, fverd, labels), tpath, wd, K, cbs = table(ctx)
    ctx.rule = ("every delivery (counter byte x frame index byte within 2K of it or 0 x registered / output "
                "enabled / write datagrams enabled) executed by TLC on the real dispatcher + group bytecode; "
                "non-trivial = the delivery moves the counter; plus foreign frames and frames naming another "
                "index (other groups, slow-path indices, indices that agree with a group number in their low 8 / 16 "
                "/ 24 bits), each delivered until it reaches user space; histories explored breadth-first from the "
                "table")
    for (cb, ix, v, hi), o in entries.items():
        ctx.traces += 1
        ctx.evaluated((cb, ix, v, hi), nontrivial=o["cb2"] != cb)
        if (cb, ix, v) in ((cbs[5], cbs[4], 4), (cbs[5], cbs[5], 5), (cbs[5], 0, 1)):
            ctx.sample(dict(counter=cb, index=ix, variant=FG.VARIANTS[v - 1],
                            outcome={k: o[k] for k in FG.ROW_FIELDS}))
    # ---- frames that are none of the dispatcher's business pass unchanged; nothing is dropped ---------
    for (pkt, cb, reg), o, lab in zip(foreign, fverd, labels):
        ctx.traces += 1
        ctx.evaluated(("foreign", bytes(pkt).hex(), cb, reg), nontrivial=o["foreign"] or o["other"])
        if not o["ok"]:
            kind = "foreign" if o["foreign"] else "other-index" if o["other"] else "not-a-group-frame"
            steps = [dict(act=st["act"], ran=st["ran"], own_state_untouched=st["own"], ethertype_ok=st["etok"])
                     for st in o["steps"]]
            ctx.case_failed(dict(kind=kind, why=o["why"], label=lab, frame=bytes(pkt).hex(),
                                 index=int.from_bytes(bytes(pkt[18:22]), "little") if len(pkt) >= 22 else None,
                                 counter=cb, registered=reg, action=o["act"], status=o["st"], unchanged=o["same"],
                                 maps_unchanged=o["maps"], deliveries=steps),
                            f"{lab} (group {r.g} {'registered' if reg else 'not registered'}): " +
                            (f"must pass unchanged, but action {o['act']}, frame unchanged {o['same']}, maps unchanged "
                             f"{o['maps']}" if o["foreign"] else
                             f"{o['why']}: deliveries {[(st['act'], 'ran' if st['ran'] else '-') for st in o['steps']]}"
                             if o["other"] else f"dropped: action {o['act']} {o['st']}"))
    # ---- the histories ----------------------------------------------------------------------------------
    common = dict(window=ctx.quick)
    found = FG.check_invariants(ctx, wd, tpath, GATING, start_registered=True, can_unregister=True,
                                pass_bound=6, inject_unreg=False, track_bus=True, **common)
    # the subset of histories in which frames come back in the order they were sent (a ring)
    fifo = FG.check_invariants(ctx, wd, tpath, ["KeepsRunning"], start_registered=True, can_unregister=False,
                               fifo=True, **common)
    for inv, states in fifo.items():
        found[inv + "/fifo"] = states
    ctx.exhaustive = True
    ctx.extra["model"] = dict(K=K, max_flight=3, pass_bound=6, counter_values=len(cbs),
                              invariants=GATING, violated=sorted(found))
    for inv, states in found.items():
        hist = FG.history(states)
        deliveries = [e for e in hist if e.get("k") == "deliver"]
        tail = []
        for e in reversed(deliveries):
            if e["ran"]:
                break
            tail.append(e["kind"])
        last = states[-1]["vars"] if states else {}
        case = dict(kind="history", invariant=inv, fifo=inv.endswith("/fifo"), K=K, since=last.get("since"),
                    nonrunning_tail=list(reversed(tail)), losses=sum(1 for e in hist if e.get("k") == "lose"),
                    history=hist, frames=last.get("fl"))
        ctx.case_failed(case, f"{inv} violated by the real bytecode after: {FG.describe(hist)}")
    # ---- for the report only (never gating) ---------------------------------------------------------------
    info = {}
    if not ctx.quick:
        res = FG.run_model(ctx, wd, tpath, ["Drains"], count=False, start_registered=False, can_unregister=False,
                           inject_unreg=True, pass_bound=6, hist=True, **common)
        info["never-registered group with user space injecting for it: every frame back within 6 passes"] = \
            not res.invariant_violated
        if res.invariant_violated:
            info["... history"] = FG.describe(FG.history(FG.parse_trace(res.out)))
    if not ctx.quick:
        holds = {}
        for pb in (3, 2):
            res = FG.run_model(ctx, wd, tpath, ["Drains"], count=False, start_registered=True, can_unregister=True,
                               inject_unreg=False, pass_bound=pb, **common)
            holds[pb] = not res.invariant_violated
        info["unregistered, no further injection: every frame is back in user space after at most 3 returns to "
             "the bus (and 2 are not enough)"] = holds[3] and not holds[2]
    ctx.extra["not_gating"] = info
    ctx.assumptions.append(f"a frame is delivered or lost before the group's counter has advanced more than K={K} "
                           "times since it was sent (an older frame meets the byte counter again only after ~250 "
                           "further passes)")
    ctx.assumptions.append("user space injects frames only for a group whose program is registered "
                           "(FastSyncGroup.run sends only inside register_sync_group); the adversarial variant "
                           "is reported under not_gating")
    FG.close_maps(r)
