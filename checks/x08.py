"""X08 (beyond the listed properties) - sequences of DSL statements over registers, temporaries and variables.

Spec: spec/Prog.tla - a store with one cell per variable / register / temporary; every statement evaluates its
expression by Dsl.tla on the CURRENT store and changes exactly its destination.  Programs are built with the real
classes: array-map, hash-map and local variables, user registers r2-r6, r8 through their r / sr / w views, the scoped
temporaries tmp / stmp / wtmp, and ktime() as an oracle operand; a random sequence of assignments with expressions
of depth <= 2, then the program copies every register, temporary and local into an array variable.  TLC executes
the emitted bytecode on the eBPF machine and compares every observable cell with the store."""
import json
import operator
import os
import random
from concurrent.futures import ThreadPoolExecutor
from contextlib import ExitStack

from harness import tlc as T, progs
from harness.dslgen import word, NotGenerated

PROPERTY = "X08"
LEVEL = "model_checking"
SIZE = dict(B=1, H=2, I=4, Q=8, b=1, h=2, i=4, q=8)
N = 33                                     # exact values: 8 * 2^2 + 1 bytes for trees of depth <= 2
REGS = [2, 3, 4, 5, 6, 8]                  # r7 / r9 are the array-map and packet base registers, r1 the context
TMPS = dict(tmp=("r", "Q"), stmp=("sr", "q"), wtmp=("w", "I"))
VIEWOUT = dict(r="Q", sr="q", w="I")
OPS = dict(add=operator.add, sub=operator.sub, mul=operator.mul, xor=operator.xor, lsh=operator.lshift,
           rsh=operator.rshift)
OPS["and"] = operator.and_
OPS["or"] = operator.or_


def rand_decl(rng):
    """a helper call (hash-map access, ktime) needs one free register among r6-r9 for every live register among
    r0-r5 (r1, the context, is always live; r7 is the array map's base): programs with calls keep to two registers /
    temporaries, or the generator refuses most of them ("not enough registers")"""
    hashes = [rng.choice("IQq") for _ in range(rng.choice([0, 0, 1, 2]))]
    calls = bool(hashes) or rng.random() < 0.5
    nreg = rng.randint(1, 2) if calls else rng.randint(1, 3)
    ntmp = rng.choice([0, 1]) if calls and nreg == 1 else (0 if calls else rng.choice([0, 1, 1, 2]))
    return dict(arrays=[rng.choice("BHIQbhiq") for _ in range(rng.randint(2, 4))],
                locals=[rng.choice("BHIQbhiq") for _ in range(rng.randint(0, 3))],
                hashes=hashes, calls=calls,
                regs=sorted(rng.sample(REGS, nreg)),
                tmps=sorted(rng.sample(sorted(TMPS), ntmp)),
                # a Dict whose entry is looked up: the last statements of the program run inside the lookup block
                # and may read the members of the looked-up value (addressed through r0)
                dict=rng.choice([["Q", "I", "H", "H"], ["q", "i"], ["Q"]]) if calls and rng.random() < 0.4 else None)


def cells(d):
    """[(id, fmt of the cell as a variable or of its copy-out, kind)]"""
    out = [(("A", i), f, "arr") for i, f in enumerate(d["arrays"])]
    out += [(("L", i), f, "stack") for i, f in enumerate(d["locals"])]
    out += [(("H", i), f, "hash") for i, f in enumerate(d["hashes"])]
    out += [(("R", no), "Q", "reg") for no in d["regs"]]
    out += [(("T", t), TMPS[t][1], "tmp") for t in d["tmps"]]
    if d.get("dict"):
        out += [(("V", i), f, "lk") for i, f in enumerate(d["dict"])]
    return out


def name_of(c):
    return f"{c[0]}_{c[1]}"


KEYC = 7                                   # the key of the Dict entry that exists


def rand_leaf(rng, d, allow_time, inblock=False):
    cs = [x for x in cells(d) if x[2] != "lk" or inblock]
    if inblock and rng.random() < 0.35:
        c, f, kind = rng.choice([x for x in cs if x[2] == "lk"])
        return ("var", c, f)
    r = rng.random()
    if r < 0.22:
        return ("const", rng.choice([rng.randint(0, 9), rng.randint(-5, 300), rng.getrandbits(31),
                                     rng.getrandbits(40), -rng.getrandbits(20)]))
    if allow_time and d.get("calls") and r < 0.3:
        return ("ktime",)
    c, f, kind = rng.choice(cs)
    if kind == "reg":
        return ("reg", c, rng.choice(["r", "r", "sr", "w"]))
    if kind == "tmp":
        return ("tmp", c)
    return ("var", c, f)


def has(tree, what):
    return tree[0] == what or any(isinstance(x, tuple) and has(x, what) for x in tree[1:])


def only_consts(tree):
    if tree[0] == "const":
        return True
    if tree[0] == "bin":
        return only_consts(tree[2]) and only_consts(tree[3])
    if tree[0] == "neg":
        return only_consts(tree[1])
    return False


def rand_tree(rng, d, depth, allow_time=True, inblock=False):
    if depth == 0 or rng.random() < 0.25:
        return rand_leaf(rng, d, allow_time, inblock)
    r = rng.random()
    if r < 0.08:
        a = rand_tree(rng, d, depth - 1, allow_time, inblock)
        while a[0] in ("reg", "tmp"):       # -register negates the register itself (observation N): kept out
            a = rand_tree(rng, d, depth - 1, allow_time, inblock)
        return ("neg", a)
    op = rng.choice(["add", "add", "sub", "sub", "mul", "and", "or", "xor", "lsh", "rsh"])
    left = rand_tree(rng, d, depth - 1, allow_time, inblock)
    if op in ("lsh", "rsh"):
        if only_consts(left):
            left = rand_leaf(rng, d, False, inblock)
        return ("bin", op, left, ("const", rng.randint(0, 7)))
    right = rand_tree(rng, d, depth - 1, allow_time and not has(left, "ktime"), inblock)
    return ("bin", op, left, right)


def rand_program(rng):
    d = rand_decl(rng)
    cs = cells(d)
    stmts = []                                          # (dst cell, view or None, tree)
    # user registers are given their first value BEFORE the temporaries' block is entered: a temporary takes a
    # register nobody owns yet, and a register counts as owned from its first assignment on
    cs = [x for x in cs if x[2] != "lk"] + [x for x in cs if x[2] == "lk"]
    for c, f, kind in cs:
        if kind == "reg":
            stmts.append((c, "r", ("const", rng.choice([rng.randint(0, 200), rng.getrandbits(64)]))))
    nregs = len(stmts)
    init = []
    for c, f, kind in cs:
        if kind in ("stack", "tmp"):
            init.append((c, None, ("const", rng.choice([rng.randint(0, 200), rng.getrandbits(8 * SIZE[f])]))))
    rng.shuffle(init)
    stmts += init
    nbody = rng.randint(3, 9)
    nblock = rng.randint(1, 3) if d.get("dict") else 0          # the last nblock statements: inside the lookup block
    for j in range(nbody):
        inblock = j >= nbody - nblock
        c, f, kind = rng.choice([x for x in cs if x[2] != "lk"])
        t = rand_tree(rng, d, rng.choice([1, 1, 2]), True, inblock)
        while only_consts(t) or (t[0] == "const"):
            t = rand_tree(rng, d, rng.choice([1, 2]), True, inblock)
        stmts.append((c, rng.choice(["r", "sr", "w"]) if kind == "reg" else None, t))
    d["block"] = nblock
    last = {}
    for c, view, t in stmts:
        last[c] = view
    # a register last written through its w view is copied out through that view (its upper half is unspecified)
    outs = [(c, "I" if kind == "reg" and last[c] == "w" else f, kind) for c, f, kind in cs if kind in ("stack", "reg", "tmp")]
    rng.shuffle(outs)
    return d, stmts, outs, nregs


def build(d, stmts, outs, nregs, use_kernel=False):
    from ebpfcat.xdp import XDP, XDPExitCode
    from ebpfcat.arraymap import ArrayMap
    from ebpfcat.hashmap import HashMap, Dict
    from ebpfcat.ebpf import LocalVar, ktime, Structure, Member
    m = ArrayMap()
    ns = dict(license="GPL", m=m)
    for i, f in enumerate(d["arrays"]):
        ns[f"A_{i}"] = m.globalVar(f)
    for j, (c, f, kind) in enumerate(outs):
        ns[f"O_{j}"] = m.globalVar(f)
    ns["found"] = m.globalVar("B")           # set inside the lookup block: the entry was found
    for i, f in enumerate(d["locals"]):
        ns[f"L_{i}"] = LocalVar(f)
    if d["hashes"]:
        hm = HashMap()
        ns["hm"] = hm
        for i, f in enumerate(d["hashes"]):
            ns[f"H_{i}"] = hm.globalVar(f)

    if d.get("dict"):
        K = type("K", (Structure,), {"K_0": Member("I")})
        Vs = type("Vs", (Structure,), {f"V_{i}": Member(f) for i, f in enumerate(d["dict"])})
        ns["dd"] = Dict(key=K, value=Vs, size=4)
    looked = []

    def expr(self, t):
        if t[0] == "var" and t[1][0] == "V":
            return getattr(looked[0], name_of(t[1]))
        if t[0] == "const":
            return t[1]
        if t[0] == "ktime":
            return ktime(self)
        if t[0] == "var":
            return getattr(self, name_of(t[1]))
        if t[0] == "reg":
            return getattr(self, t[2])[t[1][1]]
        if t[0] == "tmp":
            return getattr(self, t[1][1])
        if t[0] == "neg":
            return -expr(self, t[1])
        return OPS[t[1]](expr(self, t[2]), expr(self, t[3]))

    def assign(self, c, view, e):
        if c[0] == "R":
            getattr(self, view)[c[1]] = e
        elif c[0] == "T":
            setattr(self, c[1], e)
        else:
            setattr(self, name_of(c), e)

    def program(self):
        for c, view, tree in stmts[:nregs]:
            assign(self, c, view, expr(self, tree))
        with ExitStack() as scope:
            for t in d["tmps"]:
                scope.enter_context(getattr(self, t))
            nblock = d.get("block", 0)
            rest = stmts[nregs:]
            for c, view, tree in rest[:len(rest) - nblock]:
                e = expr(self, tree)
                if isinstance(e, int) and not isinstance(tree[1], int):
                    raise NotGenerated("expression evaluated while building")
                assign(self, c, view, e)
            if nblock:
                self.dd.key.K_0 = KEYC
                with self.dd.lookup() as (value, Else):
                    looked.append(value)
                    for c, view, tree in rest[len(rest) - nblock:]:
                        assign(self, c, view, expr(self, tree))
                    self.found = 1
            for j, (c, f, kind) in enumerate(outs):
                if kind == "reg":
                    src = (self.w if f == "I" else self.r)[c[1]]
                elif kind == "tmp":
                    src = getattr(self, c[1])
                else:
                    src = getattr(self, name_of(c))
                setattr(self, f"O_{j}", src)
        self.exit(XDPExitCode.PASS)
    ns["program"] = program
    try:
        return progs.build(type("Pg", (XDP,), ns), use_kernel=use_kernel)
    except NotGenerated:
        raise
    except Exception as ex:
        raise NotGenerated(f"{type(ex).__name__}: {ex}")


def depth_of(t):
    if t[0] == "bin":
        return 1 + max(depth_of(t[2]), depth_of(t[3]))
    if t[0] == "neg":
        return 1 + depth_of(t[1])
    return 0


def make_case(rng, d, stmts, outs, b):
    inst = b.inst
    cs = cells(d) + [(("O", j), f, "arr") for j, (c, f, kind) in enumerate(outs)]
    index = {c: i + 1 for i, (c, _, _) in enumerate(cs)}
    fmt = {c: f for c, f, _ in cs}
    kindof = {c: k for c, _, k in cs}
    arrfd = next(i + 1 for i, mm in enumerate(b.maps) if mm["type"] == "array")
    arr = bytes(rng.getrandbits(8) for _ in range(b.maps[arrfd - 1]["vs"]))
    hfd = next((i + 1 for i, mm in enumerate(b.maps) if mm["type"] == "hash" and mm["ks"] == 1), 0)
    dfd = next((i + 1 for i, mm in enumerate(b.maps) if mm["type"] == "hash" and mm["ks"] == 4), 0)
    hashes, recs = [], []
    entry = b""
    if d.get("dict"):
        entry = bytes(rng.getrandbits(8) for _ in range(b.maps[dfd - 1]["vs"]))
        hashes.append((dfd, KEYC.to_bytes(4, "little"), entry))
    for c, f, kind in cs:
        if kind == "arr":
            off = inst.__dict__[name_of(c)]
            recs.append(dict(size=SIZE[f], kind="arr", fd=arrfd, off=off, key=[], init=list(arr[off:off + SIZE[f]])))
        elif kind == "hash":
            key = [type(inst).__dict__[name_of(c)].count]
            val = bytes(rng.getrandbits(8) for _ in range(8))
            hashes.append((hfd, bytes(key), val))
            recs.append(dict(size=SIZE[f], kind="hash", fd=hfd, off=0, key=key, init=list(val[:SIZE[f]])))
        elif kind == "lk":
            off = type(inst.dd.value).__dict__[name_of(c)].relative_addr
            recs.append(dict(size=SIZE[f], kind="none", fd=0, off=0, key=[], init=list(entry[off:off + SIZE[f]])))
        else:
            recs.append(dict(size=8 if kind in ("reg", "tmp") else SIZE[f], kind="none", fd=0, off=0, key=[], init=[]))
    ntime = [0]

    def ast(t):
        if t[0] == "const":
            return dict(k="const", v=word(t[1], N))
        if t[0] == "ktime":
            ntime[0] += 1
            return dict(k="reg", kind="r", fd=-1, off=ntime[0])
        if t[0] == "var":
            return dict(k="var", fmt=t[2], fd=0, off=index[t[1]])
        if t[0] == "reg":
            return dict(k="reg", kind=t[2], fd=0, off=index[t[1]])
        if t[0] == "tmp":
            return dict(k="reg", kind=TMPS[t[1][1]][0], fd=0, off=index[t[1]])
        if t[0] == "neg":
            return dict(k="neg", a=ast(t[1]))
        return dict(k="bin", op=t[1], l=ast(t[2]), r=ast(t[3]))
    ss = []
    for c, view, tree in stmts:
        if kindof[c] == "reg":
            dsize = 4 if view == "w" else 8
        elif kindof[c] == "tmp":
            dsize = 4 if TMPS[c[1]][0] == "w" else 8
        else:
            dsize = SIZE[fmt[c]]
        ss.append(dict(dst=index[c], dsize=dsize, ast=ast(tree), n=N))
    for j, (c, f, kind) in enumerate(outs):
        if kind == "reg":
            leaf = dict(k="reg", kind="w" if f == "I" else "r", fd=0, off=index[c])
        elif kind == "tmp":
            leaf = dict(k="reg", kind=TMPS[c[1]][0], fd=0, off=index[c])
        else:
            leaf = dict(k="var", fmt=f, fd=0, off=index[c])
        ss.append(dict(dst=index[("O", j)], dsize=SIZE[f], ast=leaf, n=N))
    orc = [word(rng.choice([rng.getrandbits(40), rng.getrandbits(63), rng.randint(1, 1000)]), 8) for _ in range(ntime[0])]
    case = progs.case(b, arr={arrfd: arr}, hashes=hashes, orc=orc, fuel=20000)
    case.update(pvars=recs, pstmts=ss)
    return case, [name_of(c) + ":" + f for c, f, _ in cs]


def show(t):
    if t[0] == "const":
        return str(t[1])
    if t[0] == "ktime":
        return "ktime()"
    if t[0] == "var":
        return f"{name_of(t[1])}:{t[2]}"
    if t[0] == "reg":
        return f"{t[2]}{t[1][1]}"
    if t[0] == "tmp":
        return t[1][1]
    if t[0] == "neg":
        return f"-({show(t[1])})"
    return f"({show(t[2])} {t[1]} {show(t[3])})"


def run(ctx):
    nprog = 300 if ctx.quick else 3000
    fixed = random.Random(808)
    cases, meta, refused = [], [], []
    n = 0
    while len(cases) < nprog and n < nprog * 3:
        n += 1
        rng = ctx.rng if n % 5 == 0 else fixed
        d, stmts, outs, nregs = rand_program(rng)
        try:
            b = build(d, stmts, outs, nregs)
        except NotGenerated as e:
            refused.append(str(e)[:160])
            continue
        c, names = make_case(rng, d, stmts, outs, b)
        cases.append(c)
        meta.append(dict(decl=d, names=names,
                         stmts=[f"{name_of(cc) if cc[0] != 'R' else view + str(cc[1])} := {show(t)}" for cc, view, t in stmts]
                         + [f"O_{j} := {name_of(cc)}" for j, (cc, f, kind) in enumerate(outs)]))
    # a fixed probe for observation N (kept out of the random programs): `x = -register` negates the register itself
    # (Unary.calculate lets Register.calculate hand out the user's own register)
    dN = dict(arrays=["q"], locals=[], hashes=[], calls=False, regs=[2], tmps=[])
    sN = [(("R", 2), "r", ("const", 77)), (("A", 0), None, ("neg", ("reg", ("R", 2), "sr")))]
    oN = [(("R", 2), "Q", "reg")]
    try:
        bN = build(dN, sN, oN, 1)
        cN, namesN = make_case(fixed, dN, sN, oN, bN)
        cases.append(cN)
        meta.append(dict(decl=dN, names=namesN, stmts=["r2 := 77", "A_0 := -(sr2)", "O_0 := R_2"], probe="N"))
    except NotGenerated as e:
        refused.append("probe N: " + str(e)[:120])
    if not cases:
        raise T.MachineryError("no X08 program could be built: " + "; ".join(refused[:3]))
    wd = ctx.workdir()
    PAR = 12
    CH = max(1, -(-len(cases) // PAR))

    def chunk(start):
        path = os.path.join(wd, f"cases{start}.json")
        json.dump(cases[start:start + CH], open(path, "w"))
        res = T.run(wd, "Prog", "Prog.cfg", timeout=3000, deadlock=False, env={"TRACE_FILE": path}, workers=1)
        os.remove(path)
        return start, res
    with ThreadPoolExecutor(PAR) as ex:
        results = list(ex.map(chunk, range(0, len(cases), CH)))
    verdict = {}
    for start, res in results:
        if res.error:
            raise T.MachineryError("Prog failed:\n" + res.error[:3000])
        ctx.tlc_stats(res)
        for rec in T.printed_records(res, "VERDICT"):
            verdict[start + rec[0]] = rec[1:]
    counts = dict(ok=0, wrong=0, fault=0, skipped=0)
    import collections
    obs, obs_samples = collections.Counter(), []
    for i, m in enumerate(meta, 1):
        v = verdict.get(i)
        if v is None:
            raise T.MachineryError(f"no verdict for case {i}")
        kind, st_, changed, stale = v
        counts[kind] += 1
        ctx.traces += 1
        ctx.evaluated(json.dumps(m["stmts"]), nontrivial=kind in ("ok", "wrong"))
        if kind == "ok" and i % 61 == 3:
            ctx.sample(dict(stmts=m["stmts"], verdict="ok"))
        if m.get("probe") == "N":
            if kind == "wrong":
                obs["N: unary minus of a register negates the register itself"] += 1
            continue
        if kind == "wrong" and stale:
            # observation W: the program read a w view of a register holding more than 32 bits; Register.calculate
            # ignores the requested width (root cause of the known finding F21), so all 64 bits took part
            obs["W: w view of a register holding more than 32 bits read as 64 bits"] += 1
            if len(obs_samples) < 3:
                obs_samples.append(m["stmts"])
            continue
        if kind in ("wrong", "fault"):
            ch = sorted((m["names"][c[0] - 1], c[1], c[2]) for c in changed)
            ctx.case_failed(dict(decl=m["decl"], stmts=m["stmts"], verdict=kind, status=st_, changed=ch, w_view_of_wide_register=stale),
                            f"{kind} {st_ or ''}: " + "; ".join(f"{nm} holds {o}, store says {e}" for nm, o, e in ch[:4])
                            + " | " + "; ".join(m["stmts"])[:700])
    ctx.exhaustive = False
    ctx.rule = ("fixed-seed random programs (a fifth follows VERIF_SEED): 2-4 array, 0-3 local, 0-2 hash variables, 1-3 "
                "user registers, 0-2 temporaries; all registers / temporaries / locals initialised, 3-9 assignments with "
                "expressions of depth <= 2 (ring operations, shifts by constants, unary minus, ktime), copy-outs; "
                "non-trivial = every statement inside the precondition (not skipped)")
    ctx.extra.update(verdicts=counts, programs=len(cases), refused=len(refused), refused_examples=refused[:5],
                     observations=dict(obs), observation_samples=obs_samples)
