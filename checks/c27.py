"""C27 - the Valve device enforces its safe state on timeout.

Spec: spec/Valve.tla (+ MC_Valve exhaustive, ValveScripts environment enumeration, ValveTrace).
Binding: every history TLC enumerates (reset, then SetTarget / Switches / Advance / Update steps)
is replayed on a real `Valve` whose coil and switches are bit variables (real PacketDesc) in the
frame of a real SyncGroup; every update goes through the real SyncGroup.update_devices with the
frame a simulated bus hands back; `ebpfcat.devices.monotonic` is a virtual clock.  The recorded
run (coil bit in the outgoing frame, target and error after each update) is validated by TLC as
a behaviour of Valve for moving times {0, 1, 3} ticks and both safe-state settings."""
import json

from harness import tlc as T

PROPERTY = "C27"
LEVEL = "model_checking"

MOVING_TIMES = (0, 1, 3)
# (coil byte, bit), (open byte, bit), (closed byte, bit), in-size, out-size
LAYOUTS = {"A": ((0, 3), (1, 0), (1, 5), 2, 1),
           "B": ((2, 7), (0, 6), (0, 0), 1, 3)}


class Rig:
    """a real Valve on a real SyncGroup; the bus is simulated by handing the outgoing frame back
    with the working counters and the input bits filled in"""

    def __init__(self, mt, safe, layout="A", coil0=False, configure="instance"):
        import ebpfcat.devices as D
        from ebpfcat.ebpfcat import EBPFTerminal, PacketDesc, SimpleEtherCat, SyncGroup
        from ebpfcat.ethercat import SyncManager
        (cb, cbit), (ob, obit), (sb, sbit), insz, outsz = LAYOUTS[layout]

        class DIO(EBPFTerminal):
            coil = PacketDesc(SyncManager.OUT, cb, cbit)
            open_sw = PacketDesc(SyncManager.IN, ob, obit)
            closed_sw = PacketDesc(SyncManager.IN, sb, sbit)

        if configure == "subclass":
            class Cls(D.Valve):
                movingTime = mt
                safeState = safe
        else:
            Cls = D.Valve
        self.D = D
        self.now = 1000.0
        self.saved = D.monotonic
        D.monotonic = lambda: self.now
        ec = SimpleEtherCat("x")
        term = DIO(ec)
        term.position = 3
        term.pdo_in_sz, term.pdo_out_sz = insz, outsz
        v = Cls()
        v.coil, v.openSwitch, v.closedSwitch = term.coil, term.open_sw, term.closed_sw
        if configure != "subclass":
            v.movingTime = mt
            v.safeState = safe
        sg = SyncGroup(ec, [v])
        sg.allocate()
        sg.wkc_errors = 0
        sg.asm_packet = sg.packet.assemble(1000, ec.ethertype)
        sg.current_data = bytearray(sg.asm_packet)
        self.v, self.sg = v, sg
        self.inoff = sg.pdo_assign[term][SyncManager.IN]
        self.outoff = sg.pdo_assign[term][SyncManager.OUT]
        self.cpos, self.cmask = self.outoff + cb, 1 << cbit
        self.opos, self.omask = self.inoff + ob, 1 << obit
        self.spos, self.smask = self.inoff + sb, 1 << sbit
        self.open = self.closed = False
        if coil0:
            sg.current_data[self.cpos] |= self.cmask

    def close(self):
        self.D.monotonic = self.saved

    def coil(self):
        """the coil bit as it leaves for the terminal"""
        return bool(self.sg.current_data[self.cpos] & self.cmask)

    def bus(self):
        """one bus round trip of the outgoing frame"""
        fr = bytearray(self.sg.current_data)
        for pos, mask, val in ((self.opos, self.omask, self.open),
                               (self.spos, self.smask, self.closed)):
            if val:
                fr[pos] |= mask
            else:
                fr[pos] &= ~mask & 0xff
        for pos, cnt in self.sg.packet.counters.items():
            fr[pos] = cnt & 0xff
            fr[pos + 1] = cnt >> 8
        return fr


def drive(script, mt, safe, layout="A", coil0=False, configure="instance"):
    rig = Rig(mt, safe, layout, coil0, configure)
    try:
        v = rig.v
        ev = []
        hdr = None
        dead = False
        for op in script:
            k = op["op"]
            if k == "reset":
                v.reset()
                hdr = dict(coil0=rig.coil(), target0=bool(v.target), open0=False, closed0=False)
            elif k == "target":
                v.target = op["v"]
                ev.append(dict(op))
            elif k == "switches":
                rig.open, rig.closed = op["o"], op["c"]
                ev.append(dict(op))
            elif k == "advance":
                rig.now += op["dt"]
                ev.append(dict(op))
            elif k == "update":
                if dead:
                    break
                try:
                    rig.sg.update_devices(rig.bus())
                except Exception as e:  # a case result: the spec has no step for it
                    ev.append(dict(op="update", res="raise:" + type(e).__name__, coil=False,
                                   target=False, error=False))
                    dead = True
                    continue
                t, e = v.target, v.error
                ev.append(dict(op="update", res="ok" if t in (0, 1) and e in (0, 1) else "value",
                               coil=rig.coil(), target=bool(t), error=bool(e),
                               coil_read=bool(v.coil)))
        tr = dict(mt=mt, safe=safe, ev=ev)
        tr.update(hdr)
        return tr
    finally:
        rig.close()


def enumerate_scripts(ctx, wd, ncycles, dts):
    name = "scripts_%d_%s.cfg" % (ncycles, "".join(map(str, dts)))
    T.write_cfg(wd, name, f"""SPECIFICATION SSpec
CONSTANTS NCycles = {ncycles}
          Dts = {{{", ".join(map(str, dts))}}}
INVARIANT Emit
CHECK_DEADLOCK FALSE
""")
    res = T.require_clean(T.run(wd, "ValveScripts", name, workers=1, timeout=600), "ValveScripts")
    ctx.tlc_stats(res)
    scripts = [r[0] for r in T.printed_records(res, "SCRIPT")]
    want = (8 * len(dts)) ** ncycles
    if len(scripts) != want:
        raise T.MachineryError(f"ValveScripts: {len(scripts)} scripts, expected {want}")
    return scripts


def classify(tr):
    """evidence only: did the run meet an unconfirmed command / raise its error flag"""
    coil = tr["coil0"]
    o = c = False
    unconfirmed = raised = False
    for e in tr["ev"]:
        if e["op"] == "switches":
            o, c = e["o"], e["c"]
        elif e["op"] == "update":
            if not ((o and not c) if coil else (c and not o)):
                unconfirmed = True
            raised |= e["error"]
            coil = e["coil"]
    return unconfirmed, raised


def judge(ctx, wd, runs, chunk=6000):
    """runs: list of (meta, trace); TLC validates all traces, failures are reported"""
    results = T.validate_traces(ctx, wd, "ValveTrace", "ValveTrace.cfg", [t for _, t in runs],
                                chunk=chunk)
    failed = []
    for (meta, tr), (matched, length, inv) in zip(runs, results):
        ctx.traces += 1
        unconfirmed, raised = classify(tr)
        ctx.evaluated((meta["mt"], meta["safe"], meta["layout"], meta["coil0"],
                       json.dumps(meta["script"])), nontrivial=unconfirmed)
        if raised:
            ctx.extra["runs_with_error_raised"] = ctx.extra.get("runs_with_error_raised", 0) + 1
        if raised and unconfirmed and len(ctx.samples) < 3 and meta["mt"] > 0:
            ctx.sample(tr)
        if matched != length or isinstance(inv, str):
            failed.append((meta, tr, matched, length, inv))
    if not failed:
        return
    # diagnosis, again by TLC: would the rejected update have been a step of Valve had it put the
    # configured safe state on coil and target (everything else as observed)?
    what_if, idx = [], []
    for k, (meta, tr, matched, length, inv) in enumerate(failed):
        if 0 <= matched < length and tr["ev"][matched]["op"] == "update" \
                and tr["ev"][matched]["res"] == "ok":
            e = dict(tr["ev"][matched], coil=tr["safe"], target=tr["safe"])
            what_if.append(dict(tr, ev=tr["ev"][:matched] + [e]))
            idx.append(k)
    verdict = {}
    if what_if:
        res = T.validate_traces(ctx, wd, "ValveTrace", "ValveTrace.cfg", what_if, chunk=chunk)
        verdict = {k: m == n for k, (m, n, _) in zip(idx, res)}
    for k, (meta, tr, matched, length, inv) in enumerate(failed):
        bad = tr["ev"][matched] if 0 <= matched < length else None
        before = [e for e in tr["ev"][:max(matched, 0)] if e["op"] == "update"]
        case = dict(meta)
        case.update(ev=tr["ev"], rejected_at=matched, rejected_event=bad,
                    error_before=before[-1]["error"] if before else False,
                    coil_before=before[-1]["coil"] if before else tr["coil0"],
                    accepted_with_safe_state=verdict.get(k, False))
        ctx.case_failed(case, (f"run rejected by Valve at step {matched}: {bad} "
                               f"(mt={meta['mt']}, safeState={meta['safe']}; with coil = target = "
                               f"safeState the step would {'' if verdict.get(k) else 'not '}be accepted)")
                        if bad else f"run rejected by Valve: {inv or 'state after reset'}")


def run(ctx):
    wd = ctx.workdir()
    # 1. the design: exhaustive model check of Valve
    T.write_cfg(wd, "mc.cfg", f"""SPECIFICATION MCSpec
CONSTANTS MovingTimes = {{0, 1, 3}}
          MaxDt = 2
          MaxClock = {8 if ctx.quick else 12}
CONSTRAINT Bound
INVARIANTS TypeOK
           CoilFollows
           NeverStuck
PROPERTY ErrorReaction
CHECK_DEADLOCK FALSE
""")
    res = T.require_clean(T.run(wd, "MC_Valve", "mc.cfg", timeout=600, coverage=True), "MC_Valve")
    if not res.ok:
        raise T.MachineryError("Valve.tla violates its own invariants:\n" + res.counterexample())
    ctx.tlc_stats(res)
    ctx.extra["mc_valve"] = dict(distinct=res.distinct, generated=res.generated)
    # 2. environment histories from TLC; the clock steps offered depend on the moving time so
    #    that "in time", "exactly elapsed" and "long elapsed" all occur within the bound
    both = (False, True)
    if ctx.quick:
        plans = [((False,), {0: (3, (0, 1)), 1: (3, (0, 1)), 3: (3, (1, 2))}),
                 ((True,), {0: (2, (0, 1)), 1: (2, (0, 1)), 3: (2, (1, 2))})]
    else:
        # the position check only applies to the default safe state: that is where depth pays
        plans = [((False,), {0: (4, (0, 1)), 1: (4, (0, 1)), 3: (4, (1, 2))}),
                 (both, {0: (3, (0, 1, 2)), 1: (3, (0, 1, 2)), 3: (3, (0, 2, 3))})]
    ctx.extra["plans"] = [dict(safe_states=list(sf), per_moving_time={
        str(k): dict(cycles=v[0], dts=list(v[1])) for k, v in p.items()}) for sf, p in plans]

    def cases():
        cache = {}
        for safes, plan in plans:
            for mt in MOVING_TIMES:
                key = plan[mt]
                if key not in cache:   # kept as JSON text: 65536 scripts as dicts are too big
                    cache[key] = [json.dumps(x) for x in enumerate_scripts(ctx, wd, *key)]
                for js in cache[key]:
                    for safe in safes:
                        s = json.loads(js)
                        yield dict(mt=mt, safe=safe, layout="A", coil0=False, script=s), ()
        # 3. extra random histories: longer, other frame layout, coil initially energised,
        #    class-level configuration (the enumeration above is seed-independent)
        rng = ctx.rng
        for i in range(300 if ctx.quick else 3000):
            mt = rng.choice(MOVING_TIMES + (2, 5))
            s = [dict(op="reset")]
            for _ in range(rng.randint(4, 12)):
                s.append(dict(op="target", v=rng.random() < 0.5))
                s.append(dict(op="switches", o=rng.random() < 0.5, c=rng.random() < 0.5))
                dt = rng.randint(0, 4)
                if dt:
                    s.append(dict(op="advance", dt=dt))
                s.append(dict(op="update"))
            meta = dict(mt=mt, safe=rng.random() < 0.3, layout=rng.choice("AB"),
                        coil0=rng.random() < 0.5, script=s,
                        configure=rng.choice(["instance", "subclass"]))
            yield meta, (meta["layout"], meta["coil0"], meta["configure"])

    batch = []
    for meta, args in cases():
        batch.append((meta, drive(meta["script"], meta["mt"], meta["safe"], *args)))
        if len(batch) >= 8000:
            judge(ctx, wd, batch, chunk=8000)
            batch = []
    if batch:
        judge(ctx, wd, batch, chunk=8000)
    ctx.exhaustive = True
    ctx.rule = ("all histories (normal form: SetTarget, Switches, optional Advance, Update per cycle; "
                + "; ".join(f"safeState in {set(sf)}: " +
                            ", ".join(f"{p[m][0]} cycles with dt in {set(p[m][1])} for moving time {m}"
                                      for m in MOVING_TIMES) for sf, p in plans)
                + "), TLC-enumerated, plus seeded random longer histories; "
                  "non-trivial = some update found the switches not confirming the commanded position")


def replay_case(case):
    return drive(case["script"], case["mt"], case["safe"], case.get("layout", "A"),
                 case.get("coil0", False), case.get("configure", "instance"))


def replay(ctx, case):
    """./check C27 --replay <file>: run the case again and let TLC judge it"""
    meta = {k: case[k] for k in ("mt", "safe", "layout", "coil0", "script", "configure") if k in case}
    meta.setdefault("layout", "A")
    meta.setdefault("coil0", False)
    judge(ctx, ctx.workdir(), [(meta, replay_case(case))])
