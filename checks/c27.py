"""C27 - the Valve device enforces its safe state on timeout.

Spec: spec/Valve.tla (+ MC_Valve exhaustive, ValveScripts environment enumeration, ValveTrace).
Binding: every history TLC enumerates (reset, then SetTarget / Switches / Advance / Update steps)
is replayed on a real `Valve` whose coil and switches are bit variables (real PacketDesc) in the
frame of a real SyncGroup; every update goes through the real SyncGroup.update_devices with the
frame a simulated bus hands back; `ebpfcat.devices.monotonic` is a virtual clock.  The recorded
run (coil bit in the outgoing frame, target and error after each update) is validated by TLC as
a behaviour of Valve for moving times {0, 1, 3} ticks and both safe-state settings."""
import json

from harness import tlc as T

PROPERTY = "C27"
LEVEL = "model_checking"

MOVING_TIMES = (0, 1, 3)
# per layout: bit numbers (byte * 8 + bit) of the coils in the output image and of the open and
# closed switches in the input image, for valve 0, 1, 2; input size, output size in bytes
LAYOUTS = {"A": ((3, 6, 9), (8, 2, 11), (13, 4, 15), 2, 2),
           "B": ((23, 1, 12), (6, 3, 9), (0, 7, 13), 2, 3)}


class Rig:
    """real Valve objects (one per entry of `valves`: dict(mt, safe, coil0, configure)) in one real
    SyncGroup; the bus is simulated by handing the outgoing frame back with the working counters
    and the input bits filled in"""

    def __init__(self, valves, layout="A"):
        import ebpfcat.devices as D
        from ebpfcat.ebpfcat import EBPFTerminal, PacketDesc, SimpleEtherCat, SyncGroup
        from ebpfcat.ethercat import SyncManager
        coils, opens, closeds, insz, outsz = LAYOUTS[layout]

        class DIO(EBPFTerminal):
            pass

        for k in range(len(valves)):
            setattr(DIO, f"coil{k}", PacketDesc(SyncManager.OUT, coils[k] // 8, coils[k] % 8))
            setattr(DIO, f"open{k}", PacketDesc(SyncManager.IN, opens[k] // 8, opens[k] % 8))
            setattr(DIO, f"closed{k}", PacketDesc(SyncManager.IN, closeds[k] // 8, closeds[k] % 8))
        self.D = D
        self.now = 1000.0
        self.saved = D.monotonic
        D.monotonic = lambda: self.now
        ec = SimpleEtherCat("x")
        term = DIO(ec)
        term.position = 3
        term.pdo_in_sz, term.pdo_out_sz = insz, outsz
        self.v = []
        for k, cfg in enumerate(valves):
            if cfg.get("configure", "instance") == "subclass":
                Cls = type("ConfiguredValve", (D.Valve,),
                           dict(movingTime=cfg["mt"], safeState=cfg["safe"]))
                v = Cls()
            else:
                v = D.Valve()
                v.movingTime = cfg["mt"]
                v.safeState = cfg["safe"]
            v.coil = getattr(term, f"coil{k}")
            v.openSwitch = getattr(term, f"open{k}")
            v.closedSwitch = getattr(term, f"closed{k}")
            self.v.append(v)
        sg = SyncGroup(ec, list(self.v))
        sg.allocate()
        sg.wkc_errors = 0
        sg.asm_packet = sg.packet.assemble(1000, ec.ethertype)
        sg.current_data = bytearray(sg.asm_packet)
        self.sg = sg
        inoff = sg.pdo_assign[term][SyncManager.IN]
        outoff = sg.pdo_assign[term][SyncManager.OUT]
        self.cpos = [(outoff + b // 8, 1 << b % 8) for b in coils]
        self.opos = [(inoff + b // 8, 1 << b % 8) for b in opens]
        self.spos = [(inoff + b // 8, 1 << b % 8) for b in closeds]
        self.open = [False] * len(valves)
        self.closed = [False] * len(valves)
        for k, cfg in enumerate(valves):
            if cfg.get("coil0"):
                pos, mask = self.cpos[k]
                sg.current_data[pos] |= mask

    def close(self):
        self.D.monotonic = self.saved

    def coil(self, k):
        """the coil bit of valve k as it leaves for the terminal"""
        pos, mask = self.cpos[k]
        return bool(self.sg.current_data[pos] & mask)

    def bus(self):
        """one bus round trip of the outgoing frame"""
        fr = bytearray(self.sg.current_data)
        for k in range(len(self.v)):
            for (pos, mask), val in ((self.opos[k], self.open[k]), (self.spos[k], self.closed[k])):
                if val:
                    fr[pos] |= mask
                else:
                    fr[pos] &= ~mask & 0xff
        for pos, cnt in self.sg.packet.counters.items():
            fr[pos] = cnt & 0xff
            fr[pos + 1] = cnt >> 8
        return fr


def drive_group(script, valves, layout="A"):
    """replay a group history on real Valve objects in one real SyncGroup.  Steps carry the index
    `i` of the valve they belong to (default 0); advance and update concern the whole group.
    Returns one trace per valve: the projection of the history to that valve, starting at its own
    reset - what an observer of this valve alone would record."""
    rig = Rig(valves, layout)
    try:
        n = len(valves)
        ev = [[] for _ in range(n)]
        hdr = [None] * n
        dead = False
        for op in script:
            k = op["op"]
            i = op.get("i", 0)
            if k == "reset":
                rig.v[i].reset()
                hdr[i] = dict(coil0=rig.coil(i), target0=bool(rig.v[i].target),
                              open0=rig.open[i], closed0=rig.closed[i])
            elif k == "target":
                rig.v[i].target = op["v"]
                if hdr[i] is None:
                    raise T.MachineryError("history must start with the reset of a valve")
                ev[i].append(dict(op="target", v=op["v"]))
            elif k == "switches":
                rig.open[i], rig.closed[i] = op["o"], op["c"]
                if hdr[i] is None:
                    raise T.MachineryError("history must start with the reset of a valve")
                ev[i].append(dict(op="switches", o=op["o"], c=op["c"]))
            elif k in ("movingtime", "safestate"):       # the valve is reconfigured
                if hdr[i] is None:
                    raise T.MachineryError("history must start with the reset of a valve")
                if k == "movingtime":
                    rig.v[i].movingTime = op["mt"]
                    ev[i].append(dict(op="movingtime", mt=op["mt"]))
                else:
                    rig.v[i].safeState = op["s"]
                    ev[i].append(dict(op="safestate", s=op["s"]))
            elif k == "advance":
                rig.now += op["dt"]
                for j in range(n):
                    if hdr[j] is not None:       # time before a valve's reset is not its history
                        ev[j].append(dict(op="advance", dt=op["dt"]))
            elif k == "update":
                if dead:
                    break
                if any(h is None for h in hdr):
                    raise T.MachineryError("update before every valve was reset")
                try:
                    rig.sg.update_devices(rig.bus())
                except Exception as e:  # a case result: the spec has no step for it
                    for j in range(n):
                        ev[j].append(dict(op="update", res="raise:" + type(e).__name__, coil=False,
                                          target=False, error=False))
                    dead = True
                    continue
                for j, v in enumerate(rig.v):
                    t, e = v.target, v.error
                    ev[j].append(dict(op="update",
                                      res="ok" if t in (0, 1) and e in (0, 1) else "value",
                                      coil=rig.coil(j), target=bool(t), error=bool(e),
                                      coil_read=bool(v.coil)))
        out = []
        for j, cfg in enumerate(valves):
            tr = dict(mt=cfg["mt"], safe=cfg["safe"], ev=ev[j])
            tr.update(hdr[j])
            out.append(tr)
        return out
    finally:
        rig.close()


def drive(script, mt, safe, layout="A", coil0=False, configure="instance"):
    """a single valve"""
    return drive_group(script, [dict(mt=mt, safe=safe, coil0=coil0, configure=configure)], layout)[0]


def enumerate_group_scripts(ctx, wd, n, ncycles, dts, mode, staggers):
    name = "gscripts_%d_%d_%s_%s_%s.cfg" % (n, ncycles, "".join(map(str, dts)), mode,
                                           "".join(map(str, staggers)))
    T.write_cfg(wd, name, f"""SPECIFICATION SSpec
CONSTANTS N = {n}
          NCycles = {ncycles}
          Dts = {{{", ".join(map(str, dts))}}}
          Mode = "{mode}"
          Staggers = {{{", ".join(map(str, staggers))}}}
INVARIANT Emit
CHECK_DEADLOCK FALSE
""")
    res = T.require_clean(T.run(wd, "ValveGroupScripts", name, workers=1, timeout=600),
                          "ValveGroupScripts")
    ctx.tlc_stats(res)
    scripts = [r[0] for r in T.printed_records(res, "SCRIPT")]
    letters = {"full": 8, "three-switch": 6, "three": 3}[mode]
    want = len(staggers) * (letters ** n * len(dts)) ** ncycles
    if len(scripts) != want:
        raise T.MachineryError(f"ValveGroupScripts: {len(scripts)} scripts, expected {want}")
    return scripts


def enumerate_scripts(ctx, wd, ncycles, dts):
    name = "scripts_%d_%s.cfg" % (ncycles, "".join(map(str, dts)))
    T.write_cfg(wd, name, f"""SPECIFICATION SSpec
CONSTANTS NCycles = {ncycles}
          Dts = {{{", ".join(map(str, dts))}}}
INVARIANT Emit
CHECK_DEADLOCK FALSE
""")
    res = T.require_clean(T.run(wd, "ValveScripts", name, workers=1, timeout=600), "ValveScripts")
    ctx.tlc_stats(res)
    scripts = [r[0] for r in T.printed_records(res, "SCRIPT")]
    want = (8 * len(dts)) ** ncycles
    if len(scripts) != want:
        raise T.MachineryError(f"ValveScripts: {len(scripts)} scripts, expected {want}")
    return scripts


def enumerate_config_scripts(ctx, wd, ncycles, dts, mode, newmts, newsafes, lo, hi):
    name = "cscripts_%d_%s_%s_%s_%s_%d%d.cfg" % (ncycles, "".join(map(str, dts)), mode,
                                                "".join(map(str, newmts)),
                                                "".join(str(int(b)) for b in newsafes), lo, hi)
    T.write_cfg(wd, name, f"""SPECIFICATION SSpec
CONSTANTS NCycles = {ncycles}
          Dts = {{{", ".join(map(str, dts))}}}
          Mode = "{mode}"
          NewMts = {{{", ".join(map(str, newmts))}}}
          NewSafes = {{{", ".join("TRUE" if b else "FALSE" for b in newsafes)}}}
          MinChanges = {lo}
          MaxChanges = {hi}
INVARIANT Emit
CHECK_DEADLOCK FALSE
""")
    res = T.require_clean(T.run(wd, "ValveConfigScripts", name, workers=1, timeout=600),
                          "ValveConfigScripts")
    ctx.tlc_stats(res)
    scripts = [r[0] for r in T.printed_records(res, "SCRIPT")]
    import math
    letters = (8 if mode == "full" else 6) * len(dts)
    c = len(newmts) + len(newsafes)
    want = letters ** ncycles * sum(math.comb(ncycles, j) * c ** j for j in range(lo, hi + 1))
    if len(scripts) != want:
        raise T.MachineryError(f"ValveConfigScripts: {len(scripts)} scripts, expected {want}")
    return scripts


def classify(tr):
    """evidence only: did the run meet an unconfirmed command / raise its error flag"""
    coil = tr["coil0"]
    o = c = False
    unconfirmed = raised = False
    for e in tr["ev"]:
        if e["op"] == "switches":
            o, c = e["o"], e["c"]
        elif e["op"] == "update":
            if not ((o and not c) if coil else (c and not o)):
                unconfirmed = True
            raised |= e["error"]
            coil = e["coil"]
    return unconfirmed, raised


def judge(ctx, wd, runs, chunk=6000):
    """runs: list of (meta, trace); TLC validates all traces, failures are reported"""
    results = T.validate_traces(ctx, wd, "ValveTrace", "ValveTrace.cfg", [t for _, t in runs],
                                chunk=chunk)
    failed = []
    for (meta, tr), (matched, length, inv) in zip(runs, results):
        ctx.traces += 1
        unconfirmed, raised = classify(tr)
        ctx.evaluated((meta["mt"], meta["safe"], meta["layout"], meta["coil0"], meta.get("valve", 0),
                       json.dumps(meta.get("group")), json.dumps(meta["script"])),
                      nontrivial=unconfirmed)
        if "group" in meta:
            ctx.extra["valve_traces_from_groups"] = ctx.extra.get("valve_traces_from_groups", 0) + 1
        if any(e["op"] in ("movingtime", "safestate") for e in tr["ev"]):
            ctx.extra["runs_with_reconfiguration"] = ctx.extra.get("runs_with_reconfiguration", 0) + 1
        if raised:
            ctx.extra["runs_with_error_raised"] = ctx.extra.get("runs_with_error_raised", 0) + 1
        if raised and unconfirmed and meta["mt"] > 0 and \
                len(ctx.samples) < (2 if "group" not in meta else 4):
            ctx.sample(dict(tr, valve=meta.get("valve", 0), valves_in_group=len(meta.get("group", [0]))))
        if matched != length or isinstance(inv, str):
            failed.append((meta, tr, matched, length, inv))
    if not failed:
        return
    # diagnosis, again by TLC: would the rejected update have been a step of Valve had it put the
    # configured safe state on coil and target (everything else as observed)?
    what_if, idx = [], []
    for k, (meta, tr, matched, length, inv) in enumerate(failed):
        if 0 <= matched < length and tr["ev"][matched]["op"] == "update" \
                and tr["ev"][matched]["res"] == "ok":
            safe_now = ([tr["safe"]] + [x["s"] for x in tr["ev"][:matched] if x["op"] == "safestate"])[-1]
            e = dict(tr["ev"][matched], coil=safe_now, target=safe_now)
            what_if.append(dict(tr, ev=tr["ev"][:matched] + [e]))
            idx.append(k)
    verdict = {}
    if what_if:
        res = T.validate_traces(ctx, wd, "ValveTrace", "ValveTrace.cfg", what_if, chunk=chunk)
        verdict = {k: m == n for k, (m, n, _) in zip(idx, res)}
    for k, (meta, tr, matched, length, inv) in enumerate(failed):
        bad = tr["ev"][matched] if 0 <= matched < length else None
        before = [e for e in tr["ev"][:max(matched, 0)] if e["op"] == "update"]
        case = dict(meta)
        case.update(ev=tr["ev"], rejected_at=matched, rejected_event=bad,
                    error_before=before[-1]["error"] if before else False,
                    coil_before=before[-1]["coil"] if before else tr["coil0"],
                    accepted_with_safe_state=verdict.get(k, False))
        ctx.case_failed(case, (f"run rejected by Valve at step {matched}: {bad} "
                               f"(valve {meta.get('valve', 0)} of {len(meta.get('group', [0]))}, "
                               f"mt={meta['mt']}, safeState={meta['safe']}; with coil = target = "
                               f"safeState the step would {'' if verdict.get(k) else 'not '}be accepted)")
                        if bad else f"run rejected by Valve: {inv or 'state after reset'}")


def run(ctx):
    wd = ctx.workdir()
    # 1. the design: exhaustive model check of Valve
    T.write_cfg(wd, "mc.cfg", f"""SPECIFICATION MCSpec
CONSTANTS MovingTimes = {{0, 1, 3}}
          MaxDt = 2
          MaxClock = {8 if ctx.quick else 12}
CONSTRAINT Bound
INVARIANTS TypeOK
           CoilFollows
           NeverStuck
PROPERTY ErrorReaction
CHECK_DEADLOCK FALSE
""")
    res = T.require_clean(T.run(wd, "MC_Valve", "mc.cfg", timeout=600, coverage=True), "MC_Valve")
    if not res.ok:
        raise T.MachineryError("Valve.tla violates its own invariants:\n" + res.counterexample())
    ctx.tlc_stats(res)
    ctx.extra["mc_valve"] = dict(distinct=res.distinct, generated=res.generated)
    # 2. environment histories from TLC; the clock steps offered depend on the moving time so
    #    that "in time", "exactly elapsed" and "long elapsed" all occur within the bound
    both = (False, True)
    if ctx.quick:
        plans = [((False,), {0: (3, (0, 1)), 1: (3, (0, 1)), 3: (3, (1, 2))}),
                 ((True,), {0: (2, (0, 1)), 1: (2, (0, 1)), 3: (2, (1, 2))})]
    else:
        # the position check only applies to the default safe state: that is where depth pays
        plans = [((False,), {1: (4, (0, 1)), 3: (4, (1, 2))}),
                 (both, {0: (3, (0, 1, 2)), 1: (3, (0, 1, 2)), 3: (3, (0, 2, 3))})]
    ctx.extra["plans"] = [dict(safe_states=list(sf), per_moving_time={
        str(k): dict(cycles=v[0], dts=list(v[1])) for k, v in p.items()}) for sf, p in plans]

    # group histories: several Valve objects in one sync group, every valve judged on its own.
    # (n valves, cycles, dts, letters, staggers, [(mt, safe) per valve])
    if ctx.quick:
        gplans = [(2, 2, (0, 1), "three-switch", (0,), [(1, False), (1, False)]),
                  (2, 2, (1, 2), "three-switch", (0,), [(3, False), (3, False)]),
                  (3, 2, (1, 2), "three", (0,), [(3, False), (1, False), (3, True)])]
    else:
        gplans = [(2, 2, (1, 2), "full", (0,), [(3, False), (3, False)]),
                  (2, 2, (0, 1), "three-switch", (0,), [(1, False), (1, False)]),
                  (2, 2, (1, 2), "three-switch", (0, 1), [(1, False), (3, False)]),
                  (2, 2, (1, 2), "three-switch", (0, 1), [(3, False), (1, False)]),
                  (3, 2, (0, 1, 2), "three", (0,), [(3, False), (1, False), (3, True)]),
                  (2, 3, (1, 2), "three", (0,), [(3, False), (3, False)])]
    ctx.extra["group_plans"] = [dict(valves=n, cycles=c, dts=list(d), letters=m, staggers=list(st),
                                     config=[dict(mt=a, safe=b) for a, b in cfg])
                                for n, c, d, m, st, cfg in gplans]

    # histories in which the valve is reconfigured on the way (new moving time / new safe state):
    # (cycles, dts, letters, new moving times, new safe states, min, max changes, initial (mt, safe))
    if ctx.quick:
        cplans = [(2, (1, 2), "full", (0, 1, 3), (), 1, 1, [(0, False), (1, False), (3, False)]),
                  (2, (1, 2), "full", (), (False, True), 1, 1, [(1, True), (3, False)]),
                  (2, (1, 2), "full", (1, 3), (), 2, 2, [(3, False)])]
    else:
        cplans = [(3, (1, 2), "three-switch", (0, 1, 3), (), 1, 1,
                   [(1, False), (3, False)]),
                  (2, (1, 2), "full", (0, 1, 3), (False, True), 1, 2,
                   [(1, False), (3, False), (3, True)])]
    ctx.extra["reconfiguration_plans"] = [
        dict(cycles=c, dts=list(d), letters=m, new_moving_times=list(nm), new_safe_states=list(ns),
             changes=[lo, hi], initial=[dict(mt=a, safe=b) for a, b in ini])
        for c, d, m, nm, ns, lo, hi, ini in cplans]

    def group_runs(script, group, layout):
        traces = drive_group(script, group, layout)
        return [(dict(mt=g["mt"], safe=g["safe"], layout=layout, coil0=g.get("coil0", False),
                      configure=g.get("configure", "instance"), valve=k, group=group, script=script),
                 tr) for k, (g, tr) in enumerate(zip(group, traces))]

    def cases():
        cache = {}
        for safes, plan in plans:
            for mt in MOVING_TIMES:
                if mt not in plan:
                    continue
                key = plan[mt]
                if key not in cache:   # kept as JSON text: 65536 scripts as dicts are too big
                    cache[key] = [json.dumps(x) for x in enumerate_scripts(ctx, wd, *key)]
                for js in cache[key]:
                    for safe in safes:
                        s = json.loads(js)
                        yield [(dict(mt=mt, safe=safe, layout="A", coil0=False, script=s),
                                drive(s, mt, safe))]
        for cyc, dts, mode, newmts, newsafes, lo, hi, initial in cplans:
            scripts = enumerate_config_scripts(ctx, wd, cyc, dts, mode, newmts, newsafes, lo, hi)
            for mt, safe in initial:
                for s in scripts:
                    yield [(dict(mt=mt, safe=safe, layout="A", coil0=False, script=s),
                            drive(s, mt, safe))]
        for n, cyc, dts, mode, staggers, cfg in gplans:
            group = [dict(mt=a, safe=b, coil0=False, configure="instance") for a, b in cfg]
            for s in enumerate_group_scripts(ctx, wd, n, cyc, dts, mode, staggers):
                ctx.extra["group_histories"] = ctx.extra.get("group_histories", 0) + 1
                yield group_runs(s, group, "A")
        # 3. extra random histories: longer, 1..3 valves with different configurations, other frame
        #    layout, coils initially energised, class-level configuration, staggered resets, steps
        #    that leave a valve alone (the enumeration above is seed-independent)
        rng = ctx.rng
        for i in range(300 if ctx.quick else 3000):
            n = rng.choice((1, 1, 2, 2, 3))
            group = [dict(mt=rng.choice(MOVING_TIMES + (2, 5)), safe=rng.random() < 0.3,
                          coil0=rng.random() < 0.5, configure=rng.choice(["instance", "subclass"]))
                     for _ in range(n)]
            s = []
            for k in rng.sample(range(n), n):
                s.append(dict(op="reset", i=k))
                if rng.random() < 0.3:
                    s.append(dict(op="advance", dt=rng.randint(1, 3)))
            for _ in range(rng.randint(4, 12)):
                for k in range(n):
                    if rng.random() < 0.25:
                        s.append(dict(op="movingtime", i=k, mt=rng.choice(MOVING_TIMES + (2, 5))))
                    if rng.random() < 0.1:
                        s.append(dict(op="safestate", i=k, s=rng.random() < 0.3))
                    if rng.random() < 0.8:
                        s.append(dict(op="target", i=k, v=rng.random() < 0.5))
                    if rng.random() < 0.8:
                        s.append(dict(op="switches", i=k, o=rng.random() < 0.5, c=rng.random() < 0.5))
                dt = rng.randint(0, 4)
                if dt:
                    s.append(dict(op="advance", dt=dt))
                s.append(dict(op="update"))
            yield group_runs(s, group, rng.choice("AB"))

    batch = []
    for pairs in cases():
        batch.extend(pairs)
        if len(batch) >= 8000:
            judge(ctx, wd, batch, chunk=9000)
            batch = []
    if batch:
        judge(ctx, wd, batch, chunk=9000)
    ctx.exhaustive = True
    ctx.rule = ("all histories (normal form: SetTarget, Switches, optional Advance, Update per cycle; "
                + "; ".join(f"safeState in {set(sf)}: " +
                            ", ".join(f"{p[m][0]} cycles with dt in {set(p[m][1])} for moving time {m}"
                                      for m in MOVING_TIMES if m in p) for sf, p in plans)
                + "), TLC-enumerated; group histories with several Valve objects in one sync group, each "
                  "valve judged by its own instance of the spec: "
                + "; ".join(f"{n} valves (mt, safe) = {cfg}, {c} cycles, dt in {set(d)}, letters '{m}', "
                            f"reset stagger in {set(st)}" for n, c, d, m, st, cfg in gplans)
                + ", TLC-enumerated; histories with reconfiguration steps (new moving time / new safe "
                  "state between updates, judged by the configuration in force at each update): "
                + "; ".join(f"{c} cycles, dt in {set(d)}, letters '{m}', new moving times {set(nm) or '{}'}, "
                            f"new safe states {set(ns) or '{}'}, {lo}..{hi} changes, initial (mt, safe) in {ini}"
                            for c, d, m, nm, ns, lo, hi, ini in cplans)
                + ", TLC-enumerated; plus seeded random longer histories of 1..3 valves with random "
                  "reconfigurations; "
                  "non-trivial = some update found the switches not confirming the commanded position")


def replay_case(case):
    if "group" in case:
        return drive_group(case["script"], case["group"], case.get("layout", "A"))[case.get("valve", 0)]
    return drive(case["script"], case["mt"], case["safe"], case.get("layout", "A"),
                 case.get("coil0", False), case.get("configure", "instance"))


def replay(ctx, case):
    """./check C27 --replay <file>: run the case again and let TLC judge it"""
    meta = {k: case[k] for k in ("mt", "safe", "layout", "coil0", "script", "configure", "group",
                                 "valve") if k in case}
    meta.setdefault("layout", "A")
    meta.setdefault("coil0", False)
    judge(ctx, ctx.workdir(), [(meta, replay_case(case))])
