"""C02 - fixed-point arithmetic follows the per-100000 decimal semantics.

Spec: spec/Fixed.tla (exact rationals as pairs of wide words; results dropped to the destination by floor or
truncation; precondition on 64-bit fit) over the eBPF machine.  Statements `dst = a OP b` and `with a CMP b`
mixing integer and fixed-point operands are built with the real classes; decimal constants reach the real code as
Python floats made from decimal strings (0.29 has no exact binary representation), while the specification gets
their exact scaled integers.  TLC executes the emitted bytecode and judges the destination / the markers."""
import itertools
import struct
import json
import operator
import os
import random
from decimal import Decimal
from fractions import Fraction

from harness import tlc as T, progs
from harness.dslgen import word, NotGenerated

PROPERTY = "C02"
LEVEL = "model_checking"
N = 33
ARITH = dict(mov=lambda a, b: a, add=operator.add, sub=operator.sub, mul=operator.mul, truediv=operator.truediv,
             floordiv=operator.floordiv, mod=operator.mod)
CMP = dict(cmp_gt=operator.gt, cmp_ge=operator.ge, cmp_lt=operator.lt, cmp_le=operator.le, cmp_ne=operator.ne,
           cmp_eq=operator.eq)
KINDS = ["intvar", "intreg", "fixvar", "fixreg", "iconst", "fconst", "inthash", "fixhash"]
# the same variables reached as raw memory through the map's base register: `self.mx[...]` (fixed point) and
# `self.mq[...]` (integer).  (A seeded change made mx an alias of mq; nothing had used the raw accessors.)
MEMKINDS = ["fixmem", "intmem"]
ICONSTS = [3, 1, -2, 7, 100000, 0, 2 ** 31]
FCONSTS = ["0.29", "0.1", "3.5", "0.57", "1.15", "0.00001", "-0.29", "99999.99999", "2.0"]
RAWS = [0, 1, -1, 29000, 100000, 99999, 100001, 350000, -29000, 12345678, 2 ** 31, 2 ** 40, -(2 ** 40), 57000,
        -350000, 5]
INTS = [0, 1, -1, 2, 3, 7, -7, 100000, 2 ** 31, 2 ** 40, 12]


def dst_format(dstfixed):
    """True: fixed-point array-map variable; False: 8-byte integer; a format: that integer format;
    "hash:x" / "hash:q": a hash-map variable of that format"""
    return "x" if dstfixed is True else "q" if dstfixed is False else dstfixed.split(":")[-1]


def dst_is_hash(dstfixed):
    return isinstance(dstfixed, str) and dstfixed.startswith("hash:")


def build(op, lk, rk, dstfixed, lc, rc, use_kernel=False, scope=None):
    """lk / rk operand kinds; lc / rc the constant (int or decimal string) when the kind is a constant;
    scope: None or the name of a temporary inside whose block the statement is placed"""
    from ebpfcat.xdp import XDP, XDPExitCode
    from ebpfcat.arraymap import ArrayMap
    from ebpfcat.hashmap import HashMap
    m = ArrayMap()
    hm = HashMap() if lk.endswith("hash") or rk.endswith("hash") or dst_is_hash(dstfixed) else None
    decl = lambda k: (hm if k.endswith("hash") else m).globalVar("x" if k.startswith("fix") else "q")
    # dstfixed: True (fixed-point destination), False (8-byte integer), or the format of an integer destination
    ns = dict(license="GPL", m=m, la=decl(lk), lb=decl(rk),
              out=(hm if dst_is_hash(dstfixed) else m).globalVar(dst_format(dstfixed)),
              mk1=m.globalVar("B"), mk2=m.globalVar("B"), mk3=m.globalVar("B"))
    if hm is not None:
        ns["hm"] = hm

    def operand(self, kind, var, regno, const):
        if kind in ("intvar", "fixvar", "inthash", "fixhash"):
            return getattr(self, var)
        if kind in MEMKINDS:
            return (self.mx if kind == "fixmem" else self.mq)[self.r[m.base_register] + self.__dict__[var]]
        if kind == "intreg":
            self.sr[regno] = getattr(self, var)
            return self.sr[regno]
        if kind == "fixreg":
            self.x[regno] = getattr(self, var)
            return self.x[regno]
        if kind == "iconst":
            return const
        return float(const)

    def program(self):
        if scope is None:
            body(self)
        else:
            with getattr(self, scope):
                setattr(self, scope, 1)
                body(self)
        self.exit(XDPExitCode.PASS)

    def body(self):
        a = operand(self, lk, "la", 3, lc)
        b = operand(self, rk, "lb", 4, rc)
        if op in ARITH:
            e = ARITH[op](a, b)
            if op != "mov" and (e is None or isinstance(e, (int, float))):
                raise NotGenerated(f"evaluated to {e!r} while building")
            self.out = e
        else:
            c = CMP[op](a, b)
            if isinstance(c, bool):
                raise NotGenerated("comparison evaluated while building")
            with c as Else:
                self.mk1 = 1
            with Else:
                self.mk2 = 1
            self.mk3 = 1
    ns["program"] = program
    try:
        b = progs.build(type("Fx", (XDP,), ns), use_kernel=use_kernel)
    except NotGenerated:
        raise
    except Exception as ex:
        raise NotGenerated(f"{type(ex).__name__}: {ex}")
    return b


def py_side(inst, vs):
    """the instance as user space sees it once the program is loaded: variables read and written through the real
    descriptors (ArrayGlobalVarDesc.__set__ / unpack) over a plain buffer standing for the mapped array"""
    inst.loaded = True
    inst.__dict__["m"] = bytearray(vs)
    return inst


def py_store(inst, var, raw):
    """assign the decimal raw / 100000 from Python, as the float a user would write; returns the 8 stored bytes"""
    off = inst.__dict__[var]
    setattr(inst, var, float(Decimal(raw) / 100000))
    return bytes(inst.__dict__["m"][off:off + 8])


def py_read(inst, var, raw8):
    off = inst.__dict__[var]
    inst.__dict__["m"][off:off + 8] = bytes(raw8)
    return getattr(inst, var)


def operand_rec(kind, inst, var, const, hfd=0):
    if kind.endswith("hash"):
        key = type(inst).__dict__[var].count
        return dict(kind="fix" if kind.startswith("fix") else "int", fd=hfd, off=key, key=[key])
    if kind in ("intvar", "intreg", "intmem"):
        return dict(kind="int", fd=1, off=inst.__dict__[var])
    if kind in ("fixvar", "fixreg", "fixmem"):
        return dict(kind="fix", fd=1, off=inst.__dict__[var])
    if kind == "iconst":
        return dict(kind="iconst", v=word(const, N))
    return dict(kind="fconst", v=word(int(Decimal(const) * 100000), N))


def shapes_of(quick):
    shapes = []
    k = 0
    for op in list(ARITH) + list(CMP):
        for lk, rk in itertools.product(KINDS, KINDS):
            if op == "mov" and rk != "iconst":
                continue                                  # a plain assignment has one operand
            if lk.endswith("const") and rk.endswith("const") and op != "mov":
                continue
            if not (lk.startswith("fix") or rk.startswith("fix") or lk == "fconst" or rk == "fconst"
                    or op == "truediv"):
                if k % 4:                         # pure integer statements belong to C01: keep a few
                    k += 1
                    continue
            k += 1
            for dstfixed in ((True, False) if op in ARITH else (False,)):
                # quick tier: half of the statements, alternating so that every operator meets both kinds of
                # destination and every pair of operand kinds
                if quick and (k + dstfixed) % 2 and op != "mov":
                    continue
                lc = (ICONSTS[k % len(ICONSTS)] if lk == "iconst" else FCONSTS[k % len(FCONSTS)])
                rc = (ICONSTS[(k * 3 + 1) % len(ICONSTS)] if rk == "iconst" else FCONSTS[(k * 5 + 2) % len(FCONSTS)])
                if op in ("truediv", "floordiv", "mod") and rk == "iconst" and rc == 0:
                    rc = 3
                if op == "mov" and lk.endswith("const"):
                    # every constant into both kinds of destination (a constant's fraction decides: 3.5, 0.57, -0.29)
                    for c in (FCONSTS + ["1.5", "2.5", "-1.5", "0.99999", "-3.99999"]) if lk == "fconst" else ICONSTS:
                        shapes.append((op, lk, rk, dstfixed, c, rc))
                    continue
                shapes.append((op, lk, rk, dstfixed, lc, rc))
    return shapes


def byte_order_destinations(quick):
    """fixed-point values stored into INTEGER variables declared with a byte order and / or narrower than 8 bytes:
    the value is dropped to an integer first and swapped last.  (A seeded change swapped first; every destination
    of this check had been a native 8-byte variable.)"""
    out = []
    pairs = [("fixvar", "iconst"), ("fixvar", "fixvar"), ("intvar", "fconst"), ("fixreg", "intvar"),
             ("fconst", "iconst"), ("fixhash", "intvar"), ("intvar", "fixvar")]
    k = 0
    for fmt in (">q", "<q", ">i", "!h", "<I", ">Q", "i", "H"):
        for op in ("mov", "add", "sub", "mul", "truediv", "floordiv"):
            for lk, rk in pairs:
                if op == "mov" and rk != "iconst":
                    continue
                if lk.endswith("const") and rk.endswith("const") and op != "mov":
                    continue
                k += 1
                if quick and k % 2:
                    continue
                lc = ICONSTS[k % len(ICONSTS)] if lk == "iconst" else FCONSTS[k % len(FCONSTS)]
                rc = ICONSTS[(k * 3 + 1) % len(ICONSTS)] if rk == "iconst" else FCONSTS[(k * 5 + 2) % len(FCONSTS)]
                if op in ("truediv", "floordiv") and rk == "iconst" and rc == 0:
                    rc = 3
                out.append((op, lk, rk, fmt, lc, rc))
    return out


def hash_destinations(quick):
    """the destination is a hash-map variable (fixed-point or integer): the assignment goes through the helper call
    of HashGlobalVarDesc.__set__, which has to convert between integers and fixed point like Memory._set does.
    (F51 - a whole number stored unscaled into a fixed-point hash variable - was found by C09; C02's destinations
    had all been array-map variables.)"""
    out = []
    k = 0
    for dst in ("hash:x", "hash:q"):
        for op in ARITH:
            for lk, rk in itertools.product(["intvar", "fixvar", "iconst", "fconst", "intreg", "fixreg", "fixhash"],
                                            ["intvar", "fixvar", "iconst", "fconst"]):
                if op == "mov" and rk != "iconst":
                    continue
                if lk.endswith("const") and rk.endswith("const") and op != "mov":
                    continue
                k += 1
                if quick and k % 3 and op != "mov":
                    continue
                lc = ICONSTS[k % len(ICONSTS)] if lk == "iconst" else FCONSTS[k % len(FCONSTS)]
                rc = ICONSTS[(k * 3 + 1) % len(ICONSTS)] if rk == "iconst" else FCONSTS[(k * 5 + 2) % len(FCONSTS)]
                if op in ("truediv", "floordiv", "mod") and rk == "iconst" and rc == 0:
                    rc = 3
                out.append((op, lk, rk, dst, lc, rc))
    return out


def raw_memory_operands(quick):
    out = []
    k = 0
    others = ["intvar", "fixvar", "iconst", "fconst", "fixreg", "fixmem", "intmem"]
    for op in list(ARITH) + list(CMP):
        for mk in MEMKINDS:
            for other in others:
                for side in (0, 1):
                    lk, rk = (mk, other) if side == 0 else (other, mk)
                    if op == "mov" and (side == 1 or other != "iconst"):
                        continue
                    if side == 1 and other in MEMKINDS:
                        continue
                    k += 1
                    if quick and k % 3:
                        continue
                    lc = ICONSTS[k % len(ICONSTS)] if lk == "iconst" else FCONSTS[k % len(FCONSTS)]
                    rc = ICONSTS[(k * 3 + 1) % len(ICONSTS)] if rk == "iconst" else FCONSTS[(k * 5 + 2) % len(FCONSTS)]
                    if op in ("truediv", "floordiv", "mod") and rk == "iconst" and rc == 0:
                        rc = 3
                    for dstfixed in ((True, False) if op in ARITH else (False,)):
                        if quick and (k // 3 + dstfixed) % 2 and op != "mov":
                            continue
                        out.append((op, lk, rk, dstfixed, lc, rc))
    return out


def run(ctx):
    run_shapes(ctx, shapes_of(ctx.quick) + byte_order_destinations(ctx.quick) + raw_memory_operands(ctx.quick)
               + hash_destinations(ctx.quick),
               5 if ctx.quick else 10)


def run_shapes(ctx, shapes, nvec, part=""):
    """part: "" for C02 itself; another check (C03: conditions over fixed-point operands) passes a prefix, and then
    only the counts are recorded, under that prefix"""
    cases, meta, refused, insts = [], [], [], []
    pyset = pyread = 0
    vr = random.Random(9)
    for si, sh in enumerate(shapes):
        op, lk, rk, dstfixed, lc, rc = sh
        # every fourth statement sits inside the block of a temporary (which then occupies a register, usually r0)
        scope = (None, "stmp", None, None, None, "xtmp", None, None)[si % 8]
        try:
            b = build(*sh, scope=scope)
        except NotGenerated as e:
            refused.append((sh, str(e)[:120]))
            continue
        inst = b.inst
        arrfd = next(j + 1 for j, mm in enumerate(b.maps) if mm["type"] == "array")
        hfd = next((j + 1 for j, mm in enumerate(b.maps) if mm["type"] == "hash"), 0)
        vs = b.maps[arrfd - 1]["vs"]
        lrec, rrec = operand_rec(lk, inst, "la", lc, hfd), operand_rec(rk, inst, "lb", rc, hfd)
        vecs = [(100000 if lk.startswith("fix") else 3, 29000 if rk.startswith("fix") else 2),
                (-350000 if lk.startswith("fix") else -7, 100000 if rk.startswith("fix") else 2),
                # beyond 32 bits on one side, small on the other (a comparison or sum made in 32 bits shows here)
                (2 ** 40 + 7 if si % 2 else -(2 ** 33), 5 if lk.startswith("fix") == rk.startswith("fix") else 1)]
        while len(vecs) < nvec + (ctx.rng.random() < 0.2):
            vecs.append((vr.choice(RAWS if lk.startswith("fix") else INTS),
                         vr.choice(RAWS if rk.startswith("fix") else INTS)))
        py_side(inst, vs)
        for va, vb in vecs:
            buf = bytearray(vs)
            hashes = []
            if dst_is_hash(dstfixed):                 # as after load(): the variable exists, with its default 0
                hashes.append((hfd, bytes([type(inst).__dict__["out"].count]), bytes(8)))
            lr, rr = dict(lrec), dict(rrec)
            for var, v, kind, rec in (("la", va, lk, lr), ("lb", vb, rk, rr)):
                if kind.endswith("const"):
                    continue
                if kind.endswith("hash"):
                    hashes.append((hfd, bytes(rec["key"]), bytes(word(v, 8))))
                    continue
                off = inst.__dict__[var]
                if kind.startswith("fix") and abs(v) < 2 ** 50:
                    # assigned from Python through the real descriptor; the specification is told the exact value
                    buf[off:off + 8] = py_store(inst, var, v)
                    rec["want"] = word(v, N)
                    pyset += 1
                else:
                    buf[off:off + 8] = bytes(word(v, 8))
            c = progs.case(b, arr={arrfd: bytes(buf)}, hashes=hashes)
            dfmt = dst_format(dstfixed)
            if dst_is_hash(dstfixed):
                drec = dict(fd=hfd, off=0, size=8, key=[type(inst).__dict__["out"].count])
            else:
                drec = dict(fd=arrfd, off=inst.__dict__["out"], size=8 if dfmt == "x" else struct.calcsize(dfmt),
                            be=dfmt[0] in ">!")
            c.update(op=op, l=lr, r=rr, dstfixed=dstfixed is True or dfmt == "x", dst=drec, n=N,
                     marks=[dict(i=i, fd=arrfd, off=inst.__dict__[f"mk{i}"]) for i in (1, 2, 3)],
                     ast=dict(k="const", v=word(0, N)), leaves=[])
            cases.append(c)
            insts.append(inst)
            meta.append(dict(op=op, left=lk, right=rk, dstfixed=dstfixed, lconst=lc if lk.endswith("const") else None,
                             rconst=rc if rk.endswith("const") else None, va=va, vb=vb, scope=scope))
    if not cases:
        raise T.MachineryError("no C02 case could be built")
    wd = ctx.workdir()
    verdict = {}
    PAR = 12                                   # cases are independent: several TLC processes side by side
    CH = max(1, -(-len(cases) // PAR))

    def chunk(start):
        path = os.path.join(wd, f"cases{start}.json")
        json.dump(cases[start:start + CH], open(path, "w"))
        res = T.run(wd, "Fixed", "Fixed.cfg", timeout=3000, deadlock=False, env={"TRACE_FILE": path}, workers=1)
        os.remove(path)
        return start, res
    from concurrent.futures import ThreadPoolExecutor
    with ThreadPoolExecutor(PAR) as ex:
        results = list(ex.map(chunk, range(0, len(cases), CH)))
    for start, res in results:
        if res.error:
            raise T.MachineryError("Fixed failed:\n" + res.error[:3000])
        ctx.tlc_stats(res)
        for rec in T.printed_records(res, "VERDICT"):
            verdict[start + rec[0]] = rec[1:]
    counts = dict(ok=0, skipped=0, wrong=0, fault=0)
    for i, m in enumerate(meta, 1):
        v = verdict.get(i)
        if v is None:
            raise T.MachineryError(f"no verdict for case {i}: {m}")
        kind, st_, got, expected, divneg = v
        counts[kind] += 1
        ctx.traces += 1
        ctx.evaluated(tuple(sorted(m.items(), key=lambda x: x[0])) if False else repr(m), nontrivial=kind != "skipped")
        if kind == "ok" and m["op"] in ARITH and m["dstfixed"] is True:
            # the Python-side read back of the result: the float nearest to raw / 100000
            raw = int.from_bytes(bytes(got), "little", signed=True)
            back = py_read(insts[i - 1], "out", got)
            pyread += 1
            if back != float(Fraction(raw, 100000)):
                ctx.case_failed(dict(m, verdict="wrong", status="python-side read back", observed=repr(back),
                                     admissible=repr(float(Fraction(raw, 100000))), div_on_negative=False),
                                f"raw {raw} read back from Python as {back!r}, not {float(Fraction(raw, 100000))!r}")
        if kind == "ok" and i % 397 == 5:
            ctx.sample(dict(m, verdict=kind, observed=got, admissible=expected))
        if kind in ("wrong", "fault"):
            ctx.case_failed(dict(m, verdict=kind, status=st_, observed=got, admissible=expected, div_on_negative=divneg),
                            f"{m['left']}({m['va'] if m['lconst'] is None else m['lconst']}) {m['op']} "
                            f"{m['right']}({m['vb'] if m['rconst'] is None else m['rconst']}) -> "
                            f"{'fixed' if m['dstfixed'] is True else 'int' if m['dstfixed'] is False else m['dstfixed']}: {kind} {st_ or ''} observed {got} admissible {expected}")
    if part:
        ctx.extra[part + "verdicts"] = counts
        ctx.extra[part + "statements"] = len(shapes)
        return
    ctx.exhaustive = False
    ctx.rule = ("6 arithmetic operators into fixed-point and integer destinations and 6 comparisons, over ordered pairs of "
                "operand kinds (8-byte integer / fixed-point variables and registers, integer constants, decimal "
                "constants incl. 0.29, 0.1, 0.57, 1.15, 0.00001, 99999.99999), each on boundary and fixed-seed raw "
                "values; non-trivial = inside the precondition")
    ctx.extra.update(verdicts=counts, statements=len(shapes), refused=len(refused), python_side_stores=pyset, python_side_reads=pyread, refused_examples=[str(r)[:200] for r in refused[:6]])
    ctx.assumptions += ["every operand is 8 bytes wide, so the narrowest width involved is 64 bits",
                        "a decimal constant reaches the generator as float(decimal string), as a user would write it"]
