"""C25 - terminal addresses assigned by the master are unique.

Spec: spec/Address.tla (bus + the property as the condition WriteOK on every address write + the
design find_free_address / assigned_address as interleaved tasks), MC_Address (exhaustive),
AddressTrace (trace validation).
Binding: the real EtherCat.scan_serial_numbers() and concurrent Terminal.initialize(-i, None) run
on a real EtherCat('x') attached to a simulated segment (harness/simbus via harness/addrbus) whose
terminals have random pre-assigned station addresses; terminal_addr_range is narrowed to 4..8
addresses so that collisions happen; task start order, start jitter and virtual response delays
vary per case; in half of the cases a whole packet fails once or twice (sendto raising, or a
truncated reply), aimed at a probe of an address a terminal holds, at any probe or at some
frame, and the failed job is retried.  The probes (FPRD of 0x10 + working counter) and the writes of register 0x10 seen
on the segment are the trace that TLC validates against Address.

The upper end of the range: EtherCat.terminal_addr_range is handed to LockFile(minimum, maximum)
and ParallelMailboxLock asserts minimum <= no < maximum, so the package itself treats the upper
bound as excluded; UPPER_EXCLUSIVE states that reading.  Every trace is validated under both
readings so that an assignment of exactly `hi` is reported as its own class of failure and does
not mask anything else."""
import asyncio
import errno
import logging
import random
import signal

from harness import tlc as T
from harness import simbus, simloop, addrbus

PROPERTY = "C25"
LEVEL = "model_checking"

UPPER_EXCLUSIVE = False     # gating reading: [lo, hi] inclusive, as randint and the property text allow; see DESIGN.md C25

SCENARIOS = ("scan", "init", "scan+init", "scan;init", "init;scan")
DELAYS = (0.0, 0.0, 0.0, 0.0005, 0.001, 0.003)
JITTER = (0.0, 0.0, 0.0005, 0.002)
# whole-packet transport failures: the AF_PACKET sendto raises, or the reply comes back truncated
FAULT_KINDS = ("raise", "truncate")
FAULT_TARGETS = ("occupied", "occupied", "probe", "frame")   # which frame is hit, see play()
ERRNOS = (errno.ENOBUFS, errno.ENETDOWN)
BIG_SHARE = 0.12            # share of cases with 16..40 terminals


class Hang(BaseException):
    """wall-clock backstop: the code under test span without yielding to the event loop"""


def make_case(rng, ident):
    """parameters of one case (everything a replay needs)"""
    while True:
        n = rng.randint(2, 6)
        # big buses: more datagrams queued at once than one frame takes (15), so that the
        # requests of concurrently scanned / initialised terminals spill into further frames
        big = rng.random() < BIG_SHARE
        if big:
            n = rng.choice((16, 17, 20, 33, rng.randint(16, 40)))
        fault = None
        if rng.random() < 0.5:
            # a packet fails as a whole once or twice: at a probe of an address a terminal holds,
            # at any probe, or at the k-th frame; the failed job is retried as a user would
            fault = dict(kind=rng.choice(FAULT_KINDS), target=rng.choice(FAULT_TARGETS),
                         skip=rng.choice((0, 0, 0, 1, 2)), count=rng.choice((1, 1, 2)),
                         errno=rng.choice(ERRNOS), cut=rng.random(), frame=rng.randint(0, 25))
            if fault["target"] == "occupied":
                fault["skip"] = 0
        width = rng.randint(4, 8) if fault is None else rng.randint(6, 12)
        if big:
            width = rng.randint(n // 2, n)         # provisional; widened to the demand below
        lo = rng.choice((1000, 1000, 7, 4090, 29990))
        hi = lo + width - 1
        outside = [lo - 1, hi + 1, hi + 2, 5, 300, 40000]
        inside = list(range(lo, hi + 1))
        conf = []
        for _ in range(n):
            r = rng.random()
            if r < 0.45:
                conf.append(0)
            else:
                pool = [a for a in (inside if r < 0.85 else outside) if a not in conf and a > 0]
                conf.append(rng.choice(pool) if pool else 0)
        # terminals taken over from elsewhere may carry the SAME address (a probe of it then comes
        # back with working counter 2, 3, ..): make some terminals share an earlier one's address
        for i in range(1, n):
            earlier = [a for a in conf[:i] if a]
            if earlier and rng.random() < 0.25:
                conf[i] = rng.choice(earlier)
        scenario = rng.choice(SCENARIOS)
        ninit = rng.randint(max(1, n - 4), n) if big else rng.randint(1, n)
        inits = sorted(rng.sample(range(n), ninit)) if "init" in scenario else []
        rng.shuffle(inits)

        def need(hi):
            d = len(inits) + sum(1 for a in conf if lo <= a <= hi)
            if "scan" in scenario:
                d += sum(1 for a in conf if a == 0)
            return d * (fault["count"] + 1 if fault else 1)   # a failure may burn them once more
        if big:                                    # just enough room: collisions stay frequent
            slack = rng.randint(0, 3)
            for _ in range(3):
                hi = max(hi, lo + need(hi) + slack)
        demand = need(hi)
        if fault and fault["target"] == "occupied" and not any(lo <= a <= hi for a in conf):
            continue                               # needs a terminal answering inside the range
        if demand <= hi - lo:                      # never exhaust the range (endless search)
            break
    return dict(id=ident, n=n, lo=lo, hi=hi, conf=conf, scenario=scenario, inits=inits,
                scan_first=rng.random() < 0.5, fault=fault,
                delays=[rng.choice(DELAYS) for _ in range(40)],
                jitter=[rng.choice(JITTER) if not big or i % 7 == 6 else 0.0 for i in range(n + 1)],
                seed=rng.randrange(1 << 30))


def play(case, budget=200000, wall=20):
    """run the real code on the simulated segment; returns (trace events, info)"""
    from ebpfcat.ethercat import EtherCat, Terminal
    terms = []
    for i, a in enumerate(case["conf"]):
        t = simbus.SimTerminal(f"T{i}", fmmus=2, station=a)
        t.eeprom = addrbus.eeprom_image(serial=1000 + i)
        terms.append(t)
    bus = addrbus.AddrBus(terms)
    delays = list(case["delays"])
    nframe = [0]

    fault = case.get("fault")
    fstate = dict(left=fault["count"], skip=fault["skip"]) if fault else None
    info = dict(exceptions=[], stalled=None, scan=None, faults=[])

    def hit(frame, k):
        """is this the frame the transport failure is aimed at?"""
        if fault["target"] == "frame":
            return k >= fault["frame"]
        probes = [d["adp"] for d in simbus.parse_frame(frame)["dgrams"]
                  if d["cmd"] == simbus.FPRD and d["ado"] == 0x10]
        if fault["target"] == "probe":
            return bool(probes)
        return any(t.station == a for a in probes for t in terms)      # "occupied"

    def policy(frame):
        k = nframe[0]
        d = delays[k % len(delays)]
        nframe[0] += 1
        if fstate and fstate["left"] and hit(frame, k):
            if fstate["skip"]:
                fstate["skip"] -= 1
            else:
                fstate["left"] -= 1
                info["faults"].append((fault["kind"], k))
                if fault["kind"] == "raise":      # the frame never reaches the segment
                    raise OSError(fault["errno"], "simulated transport failure")
                resp = bus.process(frame)         # it passed the terminals, the reply is cut short
                end = simbus.parse_frame(frame)["end"]
                cut = 16 + int(fault["cut"] * (end - 16))      # keeps the packet index
                return [("raw", d, resp[:max(16, min(cut, end - 1))])]
        return [("return", d)]

    async def main():
        ec = EtherCat("x")
        ec.terminal_addr_range = (case["lo"], case["hi"])
        simbus.attach(ec, bus, policy)
        jit = list(case["jitter"])

        async def guarded(name, j, coro_fn):
            if j:
                await asyncio.sleep(j)
            for attempt in range(3):     # a job that failed is tried again, as a user would
                try:
                    return await coro_fn()
                except Exception as e:   # not an address assignment: counted, not judged here
                    info["exceptions"].append((name, type(e).__name__, str(e)[:120]))
                    if not fault:
                        return

        def init_jobs():
            return [guarded(f"init{i}", jit[i], lambda i=i: Terminal(ec).initialize(-i, None))
                    for i in case["inits"]]

        async def scan():
            info["scan"] = await ec.scan_serial_numbers()

        def scan_job():
            return guarded("scan", jit[-1], scan)

        sc = case["scenario"]
        if sc == "scan":
            await scan_job()
        elif sc == "init":
            await asyncio.gather(*init_jobs())
        elif sc == "scan+init":
            jobs = init_jobs()
            jobs.insert(0 if case["scan_first"] else len(jobs), scan_job())
            await asyncio.gather(*jobs)
        elif sc == "scan;init":
            await scan_job()
            await asyncio.gather(*init_jobs())
        else:
            await asyncio.gather(*init_jobs())
            await scan_job()
        info["used"] = sorted(ec.used_addresses)

    def alarm(signum, frm):
        raise Hang()

    random.seed(case["seed"])
    old = signal.signal(signal.SIGALRM, alarm)
    signal.setitimer(signal.ITIMER_REAL, wall)
    try:
        simloop.run(main, budget=budget)
    except simloop.StallError as e:
        info["stalled"] = "stall: " + str(e)[:100]
    except Hang:
        info["stalled"] = "hang: no progress within the wall-clock limit"
    finally:
        signal.setitimer(signal.ITIMER_REAL, 0)
        signal.signal(signal.SIGALRM, old)
    ev = [dict(e) for e in bus.events]
    ev.append(dict(op="final", conf=[t.station for t in terms]))
    if info["scan"] is not None:
        info["scan"] = {str(k): v for k, v in info["scan"].items()}
    return ev, info


def play_case(case, tries=24):
    """play(); a case whose transport failure is aimed at the probe of an occupied address is
    re-run with the next random seeds until that probe happens (the seed used is kept in the case)"""
    res = play(case)
    if (case.get("fault") or {}).get("target") == "occupied":
        seed = case["seed"]
        for i in range(1, tries):
            if res[1]["faults"]:
                break
            case["seed"] = seed + i
            res = play(case)
        else:
            if not res[1]["faults"]:
                case["seed"] = seed
                res = play(case)
    return res


def to_trace(case, ev):
    return dict(n=case["n"], conf=case["conf"], lo=case["lo"], hi=case["hi"], ev=ev)


def validate(ctx, wd, traces, incl):
    name = f"trace_{'incl' if incl else 'excl'}.cfg"
    T.write_cfg(wd, name, f"""SPECIFICATION TSpec
CONSTANTS HiIncl = {"TRUE" if incl else "FALSE"}
          Addrs = {{}}
CONSTRAINT Progress
INVARIANTS UniqueAssigned
           WrittenInRange
POSTCONDITION Post
CHECK_DEADLOCK FALSE
""")
    return T.validate_traces(ctx, wd, "AddressTrace", name, traces, chunk=2500)


def judge(ctx, cases, runs, strict, lenient):
    for case, (ev, info), rs, rl in zip(cases, runs, strict, lenient):
        ctx.traces += 1
        writes = [e for e in ev if e["op"] == "write"]
        answered = [e for e in ev if e["op"] == "probe" and e["wkc"] > 0]
        ctx.evaluated(("g" if isinstance(case["id"], int) else "r", case["id"]),
                      nontrivial=len(writes) >= 2)
        st = ctx.extra.setdefault("stats", dict(writes=0, probes=0, probes_answered=0,
                                                assigned_hi=0, exceptions=0, stalled=0, faults=0,
                                                faults_on_occupied_probe=0,
                                                probes_answered_by_several=0))
        st["writes"] += len(writes)
        st["probes"] += sum(1 for e in ev if e["op"] == "probe")
        st["probes_answered"] += len(answered)
        st["probes_answered_by_several"] += sum(1 for e in answered if e["wkc"] > 1)
        st["assigned_hi"] += sum(1 for e in writes if e["a"] == case["hi"])
        st["exceptions"] += len(info["exceptions"])
        st["stalled"] += bool(info["stalled"])
        st["faults"] += len(info["faults"])
        st["faults_on_occupied_probe"] += len(info["faults"]) if (case.get("fault") or {}).get(
            "target") == "occupied" else 0
        if len(ctx.samples) < 3 and len(writes) >= 3 and answered:
            ctx.sample(dict(case={k: case[k] for k in ("n", "lo", "hi", "conf", "scenario", "inits")},
                            ev=ev))
        verdicts = []
        (m, n, inv) = rl
        if m != n or isinstance(inv, str):
            verdicts.append(("assignment", m, inv))
        else:
            (m, n, inv) = rs if UPPER_EXCLUSIVE else rl
            if m != n or isinstance(inv, str):
                verdicts.append(("upper_end", m, inv))
        for kind, m, inv in verdicts:
            bad = ev[m] if m < len(ev) else None
            c = dict(case, kind=kind, ev=ev, rejected_at=m, rejected_event=bad,
                     exceptions=info["exceptions"], stalled=info["stalled"])
            if bad is None:
                reason = f"invariant violated: {inv}"
            elif kind == "upper_end":
                reason = (f"address {bad['a']} written to terminal {bad['t']} is the upper bound of "
                          f"terminal_addr_range ({case['lo']}, {case['hi']}), which the package's own "
                          f"users of the range (LockFile/ParallelMailboxLock: minimum <= no < maximum) "
                          f"treat as outside; accepted only if the bound is read as inclusive")
            elif bad["op"] == "write":
                reason = (f"write of address {bad['a']} into terminal {bad['t']} (event {m}) is not a "
                          f"permitted assignment: out of range {case['lo']}..{case['hi']}, handed out "
                          f"before, or an address at which a terminal answers")
            else:
                reason = f"trace rejected by Address at event {m}: {bad} (harness/bus model disagreement)"
            ctx.case_failed(c, reason)


def run(ctx):
    logging.disable(logging.CRITICAL)
    wd = ctx.workdir()
    # 1. the design: exhaustive model check, 3 terminals x 4 (quick) / 5 (thorough) addresses
    big = not ctx.quick
    T.write_cfg(wd, "mc.cfg", f"""SPECIFICATION MCSpec
CONSTANTS HiIncl = FALSE
          Addrs = {{{", ".join(str(i) for i in range(1, 6 if big else 5))}}}
          N = 3
          Lo = 1
          Hi = {5 if big else 4}
          MaxTasks = {6 if big else 4}
INVARIANTS TypeOK
           DesignSafe
           UniqueAssigned
           WrittenInRange
           UsedCovers
CHECK_DEADLOCK FALSE
""")
    res = T.require_clean(T.run(wd, "MC_Address", "mc.cfg", workers=4, timeout=1500), "MC_Address")
    if not res.ok:
        raise T.MachineryError("Address.tla: the design violates the property:\n" + res.counterexample())
    ctx.tlc_stats(res)
    ctx.extra["mc_address"] = dict(distinct=res.distinct, generated=res.generated, terminals=3,
                                   addresses=5 if big else 4, max_tasks=6 if big else 4)
    # 2. real runs: a seed-independent grid plus extra cases from VERIF_SEED
    ngrid = 400 if ctx.quick else 4000
    nrand = 100 if ctx.quick else 1000
    cases = [make_case(random.Random(f"C25/{i}"), i) for i in range(ngrid)]
    cases += [make_case(random.Random(ctx.rng.randrange(1 << 60)), f"s{ctx.seed}-{i}")
              for i in range(nrand)]
    runs = [play_case(c) for c in cases]
    traces = [to_trace(c, ev) for c, (ev, _) in zip(cases, runs)]
    # 3. TLC validates every trace, under both readings of the upper bound
    lenient = validate(ctx, wd, traces, True)
    strict = validate(ctx, wd, traces, False) if UPPER_EXCLUSIVE else lenient
    judge(ctx, cases, runs, strict, lenient)
    if not ctx.extra["stats"]["writes"]:
        raise T.MachineryError("no address was ever assigned: the harness does not exercise the code")
    ctx.exhaustive = False
    ctx.rule = (f"{ngrid} fixed + {nrand} seeded cases: 2..6 terminals ({int(BIG_SHARE * 100)}% of them 16..40, so that concurrent requests "
                f"overflow a frame), random pre-assigned addresses (some shared by several terminals) in "
                f"and around a range of 4..8 addresses, scan_serial_numbers and/or concurrent "
                f"Terminal.initialize in varied start order, start jitter and response delays; in half of "
                f"the cases one or two packets fail as a whole (sendto raising ENOBUFS/ENETDOWN, or a "
                f"truncated reply) at a probe of an occupied address, at any probe or at some frame, "
                f"and failed jobs are retried; "
                f"non-trivial = at least two addresses were assigned in the case")
    ctx.assumptions.append("the upper bound of terminal_addr_range is read as excluded "
                           "(LockFile/ParallelMailboxLock: minimum <= no < maximum)"
                           if UPPER_EXCLUSIVE else
                           "the upper bound of terminal_addr_range is read as included (randint)")


def replay(ctx, case):
    logging.disable(logging.CRITICAL)
    wd = ctx.workdir()
    run1 = play(case)
    traces = [to_trace(case, run1[0])]
    lenient = validate(ctx, wd, traces, True)
    strict = validate(ctx, wd, traces, False) if UPPER_EXCLUSIVE else lenient
    print("trace:", run1[0], run1[1])
    judge(ctx, [case], [run1], strict, lenient)
