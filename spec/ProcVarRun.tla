----------------------------- MODULE ProcVarRun -----------------------------
(* C19 - binding of ProcVar to the two real paths.

   One case = one configuration (real terminals with a PDO map, a real device whose update() and
   program() perform the same reads and writes of process variables) on one frame:
     slow path  the device's update() ran in Python on a real SyncGroup whose current_data was the
                frame; the harness reports the final frame and the values read;
     fast path  the program a real FastSyncGroup emitted for the same devices, executed here by the
                machine of Ebpf.tla on the same frame behind a 14-byte Ethernet header.
   Both must equal ProcVar's Get / Set, hence each other.

   case = EbpfRun's case record (pkt = Ethernet header + frame) plus
     built  FALSE if the real classes refused to build one of the groups (then only `error`),
     pv   |-> [fd    map number of the fast group's `properties` map,
               ops   <<[kind |-> "read" | "write", var |-> process variable (ProcVar.tla),
                        dv |-> [off, n, s] the device variable in the map: destination of a
                               read, source of a write>>, ...>> in program order,
               free  positions (0-based, in pkt) whose final value this property does not
                     prescribe: command byte and working counter of the write datagrams, which
                     the fast group's activation code rewrites (C21)],
     slow |-> [raised |-> "" or the exception, final |-> frame bytes, reads |-> <<word, ...>>]   *)
EXTENDS EbpfRun, ProcVar

K == Cases[cid]
Eth == 14
Frame0(k) == SubSeq(k.pkt, Eth + 1, Len(k.pkt))
Props(k) == k.arr[CHOOSE j \in 1 .. Len(k.arr) : k.arr[j].fd = k.pv.fd].bytes
DvBytes(mem, dv) == SubSeq(mem, dv.off + 1, dv.off + dv.n)
DvVal(mem, dv) == IF dv.s = 1 THEN WSext(DvBytes(mem, dv), ProcVarN) ELSE WZext(DvBytes(mem, dv), ProcVarN)

(* the accesses with the values written: a write stores the device variable's value *)
OpsOf(k) == Mat([i \in 1 .. Len(k.pv.ops) |->
                  IF k.pv.ops[i].kind = "read" THEN [kind |-> "read", var |-> k.pv.ops[i].var]
                  ELSE [kind |-> "write", var |-> k.pv.ops[i].var,
                        val |-> DvVal(Props(k), k.pv.ops[i].dv)]], Len(k.pv.ops))
ReadOps(k) == SelectSeq(k.pv.ops, LAMBDA o : o.kind = "read")
VarWidth(v) == IF ProcVarIsBit(v) THEN 1 ELSE v.n

(* preconditions: variables inside the frame, written values representable, destinations of reads
   wide enough to hold what is read *)
Pre(k, ops) ==
    \A i \in 1 .. Len(ops) :
        /\ ProcVarInFrame(Frame0(k), ops[i].var)
        /\ ops[i].kind = "write" => ProcVarHolds(ops[i].var, ops[i].val)
        /\ ops[i].kind = "read" =>
             LET dv == k.pv.ops[i].dv  v == ops[i].var IN
             dv.n >= VarWidth(v) /\ (ProcVarIsBit(v) \/ dv.n = v.n \/ dv.s = v.s)

Model(k, ops) == ProcVarRunOps(ops, 1, Frame0(k), <<>>)

(* ---- the requirement ------------------------------------------------------------------------ *)
SlowDiff(k, m) == IF Len(k.slow.final) # Len(m.frame) THEN {-1}
                  ELSE {i \in 1 .. Len(m.frame) : k.slow.final[i] # m.frame[i]}
SlowOk(k, m) == k.slow.raised = "" /\ SlowDiff(k, m) = {} /\ k.slow.reads = m.reads

Free(k) == {k.pv.free[j] : j \in 1 .. Len(k.pv.free)}
Want(k, m) == SubSeq(k.pkt, 1, Eth) \o m.frame
FastDiff(k, want, got) == IF Len(got) # Len(want) THEN {-1}
                          ELSE {i \in 1 .. Len(want) : (i - 1) \notin Free(k) /\ got[i] # want[i]}
FastReads(k, f) == LET r == ReadOps(k)  mem == f.m[Rg("arr", k.pv.fd, <<>>)] IN
                   Mat([j \in 1 .. Len(r) |-> DvBytes(mem, r[j].dv)], Len(r))
WantReads(k, m) == LET r == ReadOps(k) IN
                   Mat([j \in 1 .. Len(r) |-> WTrunc(m.reads[j], r[j].dv.n)], Len(r))
FastOk(k, m, f) == /\ Exited(f.c)
                   /\ FastDiff(k, Want(k, m), f.m[RPkt]) = {}
                   /\ FastReads(k, f) = WantReads(k, m)

(* the laws of ProcVar on this case's frame, variables and values (no run involved) *)
LawsOk(k, ops) ==
    \A i \in 1 .. Len(ops) :
        IF ops[i].kind = "write"
        THEN ProcVarSetIsLocal(Frame0(k), ops[i].var, ops[i].val)
             /\ ProcVarGetAfterSet(Frame0(k), ops[i].var, ops[i].val)
        ELSE ProcVarGetIsLocal(Frame0(k), ops[i].var)

InvBuilt == K.built
InvSlow == K.built /\ Pre(K, OpsOf(K)) => SlowOk(K, Model(K, OpsOf(K)))
InvFast == K.built /\ Pre(K, OpsOf(K)) => FastOk(K, Model(K, OpsOf(K)), Final(K))
InvLaws == K.built /\ Pre(K, OpsOf(K)) => LawsOk(K, OpsOf(K))

(* verdict collection (always TRUE): one line per case *)
Verdict(k, ops, m, f) ==
    PrintT(<<"VERDICT", cid, TRUE, Pre(k, ops), SlowOk(k, m), FastOk(k, m, f), LawsOk(k, ops),
             [st |-> f.c.st, slowdiff |-> SlowDiff(k, m), fastdiff |-> FastDiff(k, Want(k, m), f.m[RPkt]),
              slowreads |-> k.slow.reads = m.reads, fastreads |-> FastReads(k, f), wantreads |-> WantReads(k, m)]>>)
Observe == IF ~K.built THEN PrintT(<<"VERDICT", cid, FALSE, FALSE, FALSE, FALSE, FALSE, [st |-> <<"not-built">>]>>)
           ELSE Verdict(K, OpsOf(K), Model(K, OpsOf(K)), Final(K))
=============================================================================
