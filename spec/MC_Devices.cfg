INIT Init
NEXT Next
CONSTANTS
  FrameLen = 2
  FrameBytes = {0, 127, 128, 255}
  Vals <- ValsDef
  SmallVals = {0, 1, 7, 300}
INVARIANTS InFrame
           FrameCondition
           InputIsGet
           OutputIsSet
           CounterIsInt
           CounterSlowIsInt
           DropperIsInt
           RandomOutputIsInt
           SlowInert
           OnlyDropperDrops
CHECK_DEADLOCK FALSE
