----------------------------- MODULE BytesTest -----------------------------
(* self-test of Bytes.tla against Python's struct module: vectors [fmt, bytes, value, ok] where
   for ok = TRUE  bytes = struct.pack(fmt, value) and value = struct.unpack(fmt, bytes)[0] (as an
   8-byte two's-complement word), and for ok = FALSE struct.pack(fmt, value) raises struct.error.
   This validates the specification's vocabulary, it decides nothing about the code under test. *)
EXTENDS Bytes, TLC, Json, IOUtils
Vec == JsonDeserialize(IOEnv.TRACE_FILE)
Holds(v) == /\ IsFmt(v.fmt)
            /\ InRange(v.fmt, v.value) = v.ok
            /\ v.ok => /\ Len(v.bytes) = Size(v.fmt)
                       /\ Unpack(v.fmt, v.bytes) = v.value
                       /\ Pack(v.fmt, v.value) = v.bytes
                       /\ Patch(v.bytes \o <<7, 9>>, 0, v.bytes) = v.bytes \o <<7, 9>>
                       /\ Slice(<<5>> \o v.bytes \o <<6>>, 1, Size(v.fmt)) = v.bytes
                       /\ Patch(<<5, 5>> \o Pack(v.fmt, WZero(8)) \o <<6>>, 2, v.bytes) = <<5, 5>> \o v.bytes \o <<6>>
VARIABLE i
Init == i \in 1 .. Len(Vec)
Next == FALSE /\ i' = i
Good == Holds(Vec[i]) \/ (PrintT(<<"MISMATCH", i, Vec[i]>>) /\ FALSE)
=============================================================================
