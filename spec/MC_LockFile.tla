---------------------------- MODULE MC_LockFile ----------------------------
(* exhaustive model of LockFile: 2-3 participants on the same or on different terminals; the
   state space is finite (counters cycle), so every interleaving - including every one with
   the creation window - is covered                                                        *)
EXTENDS LockFile
BytesSame == [p \in Procs |-> 0]
BytesMixed == [p \in Procs |-> IF p = "p1" THEN 0 ELSE 1]
=============================================================================
