---------------------------- MODULE MC_LockFile ----------------------------
(* exhaustive model of LockFile for several layouts of users, processes and terminals; the
   state space is finite (counters cycle), so every interleaving - including every one with
   the creation window and every one in which a process holds the locks of two terminals at
   once - is covered                                                                        *)
EXTENDS LockFile
(* one user per process *)
ProcSingle == [u \in Users |-> u]
BytesSame == [u \in Users |-> 0]
BytesMixed == [u \in Users |-> IF u = "u1" THEN 0 ELSE 1]
(* process P runs u1 (terminal 0) and u2 (terminal 1); the others are processes of their own:
   u3 on terminal 0, u4 on terminal 1                                                      *)
ProcMulti == [u \in Users |-> IF u \in {"u1", "u2"} THEN "P" ELSE u]
BytesMulti == [u \in Users |-> IF u \in {"u1", "u3"} THEN 0 ELSE 1]
=============================================================================
