SPECIFICATION SSpec
CONSTANTS Logicals = {1, 2, 3}
          MaxLen = 4
INVARIANT Emit
CHECK_DEADLOCK FALSE
