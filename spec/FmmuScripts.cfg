SPECIFICATION SSpec
CONSTANTS EndKinds = {"unmap", "abort"}
          Logicals = {1, 2, 3}
          MaxLen = 4
INVARIANT Emit
CHECK_DEADLOCK FALSE
