---------------------------- MODULE MC_Frame ----------------------------
(* exhaustive model of Frame with a scaled-down MaxSize: every sequence of accepted / rejected
   datagrams over small sets of lengths and datagram kinds; after every step the assembled
   frame must parse, carry the datagrams at the reported positions, and the sterile frame must
   differ from it exactly in the writers' command bytes.  This checks the specification's
   parser (WellFormed) and its assembler (Assemble) against each other.                      *)
EXTENDS Frame
CONSTANTS Lens, Index, Ethertype
VARIABLES wr          \* indices of the datagrams added as writers
mvars == <<pvars, wr>>

Kinds == { [cmd |-> 1,  addr |-> <<-1, 16>>,     wkc |-> 0,     writer |-> FALSE],
           [cmd |-> 5,  addr |-> <<1000, 304>>,  wkc |-> 258,   writer |-> TRUE],
           [cmd |-> 10, addr |-> <<65536>>,      wkc |-> 3,     writer |-> FALSE],
           [cmd |-> 11, addr |-> <<-2>>,         wkc |-> 65535, writer |-> TRUE] }
Data(n, k) == [i \in 1 .. n |-> (16 * k + i) % 256]

MInit == PInit /\ wr = {}
MNext == \E n \in Lens, kd \in Kinds :
           LET k == Len(pkt.dgrams) + 1 IN
           LET d == [cmd |-> kd.cmd, idx |-> (37 * k) % 256, addr |-> kd.addr,
                     data |-> Data(n, k), wkc |-> kd.wkc] IN
             \/ /\ AppendOk(d, Start(pkt, d), Stop(pkt, d))
                /\ wr' = IF kd.writer THEN wr \cup {k} ELSE wr
             \/ AppendReject(d) /\ UNCHANGED wr
MSpec == MInit /\ [][MNext]_mvars

Frm == Assemble(pkt, Index, Ethertype)
FrameInv == FrameOK(Frm, pkt, rep, Index, Ethertype)
SterileInv == /\ SterileOK(Sterile(pkt, wr, Index, Ethertype), Frm, CmdPos(rep, wr))
              /\ WellFormed(Sterile(pkt, wr, Index, Ethertype))
SizeInv == /\ pkt.size <= MaxSize /\ Len(Frm) <= MaxSize
           /\ Len(rep) = Len(pkt.dgrams)
           /\ \A k \in 1 .. Len(rep) : rep[k][2] + DgTail <= pkt.size
(* a datagram that does not fit can never be accepted, whatever positions are reported *)
RejectInv == \A n \in Lens, kd \in Kinds :
               LET d == [cmd |-> kd.cmd, idx |-> 0, addr |-> kd.addr, data |-> Data(n, 0),
                         wkc |-> kd.wkc] IN
               ~Fits(pkt, d) => ~ENABLED AppendOk(d, Start(pkt, d), Stop(pkt, d))
=============================================================================
