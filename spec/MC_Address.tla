---------------------------- MODULE MC_Address ----------------------------
(* exhaustive model of the address assignment design: N terminals with every pre-assignment
   (also the same address in several terminals), a serial-number scan over all terminals or not, an
   initialisation task for every subset of the terminals, all interleavings *)
EXTENDS Address
CONSTANTS N, Lo, Hi,
          MaxTasks    \* at most this many tasks run (a scan counts one task per terminal)
Kinds == {"scan", "init"}
Ids == Kinds \X (1 .. N)
MCInit ==
    /\ conf \in [1 .. N -> Addrs \cup {0}]      \* including addresses shared by several terminals
    /\ rng = [lo |-> Lo, hi |-> Hi]
    /\ answered = {} /\ written = {} /\ used = {}
    /\ \E scan \in BOOLEAN, inits \in SUBSET (1 .. N) :
          /\ (IF scan THEN N ELSE 0) + Cardinality(inits) <= MaxTasks
          /\ task = [id \in Ids |->
                    [kind |-> id[1], pos |-> id[2], cand |-> 0,
                     pc |-> IF id[1] = "scan" THEN (IF scan THEN "read" ELSE "done")
                            ELSE (IF id[2] \in inits THEN "pick" ELSE "done")]]
MCSpec == MCInit /\ [][DNext]_avars
TypeOK == /\ conf \in [1 .. N -> Addrs \cup {0}]
          /\ used \subseteq Addrs /\ written \subseteq Addrs /\ answered \subseteq Addrs
          /\ \A id \in Ids : task[id].pc \in {"read", "pick", "probe", "write", "done"}
=============================================================================
