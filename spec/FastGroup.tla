------------------------------ MODULE FastGroup ------------------------------
(* C21 - fast-group frames only write outputs computed in the same pass: the requirements that
   concern ONE frame (the requirement over histories is an invariant of Dispatcher.tla).

   case (JSON, one per frame; EbpfRun's fields plus):
     kind = "sterile":  pkt is a frame user space emitted (SterilePacket.sterile output, or a frame
                        the real FastSyncGroup.run / update_devices handed to roundtrip_packet);
                        ref the group's frame with every command in place.
                        Requirement: pkt has ref's datagrams with exactly the write datagrams' commands NOP.
     kind = "pass":     programs = <<the group's emitted program>>, pkt the frame handed to it (sterile
                        or with enabled write datagrams, returned working counters right or wrong),
                        arr[pidx] the group's map (wkc_errors at wkcOff: 0 = output disabled),
                        ref, terms (the configuration).  TLC executes the program on the machine.
                        Requirement: FastGroupFrame!PassOK with processed = TRUE.
   The expected working counters, the set of write datagrams and the expected error count are
   computed here from ref and terms, never by the harness.                                     *)
EXTENDS EbpfRun, FastGroupFrame

C == Cases[cid]
W4(bytes, off) == SubSeq(bytes, off + 1, off + 4)

PassJudge(k, res, e0, e1) ==
    LET outEn == e0 # <<0, 0, 0, 0>> IN
    [ok |-> res.st = <<"exit">> /\ PassOK(k.pkt, res.pkt, k.ref, k.terms, TRUE, outEn, e0, e1),
     why |-> IF res.st # <<"exit">> THEN "fault"
             ELSE PassWhy(k.pkt, res.pkt, k.ref, k.terms, TRUE, outEn, e0, e1),
     detail |-> [st |-> res.st, r0 |-> res.r0, pkt |-> res.pkt, props |-> res.arr[k.pidx],
                 writers |-> Writers(k.ref), wrong |-> Cardinality(Wrong(k.pkt, k.ref, k.terms)),
                 outEn |-> outEn, e0 |-> e0, e1 |-> e1]]
PassRun(k, res) == PassJudge(k, res, W4(k.arr[k.pidx].bytes, k.wkcOff), W4(res.arr[k.pidx], k.wkcOff))
SterileJudge(k) ==
    [ok |-> Sterile(k.pkt, k.ref),
     why |-> IF Sterile(k.pkt, k.ref) THEN "ok"
             ELSE IF Len(k.pkt) # Len(k.ref) THEN "length"
             ELSE IF AnyEnabled(k.pkt, k.ref) THEN "write-datagram-enabled"
             ELSE "differs-from-reference",
     detail |-> [writers |-> Writers(k.ref), enabled |-> EnabledSet(k.pkt, k.ref)]]
Verdict(k) == IF k.kind = "sterile" THEN SterileJudge(k) ELSE PassRun(k, Result(k))

Emit(v) == PrintT(<<"VERDICT", cid, v.ok, v.why, ToJson(v.detail)>>)
Observe == cid > 0 => Emit(Verdict(C))
(* two levels (0 -> -chunk -> case) so that TLC's workers share the cases *)
NChunks == 16
FInit == cid = 0
FNext == \/ cid = 0 /\ \E c \in 1 .. NChunks : cid' = -c
         \/ cid < 0 /\ \E i \in 1 .. Len(Cases) : (i % NChunks) + 1 = -cid /\ cid' = i
=============================================================================
